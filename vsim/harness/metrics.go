package harness

import (
	"errors"

	"github.com/prometheus/client_golang/prometheus"
	dto "github.com/prometheus/client_model/go"
)

// existingCounter returns the counter child of a CounterVec that the code
// under test registered with the default registry (found by registering an
// identical descriptor, which reports the existing collector). Cheap to read,
// unlike a full Gather.
func existingCounter(subsystemName, help, labelName, labelValue string) prometheus.Counter {
	cv := prometheus.NewCounterVec(prometheus.CounterOpts{Namespace: "buildbarn", Subsystem: "blobstore", Name: subsystemName, Help: help}, []string{labelName})
	err := prometheus.Register(cv)
	var are prometheus.AlreadyRegisteredError
	if errors.As(err, &are) {
		if ex, ok := are.ExistingCollector.(*prometheus.CounterVec); ok {
			return ex.WithLabelValues(labelValue)
		}
		return nil
	}
	if err == nil {
		prometheus.Unregister(cv)
	}
	return nil
}

func counterValue(c prometheus.Counter) float64 {
	if c == nil {
		return 0
	}
	var m dto.Metric
	if c.Write(&m) != nil || m.Counter == nil {
		return 0
	}
	return m.Counter.GetValue()
}

// metricSnapshot reads the Prometheus collectors of the code under test
// (black-box observation point used by the oracles).
type metricSnapshot map[string]float64

func labelsKey(m *dto.Metric) string {
	// (Gather returns label pairs sorted by name)
	k := ""
	for _, l := range m.Label {
		k += "," + l.GetName() + "=" + l.GetValue()
	}
	return k
}

// gatherMetrics returns name{labels} -> value (counters, gauges) and
// name{labels}_count for histograms.
func gatherMetrics() metricSnapshot {
	out := metricSnapshot{}
	fams, err := prometheus.DefaultGatherer.Gather()
	if err != nil {
		return out
	}
	for _, f := range fams {
		for _, m := range f.Metric {
			key := f.GetName() + labelsKey(m)
			switch {
			case m.Counter != nil:
				out[key] = m.Counter.GetValue()
			case m.Gauge != nil:
				out[key] = m.Gauge.GetValue()
			case m.Histogram != nil:
				out[key+"_count"] = float64(m.Histogram.GetSampleCount())
			}
		}
	}
	return out
}

// indexDiscards returns the number of index discards reported through the
// hashing key-location map's collectors for a storage type.
func (s metricSnapshot) indexDiscards(storageType string) float64 {
	return s["buildbarn_blobstore_hashing_key_location_map_put_too_many_iterations_total,storage_type="+storageType] +
		s["buildbarn_blobstore_hashing_key_location_map_put_iterations,outcome=TooManyAttempts,storage_type="+storageType+"_count"] +
		s["buildbarn_blobstore_hashing_key_location_map_get_too_many_attempts_total,storage_type="+storageType]
}

func (s metricSnapshot) putDiscards(storageType string) float64 {
	return s["buildbarn_blobstore_hashing_key_location_map_put_too_many_iterations_total,storage_type="+storageType] +
		s["buildbarn_blobstore_hashing_key_location_map_put_iterations,outcome=TooManyAttempts,storage_type="+storageType+"_count"]
}

// indexDiscardCount: discards reported by the key-location index collectors,
// for stores built from parts (storage type "sim") and by
// NewBlobAccessFromConfiguration (storage type "cas").
func indexDiscardCount() float64 {
	m := gatherMetrics()
	return m.indexDiscards("sim") + m.indexDiscards("cas") + m.indexDiscards("ac")
}
