package harness

import (
	"context"
	"fmt"
	"sort"
	"strings"
	"time"

	remoteexecution "github.com/bazelbuild/remote-apis/build/bazel/remote/execution/v2"
	"github.com/buildbarn/bb-storage/pkg/blobstore"
	"github.com/buildbarn/bb-storage/pkg/blobstore/buffer"
	"github.com/buildbarn/bb-storage/pkg/blobstore/slicing"
	"github.com/buildbarn/bb-storage/pkg/digest"
	"vsim/sim"

	"google.golang.org/grpc/codes"
	"google.golang.org/grpc/status"
	rt "verifsimrt"
)

// modelStore is the stub backend of the composite harnesses: a map-based
// BlobAccess with a call log, a scheduling point at entry and exit of every
// call, and fault injection (whole-call failures and mid-stream failures).
// It is both a peer of the composite under test and the reference model: its
// contents are read directly by the oracles.
type modelStore struct {
	Name      string
	c         *sim.RunCtx
	KeyFormat digest.KeyFormat
	Objs      map[string][]byte
	Calls     []*modelCall
	// Fault returns an error to inject for (op, digests); nil = none.
	Fault func(op string, ds []digest.Digest) error
	// StreamFault returns the index of the Read at which a Get's stream
	// fails (-1 = never).
	StreamFault func(d digest.Digest) int
	// CommitFault returns an error with which a Put fails after it has
	// consumed the complete upload (nothing is stored); nil = none.
	CommitFault func(d digest.Digest) error
	ProtoAC     bool           // objects are ActionResult messages (AC backend)
	// TrackSources: keep the close-counting statistics of every stream handed out
	TrackSources bool
	Sources      []*sim.SrcStats
	InFlight    map[string]int // op -> calls currently inside
	MaxInFlight map[string]int
	// Puts currently inside per key, and the first key for which two overlapped
	putsInFlight map[string]int
	PutOverlap   string
	seq         func() int
}

type modelCall struct {
	Op       string
	Digests  []string
	Missing  map[string]bool // FindMissing: keys reported missing
	Start    int
	End      int
	StartT   time.Duration
	EndT     time.Duration
	Err      error
	Injected bool
}

func newModelStore(c *sim.RunCtx, name string, kf digest.KeyFormat) *modelStore {
	return &modelStore{Name: name, c: c, KeyFormat: kf, Objs: map[string][]byte{}, InFlight: map[string]int{}, MaxInFlight: map[string]int{},
		seq: func() int {
			if s := rt.Active(); s != nil {
				return s.Steps
			}
			return 0
		}}
}

func (m *modelStore) key(d digest.Digest) string { return d.GetKey(m.KeyFormat) }

func (m *modelStore) Has(d digest.Digest) bool { _, ok := m.Objs[m.key(d)]; return ok }

func (m *modelStore) enter(op string, ds []digest.Digest) (*modelCall, error) {
	rt.Yield(m.Name + "." + op)
	call := &modelCall{Op: op, Start: m.seq()}
	if s := rt.Active(); s != nil {
		call.StartT = s.Now()
	}
	for _, d := range ds {
		call.Digests = append(call.Digests, m.key(d))
	}
	sort.Strings(call.Digests)
	m.Calls = append(m.Calls, call)
	m.InFlight[op]++
	if m.InFlight[op] > m.MaxInFlight[op] {
		m.MaxInFlight[op] = m.InFlight[op]
	}
	if op == "Put" {
		if m.putsInFlight == nil {
			m.putsInFlight = map[string]int{}
		}
		for _, k := range call.Digests {
			m.putsInFlight[k]++
			if m.putsInFlight[k] > 1 && m.PutOverlap == "" {
				m.PutOverlap = k
			}
		}
	}
	if m.Fault != nil {
		if err := m.Fault(op, ds); err != nil {
			call.Err, call.Injected = err, true
			m.c.Count("fault_backend_call_"+status.Code(err).String(), 1)
			return call, err
		}
	}
	return call, nil
}

func (m *modelStore) leave(call *modelCall, err error) {
	if call.Err == nil {
		call.Err = err
	}
	rt.Yield(m.Name + "." + call.Op + ".return")
	call.End = m.seq()
	if s := rt.Active(); s != nil {
		call.EndT = s.Now()
	}
	m.InFlight[call.Op]--
	if call.Op == "Put" {
		for _, k := range call.Digests {
			m.putsInFlight[k]--
		}
	}
}

func (m *modelStore) Get(ctx context.Context, d digest.Digest) buffer.Buffer {
	call, err := m.enter("Get", []digest.Digest{d})
	if err == nil && ctx.Err() != nil {
		err = status.FromContextError(ctx.Err()).Err()
	}
	if err != nil {
		m.leave(call, err)
		return buffer.NewBufferFromError(err)
	}
	data, ok := m.Objs[m.key(d)]
	if !ok {
		err := status.Errorf(codes.NotFound, "%s: object not found", m.Name)
		m.leave(call, err)
		return buffer.NewBufferFromError(err)
	}
	if m.ProtoAC {
		m.leave(call, nil)
		return buffer.NewProtoBufferFromByteSlice(&remoteexecution.ActionResult{}, data, buffer.BackendProvided(func(bool) {}))
	}
	errAt := -1
	if m.StreamFault != nil {
		errAt = m.StreamFault(d)
		if errAt >= 0 {
			m.c.Count("fault_backend_stream_error", 1)
		}
	}
	cuts := []int{}
	if len(data) > 2 {
		cuts = []int{len(data) / 2}
	}
	src := sim.NewChunkSource(m.Name+".stream", &sim.SrcScript{Data: data, Cuts: cuts, ErrAt: errAt, Err: status.Errorf(codes.Unavailable, "%s: injected stream failure", m.Name)})
	if m.TrackSources {
		m.Sources = append(m.Sources, src.St)
	}
	m.leave(call, nil)
	return buffer.NewCASBufferFromChunkReader(d, src, buffer.BackendProvided(func(bool) {}))
}

func (m *modelStore) GetFromComposite(ctx context.Context, parentDigest, childDigest digest.Digest, slicer slicing.BlobSlicer) buffer.Buffer {
	b, _ := slicer.Slice(m.Get(ctx, parentDigest), childDigest)
	return b
}

func (m *modelStore) Put(ctx context.Context, d digest.Digest, b buffer.Buffer) error {
	call, err := m.enter("Put", []digest.Digest{d})
	if err == nil && ctx.Err() != nil {
		err = status.FromContextError(ctx.Err()).Err()
	}
	if err != nil {
		b.Discard()
		m.leave(call, err)
		return err
	}
	data, err := b.ToByteSlice(1 << 20)
	if err != nil {
		m.leave(call, err)
		return err
	}
	if m.CommitFault != nil {
		if err := m.CommitFault(d); err != nil {
			call.Err, call.Injected = err, true
			m.c.Count("fault_backend_put_commit_error", 1)
			m.leave(call, err)
			return err
		}
	}
	m.Objs[m.key(d)] = data
	m.leave(call, nil)
	return nil
}

func (m *modelStore) FindMissing(ctx context.Context, digests digest.Set) (digest.Set, error) {
	call, err := m.enter("FindMissing", digests.Items())
	if err == nil && ctx.Err() != nil {
		err = status.FromContextError(ctx.Err()).Err()
	}
	if err != nil {
		m.leave(call, err)
		return digest.EmptySet, err
	}
	sb := digest.NewSetBuilder(digests.Length())
	call.Missing = map[string]bool{}
	for _, d := range digests.Items() {
		if !m.Has(d) {
			sb.Add(d)
			call.Missing[m.key(d)] = true
		}
	}
	m.leave(call, nil)
	return sb.Build(), nil
}

func (m *modelStore) GetCapabilities(ctx context.Context, instanceName digest.InstanceName) (*remoteexecution.ServerCapabilities, error) {
	return &remoteexecution.ServerCapabilities{}, nil
}

var _ blobstore.BlobAccess = (*modelStore)(nil)

// callsOf returns the calls with the given op that mention key.
func (m *modelStore) callsOf(op, key string) []*modelCall {
	var out []*modelCall
	for _, cl := range m.Calls {
		if cl.Op != op {
			continue
		}
		for _, k := range cl.Digests {
			if k == key {
				out = append(out, cl)
				break
			}
		}
	}
	return out
}

func describeCalls(ms ...*modelStore) string {
	var parts []string
	for _, m := range ms {
		for _, cl := range m.Calls {
			parts = append(parts, fmt.Sprintf("%s.%s@%d", m.Name, cl.Op, cl.Start))
		}
	}
	return strings.Join(parts, " ")
}
