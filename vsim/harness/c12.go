package harness

import (
	"bytes"
	"context"
	"encoding/binary"
	"encoding/hex"
	"fmt"
	"io"
	"sort"
	"strings"

	remoteexecution "github.com/bazelbuild/remote-apis/build/bazel/remote/execution/v2"
	"github.com/buildbarn/bb-storage/pkg/blobstore"
	"github.com/buildbarn/bb-storage/pkg/blobstore/buffer"
	"github.com/buildbarn/bb-storage/pkg/blobstore/configuration"
	"github.com/buildbarn/bb-storage/pkg/blobstore/sharding"
	pb_blobstore "github.com/buildbarn/bb-storage/pkg/proto/configuration/blobstore"
	"github.com/buildbarn/bb-storage/pkg/digest"
	"vsim/sim"

	"google.golang.org/grpc/status"
	rt "verifsimrt"
)

// ---- C12: sharding — deterministic, order-independent routing with minimal
// disruption; FindMissing fan-out/merge; errors carry the shard key ----------
//
// The oracle is observational: "the shard of a hash under a shard map" is
// whatever shard the first backend call for that hash was addressed to; every
// later observation (other operation, other instance name, other digest with
// the same leading eight hash bytes, rebuilt or permuted composite) has to
// agree, and observations under two maps of which one is a subset of the other
// have to satisfy the minimal-disruption rule. No expectation is computed from
// a copy of the selection algorithm.

const (
	c12OpPut = iota
	c12OpGet
	c12OpGetComposite
	c12OpFind
)

var c12OpNames = []string{"Put", "Get", "GetFromComposite", "FindMissing"}

var c12Functions = []remoteexecution.DigestFunction_Value{
	remoteexecution.DigestFunction_SHA256,
	remoteexecution.DigestFunction_MD5,
	remoteexecution.DigestFunction_SHA1,
	remoteexecution.DigestFunction_SHA384,
	remoteexecution.DigestFunction_SHA512,
}

var c12HashLen = map[remoteexecution.DigestFunction_Value]int{
	remoteexecution.DigestFunction_SHA256: 32,
	remoteexecution.DigestFunction_MD5:    16,
	remoteexecution.DigestFunction_SHA1:   20,
	remoteexecution.DigestFunction_SHA384: 48,
	remoteexecution.DigestFunction_SHA512: 64,
}

var c12Instances = []string{"", "a", "a/b", "x"}

type c12Obj struct {
	Idx     int
	Fn      remoteexecution.DigestFunction_Value
	Hash    []byte
	H8      uint64
	Content []byte
	Real    bool   // Hash is the true hash of Content
	How     string // how H8 was chosen
}

func (o *c12Obj) String() string {
	return fmt.Sprintf("o%d{%v %s… size=%d %s}", o.Idx, o.Fn, hex.EncodeToString(o.Hash[:8]), len(o.Content), o.How)
}

type c12Ref struct {
	Obj  *c12Obj
	Inst string
}

type c12Op struct {
	ID     int
	Kind   int
	Obj    *c12Obj
	Inst   string
	Set    []c12Ref // FindMissing
	Stream bool     // Get: consume through a chunk reader instead of ToByteSlice
	// GetFromComposite
	ChildHash          []byte
	ChildOff, ChildLen int
	Faults             map[int]*c12Fault // by shard slot
	// Cancel > 0 (FindMissing, faults profile): the caller gives up after that
	// many scheduling steps
	Cancel int
	Calls              []*c12Call
	Epoch              *c12Epoch
}

func (o *c12Op) String() string {
	s := fmt.Sprintf("op%d %s", o.ID, c12OpNames[o.Kind])
	switch o.Kind {
	case c12OpFind:
		var p []string
		for i, r := range o.Set {
			if i == 24 {
				p = append(p, fmt.Sprintf("…(%d in all)", len(o.Set)))
				break
			}
			p = append(p, fmt.Sprintf("o%d@%q", r.Obj.Idx, r.Inst))
		}
		s += "{" + strings.Join(p, ",") + "}"
	case c12OpGetComposite:
		s += fmt.Sprintf("(o%d@%q child=%s… off=%d len=%d)", o.Obj.Idx, o.Inst, hex.EncodeToString(o.ChildHash[:8]), o.ChildOff, o.ChildLen)
	default:
		s += fmt.Sprintf("(o%d@%q)", o.Obj.Idx, o.Inst)
	}
	if o.Stream {
		s += " stream"
	}
	if len(o.Faults) > 0 {
		var slots []int
		for k := range o.Faults {
			slots = append(slots, k)
		}
		sort.Ints(slots)
		for _, k := range slots {
			f := o.Faults[k]
			s += fmt.Sprintf(" fault[slot%d]=%s/%v", k, c12FaultNames[f.Kind], f.Code)
		}
	}
	return s
}

type c12Epoch struct {
	Idx     int
	List    []c12Shard
	ListStr string
	Sig     string
	How     string
	Set     map[string]uint32
	BA      blobstore.BlobAccess
	Sel     sharding.ShardSelector
}

type c12RouteObs struct {
	Key   string
	Epoch int
	// what made the observation (formatted only when reported)
	Method string
	Ref    c12Ref
	Op     *c12Op
}

func (r c12RouteObs) Desc() string {
	if r.Op == nil {
		return r.Method
	}
	return fmt.Sprintf("%s of o%d@%q in %s", r.Method, r.Ref.Obj.Idx, r.Ref.Inst, r.Op)
}

type c12World struct {
	c      *sim.RunCtx
	keys   []string // the run's key table; slot = index
	slotOf map[string]int
	stubs  map[string]*c12Stub
	objs   []*c12Obj
	refs   map[digest.Digest]c12Ref
	// routes[namespace+sig][h8]: namespace "ba" = observed at the stub
	// seam behind the composite, "sel" = returned by the selector directly
	routes   map[string]map[uint64]c12RouteObs
	epochs   []*c12Epoch
	nextOp   int
	tieH8    map[uint64]bool
	faultsOn bool
	// configured: composites assembled by NewBlobAccessFromConfiguration
	// (the map iteration of new_blob_access.go decides the listing order)
	configured bool
	sched      *rt.Sched
	restores   []func()
}

func (w *c12World) dg(o *c12Obj, inst string) digest.Digest {
	d := digest.MustNewDigest(inst, o.Fn, hex.EncodeToString(o.Hash), int64(len(o.Content)))
	w.refs[d] = c12Ref{o, inst}
	return d
}

// observe records that hash h8 was routed to key under the map of epoch e and
// checks it against every earlier observation under the same map.
func (w *c12World) observe(ns string, e *c12Epoch, h8 uint64, key string, now c12RouteObs) {
	now.Key, now.Epoch = key, e.Idx
	tab := w.routes[ns+e.Sig]
	if tab == nil {
		tab = map[uint64]c12RouteObs{}
		w.routes[ns+e.Sig] = tab
	}
	prev, ok := tab[h8]
	if !ok {
		tab[h8] = now
		return
	}
	if prev.Epoch != e.Idx {
		pe := w.epochs[prev.Epoch]
		if pe.ListStr != e.ListStr {
			w.c.Count("probe_permutation_checked", 1)
			if w.tieH8[h8] {
				w.c.Count("probe_tie_hash_permuted", 1)
			}
		} else {
			w.c.Count("probe_rebuild_checked", 1)
		}
	} else if prev.Op != now.Op || prev.Method != now.Method {
		w.c.Count("probe_same_config_rechecked", 1)
	}
	if prev.Key == key || w.c.Failed() {
		return
	}
	if prev.Epoch == e.Idx {
		w.c.Fail("route-differs-within-config", "[%s] hash %016x… was routed to shard %q by %s and to shard %q by %s under the same composite, shards %s", ns, h8, prev.Key, prev.Desc(), key, now.Desc(), c12ListString(e.List))
		return
	}
	pe := w.epochs[prev.Epoch]
	desc := now.Desc()
	if pe.ListStr == e.ListStr {
		w.c.Fail("route-differs-after-rebuild", "[%s] hash %016x… was routed to shard %q (%s) and, by a composite rebuilt from the identical shard list %s, to shard %q (%s)", ns, h8, prev.Key, prev.Desc(), c12ListString(e.List), key, desc)
		return
	}
	w.c.Fail("route-order-dependent", "[%s] hash %016x… was routed to shard %q (%s) with shards listed as %s, and to shard %q (%s) with the same (key, weight) set listed as %s", ns, h8, prev.Key, prev.Desc(), c12ListString(pe.List), key, desc, c12ListString(e.List))
}

func (w *c12World) observeCall(op *c12Op, call *c12Call, d digest.Digest) {
	r, ok := w.refs[d]
	if !ok {
		if !w.c.Failed() {
			w.c.Fail("foreign-digest", "shard %q was called (%s) with digest %s, which the workload never issued; operation %s", call.Key, call.Method, d, op)
		}
		return
	}
	w.observe("ba", op.Epoch, r.Obj.H8, call.Key, c12RouteObs{Method: call.Method, Ref: r, Op: op})
	// the composite (in configured runs: assembled from the configuration
	// message, in a tape-drawn listing order) must route like a selector built
	// directly from the same (key, weight) pairs
	if e := op.Epoch; e.Sel != nil && !w.c.Failed() {
		if idx := e.Sel.GetShard(r.Obj.H8); idx >= 0 && idx < len(e.List) {
			w.c.Count("probe_composite_vs_selector", 1)
			if e.List[idx].Key != call.Key {
				w.c.Fail("composite-routes-unlike-selector", "hash %016x… was sent to shard %q (%s by %s) although a rendezvous selector over the same shards %s chooses %q (configured=%v)", r.Obj.H8, call.Key, call.Method, op, c12ListString(e.List), e.List[idx].Key, w.configured)
			}
		}
	}
}

func c12IsSubset(a, b map[string]uint32) bool {
	for k, wt := range a {
		if bw, ok := b[k]; !ok || bw != wt {
			return false
		}
	}
	return true
}

// compareEpochs applies the minimal-disruption rule between the map of the
// latest epoch and the maps of all earlier ones: with A ⊆ B, a hash that B
// does not route to a member of B\A must be routed by A to the same shard.
// (Single removal and single addition are the adjacent cases; the general
// form follows from them because every intermediate map is itself a shard
// map over which the property quantifies.)
func (w *c12World) compareEpochs(ns string) {
	cur := w.epochs[len(w.epochs)-1]
	done := map[string]bool{cur.Sig: true}
	for i := len(w.epochs) - 2; i >= 0 && !w.c.Failed(); i-- {
		old := w.epochs[i]
		if done[old.Sig] {
			continue
		}
		done[old.Sig] = true
		var small, big *c12Epoch
		switch {
		case c12IsSubset(old.Set, cur.Set):
			small, big = old, cur
		case c12IsSubset(cur.Set, old.Set):
			small, big = cur, old
		default:
			continue
		}
		adjacent := i == len(w.epochs)-2 && len(big.Set)-len(small.Set) == 1
		ts, tb := w.routes[ns+small.Sig], w.routes[ns+big.Sig]
		var hs []uint64
		for h := range ts {
			if _, ok := tb[h]; ok {
				hs = append(hs, h)
			}
		}
		sort.Slice(hs, func(a, b int) bool { return hs[a] < hs[b] })
		for _, h := range hs {
			rs, rb := ts[h], tb[h]
			_, inSmall := small.Set[rb.Key]
			kind := "subset"
			if adjacent {
				if big == cur {
					kind = "addition"
				} else {
					kind = "removal"
				}
			}
			w.c.Count("probe_"+kind+"_checked", 1)
			if !inSmall {
				w.c.Count("probe_"+kind+"_moved", 1)
				continue
			}
			if rs.Key == rb.Key {
				continue
			}
			switch kind {
			case "addition":
				w.c.Fail("addition-reroutes-to-old-shard", "[%s] hash %016x…: shards %s routed it to %q (%s); after adding a shard, shards %s route it to %q (%s), which is neither the old shard nor the new one", ns, h, c12ListString(small.List), rs.Key, rs.Desc(), c12ListString(big.List), rb.Key, rb.Desc())
			case "removal":
				w.c.Fail("removal-reroutes-unrelated", "[%s] hash %016x…: shards %s routed it to %q (%s), which was not removed; after the removal, shards %s route it to %q (%s)", ns, h, c12ListString(big.List), rb.Key, rb.Desc(), c12ListString(small.List), rs.Key, rs.Desc())
			default:
				w.c.Fail("membership-change-reroutes", "[%s] hash %016x…: shards %s route it to %q (%s), a shard that is also in %s, but the latter route it to %q (%s)", ns, h, c12ListString(big.List), rb.Key, rb.Desc(), c12ListString(small.List), rs.Key, rs.Desc())
			}
			return
		}
	}
}

// newEpoch builds selector and composite for list, the way
// new_blob_access.go does (minus the map iteration).
func (w *c12World) newEpoch(list []c12Shard, how string) *c12Epoch {
	e := &c12Epoch{Idx: len(w.epochs), List: append([]c12Shard{}, list...), ListStr: c12ListString(list), Sig: c12Sig(list), How: how, Set: map[string]uint32{}}
	backends := make([]sharding.ShardBackend, 0, len(list))
	shards := make([]sharding.Shard, 0, len(list))
	for _, s := range list {
		e.Set[s.Key] = s.Weight
		st := w.stubs[s.Key]
		if st == nil {
			st = &c12Stub{key: s.Key, slot: w.slotOf[s.Key], objs: map[digest.Digest][]byte{}}
			w.stubs[s.Key] = st
		}
		backends = append(backends, sharding.ShardBackend{Backend: &c12Backend{w: w, stub: st}, Key: s.Key})
		shards = append(shards, sharding.Shard{Key: s.Key, Weight: s.Weight})
	}
	sel, err := sharding.NewRendezvousShardSelector(shards)
	if err != nil {
		panic(sim.HarnessError{Msg: fmt.Sprintf("c12: selector construction failed for %s: %v", c12ListString(list), err)})
	}
	e.Sel = sel
	if w.configured && w.sched != nil {
		shardsCfg := map[string]*pb_blobstore.ShardingBlobAccessConfiguration_Shard{}
		leaves := map[string]configuration.BlobAccessInfo{}
		for i, s := range list {
			name := fmt.Sprintf("%d", i)
			shardsCfg[s.Key] = &pb_blobstore.ShardingBlobAccessConfiguration_Shard{Backend: leafConfig(name), Weight: s.Weight}
			leaves[name] = configuration.BlobAccessInfo{BlobAccess: backends[i].Backend, DigestKeyFormat: digest.KeyWithInstance}
		}
		ba, _, restore := buildComposite(w.c, w.sched, sim.NewClock(w.sched), &pb_blobstore.BlobAccessConfiguration{Backend: &pb_blobstore.BlobAccessConfiguration_Sharding{Sharding: &pb_blobstore.ShardingBlobAccessConfiguration{Shards: shardsCfg}}}, leaves)
		w.restores = append(w.restores, restore)
		e.BA = ba
	} else {
		e.BA = sharding.NewShardingBlobAccess(backends, sel)
	}
	w.epochs = append(w.epochs, e)
	w.c.Note("epoch %d (%s): shards %s", e.Idx, how, c12ListString(list))
	return e
}

// sweepSelector asks the selector directly about hashes (pure function, no
// backend involved).
func (w *c12World) sweepSelector(e *c12Epoch, hs []uint64) {
	for _, h := range hs {
		idx := e.Sel.GetShard(h)
		if idx < 0 || idx >= len(e.List) {
			if !w.c.Failed() {
				w.c.Fail("selector-index-out-of-range", "GetShard(%#x) = %d with %d shards %s", h, idx, len(e.List), c12ListString(e.List))
			}
			return
		}
		w.observe("sel", e, h, e.List[idx].Key, c12RouteObs{Method: "GetShard"})
		if w.c.Failed() {
			return
		}
	}
}

func (w *c12World) newOp(e *c12Epoch, kind int) *c12Op {
	w.nextOp++
	return &c12Op{ID: w.nextOp, Kind: kind, Epoch: e}
}

// matchError attributes a returned error to the backend call it stems from
// and checks that it still has that call's code and text and names the key of
// the shard that produced it.
func (w *c12World) matchError(op *c12Op, got error) {
	c := w.c
	st := status.Convert(got)
	var from *c12Call
	anyErr := false
	for _, call := range op.Calls {
		if call.Err == nil {
			continue
		}
		anyErr = true
		// (the longest tag wins: "…-slot1" is a prefix of "…-slot13")
		if call.ErrTag != "" && strings.Contains(st.Message(), call.ErrTag) && (from == nil || len(call.ErrTag) > len(from.ErrTag)) {
			from = call
		}
	}
	if !anyErr {
		c.Fail("spurious-error", "%s failed with %v although no shard reported an error (calls: %s)", op, got, c12CallsString(op))
		return
	}
	if from == nil {
		c.Fail("error-not-from-a-shard", "%s failed with %v, which is none of the errors the shards returned (calls: %s)", op, got, c12CallsString(op))
		return
	}
	orig := status.Convert(from.Err)
	if st.Code() != orig.Code() {
		c.Fail("error-code-changed", "%s: shard %q returned %v, the composite returned %v", op, from.Key, from.Err, got)
		return
	}
	rest := strings.Replace(st.Message(), orig.Message(), "", 1)
	if !strings.Contains(rest, from.Key) {
		c.Fail("error-missing-shard-key", "%s: shard %q returned %v; the composite's error %q does not carry that shard's key", op, from.Key, from.Err, st.Message())
		return
	}
	c.Count("probe_error_key_checked", 1)
	if from.Key != "" && !strings.Contains("Shard : ", from.Key) {
		c.Count("probe_error_key_checked_distinctive", 1)
	}
	if from.Cancelled {
		c.Count("note_cancelled_sibling_error_returned", 1)
	}
}

func c12CallsString(op *c12Op) string {
	var p []string
	for _, call := range op.Calls {
		s := fmt.Sprintf("%s@%q", call.Method, call.Key)
		if call.Err != nil {
			s += fmt.Sprintf("→%v", call.Err)
		}
		p = append(p, s)
	}
	return "[" + strings.Join(p, " ") + "]"
}

func (w *c12World) exec(op *c12Op) {
	c := w.c
	ctx := context.WithValue(context.Background(), c12OpCtxKey{}, op)
	e := op.Epoch
	c.Note("%s", op)
	switch op.Kind {
	case c12OpPut:
		d := w.dg(op.Obj, op.Inst)
		var b buffer.Buffer
		if op.Obj.Real {
			b = buffer.NewCASBufferFromByteSlice(d, op.Obj.Content, buffer.UserProvided)
		} else {
			b = buffer.NewValidatedBufferFromByteSlice(append([]byte{}, op.Obj.Content...))
		}
		err := e.BA.Put(ctx, d, b)
		if c.Failed() {
			return
		}
		for _, call := range op.Calls {
			if call.Method != "Put" || len(call.Digests) != 1 || call.Digests[0] != d {
				c.Fail("wrong-backend-call", "%s led to backend call %s on shard %q for %v", op, call.Method, call.Key, call.Digests)
				return
			}
		}
		if err != nil {
			w.matchError(op, err)
			return
		}
		ok := false
		for _, call := range op.Calls {
			if call.Err != nil {
				c.Fail("error-swallowed", "%s succeeded although shard %q returned %v", op, call.Key, call.Err)
				return
			}
			if call.Stored {
				if !bytes.Equal(call.Data, op.Obj.Content) {
					c.Fail("put-wrong-bytes", "%s: shard %q received %x, uploaded %x", op, call.Key, call.Data, op.Obj.Content)
					return
				}
				ok = true
			}
		}
		if !ok {
			c.Fail("ack-without-backend", "%s succeeded without any shard having stored the object (calls: %s)", op, c12CallsString(op))
			return
		}
		c.Count("puts_ok", 1)
	case c12OpGet, c12OpGetComposite:
		var b buffer.Buffer
		var want digest.Digest
		var child digest.Digest
		if op.Kind == c12OpGet {
			want = w.dg(op.Obj, op.Inst)
			b = e.BA.Get(ctx, want)
		} else {
			want = w.dg(op.Obj, op.Inst)
			child = digest.MustNewDigest(op.Inst, remoteexecution.DigestFunction_SHA256, hex.EncodeToString(op.ChildHash), int64(op.ChildLen))
			b = e.BA.GetFromComposite(ctx, want, child, c12Slicer{})
		}
		var data []byte
		var err error
		if op.Stream && op.ID%2 == 1 {
			// an io.Reader consumer with a buffer that straddles the chunks
			r := b.ToReader()
			p := make([]byte, 4)
			for {
				n, rerr := r.Read(p)
				data = append(data, p[:n]...)
				if rerr == io.EOF {
					break
				}
				if rerr != nil {
					err = rerr
					break
				}
			}
			r.Close()
			c.Count("probe_get_via_reader", 1)
		} else if op.Stream {
			r := b.ToChunkReader(0, 3)
			for {
				chunk, rerr := r.Read()
				if rerr == io.EOF {
					break
				}
				if rerr != nil {
					err = rerr
					break
				}
				data = append(data, chunk...)
			}
			r.Close()
		} else {
			data, err = b.ToByteSlice(1 << 20)
		}
		if c.Failed() {
			return
		}
		for _, call := range op.Calls {
			if call.Method != c12OpNames[op.Kind] || len(call.Digests) != 1 || call.Digests[0] != want || call.Child != child {
				c.Fail("wrong-backend-call", "%s led to backend call %s on shard %q for %v child %v", op, call.Method, call.Key, call.Digests, call.Child)
				return
			}
		}
		if err != nil {
			w.matchError(op, err)
			return
		}
		ok := false
		for _, call := range op.Calls {
			if call.Served && bytes.Equal(call.Data, data) {
				ok = true
			}
		}
		if !ok {
			for _, call := range op.Calls {
				if call.Err != nil {
					c.Fail("error-swallowed", "%s returned %x although shard %q reported %v", op, data, call.Key, call.Err)
					return
				}
			}
			c.Fail("get-wrong-bytes", "%s returned %x, which no shard served (calls: %s)", op, data, c12CallsString(op))
			return
		}
		c.Count("reads_ok", 1)
	case c12OpFind:
		sb := digest.NewSetBuilder(len(op.Set))
		asked := map[digest.Digest]bool{}
		for _, r := range op.Set {
			d := w.dg(r.Obj, r.Inst)
			sb.Add(d)
			asked[d] = true
		}
		if op.Cancel > 0 && w.sched != nil {
			// the caller's own context ends while shards may still be busy: a
			// shard's error caused by that is an error of the call all the
			// same, never a successful partial answer
			var cancel context.CancelFunc
			ctx, cancel = context.WithCancel(ctx)
			n := op.Cancel
			w.sched.Go("canceller", func() {
				for i := 0; i < n; i++ {
					rt.Yield("cancel-delay")
				}
				cancel()
			})
			c.Count("fault_caller_cancelled", 1)
		}
		missing, err := e.BA.FindMissing(ctx, sb.Build())
		if c.Failed() {
			return
		}
		// each shard is asked only about digests of the request, and no
		// digest is put to two shards (the latter is also a routing
		// observation made at the seam)
		where := map[digest.Digest]string{}
		shardsAsked := map[string]bool{}
		for _, call := range op.Calls {
			if call.Method != "FindMissing" {
				c.Fail("wrong-backend-call", "%s led to backend call %s on shard %q", op, call.Method, call.Key)
				return
			}
			shardsAsked[call.Key] = true
			for _, d := range call.Digests {
				if !asked[d] {
					c.Fail("findmissing-foreign-digest", "%s: shard %q was asked about %s, which is not part of the request", op, call.Key, d)
					return
				}
				if k, dup := where[d]; dup && k != call.Key {
					c.Fail("findmissing-digest-on-two-shards", "%s: %s was put to shard %q and to shard %q", op, d, k, call.Key)
					return
				}
				where[d] = call.Key
			}
		}
		if len(shardsAsked) >= 2 {
			c.Count("probe_findmissing_fanout", 1)
		}
		if err != nil {
			w.matchError(op, err)
			return
		}
		union := map[digest.Digest]bool{}
		for _, call := range op.Calls {
			if call.Err != nil {
				c.Fail("error-swallowed", "%s succeeded although shard %q returned %v", op, call.Key, call.Err)
				return
			}
			for _, d := range call.Missing {
				union[d] = true
			}
		}
		for d := range asked {
			if _, ok := where[d]; !ok {
				c.Fail("findmissing-digest-dropped", "%s: no shard was asked about %s, yet the call succeeded", op, d)
				return
			}
		}
		got := map[digest.Digest]bool{}
		for _, d := range missing.Items() {
			if got[d] {
				c.Fail("findmissing-wrong-result", "%s: result lists %s twice", op, d)
				return
			}
			got[d] = true
			if !union[d] {
				c.Fail("findmissing-wrong-result", "%s: result reports %s missing, which no shard reported (asked on %q)", op, d, where[d])
				return
			}
		}
		for _, call := range op.Calls {
			for _, d := range call.Missing {
				if !got[d] {
					c.Fail("findmissing-wrong-result", "%s: shard %q reported %s missing, the result does not", op, call.Key, d)
					return
				}
			}
		}
		if len(got) > 0 && len(got) < len(asked) {
			c.Count("probe_findmissing_partial_result", 1)
		}
		c.Count("finds_ok", 1)
	}
}

// ---- case generation --------------------------------------------------------

type c12Opts struct {
	Faults bool
	Ties   bool
}

func c12Pattern(seed, n int) []byte {
	b := make([]byte, n)
	for i := range b {
		b[i] = byte(seed + i*37 + i*i)
	}
	return b
}

func c12MakeObj(idx int, fn remoteexecution.DigestFunction_Value, h8 uint64, tailSeed int, content []byte, how string) *c12Obj {
	h := make([]byte, c12HashLen[fn])
	binary.BigEndian.PutUint64(h[:8], h8)
	copy(h[8:], c12Pattern(tailSeed, len(h)-8))
	return &c12Obj{Idx: idx, Fn: fn, Hash: h, H8: h8, Content: content, How: how}
}

func (w *c12World) drawObjects(t *sim.Tape, keys []string, tieHashes []uint64) {
	nFam := 2 + t.Choose(7)
	for f := 0; f < nFam; f++ {
		var h8 uint64
		var how string
		if len(tieHashes) > 0 && (f < 2 || t.Chance(1, 2)) {
			h8 = tieHashes[t.Choose(len(tieHashes))]
			how = "tie"
			w.tieH8[h8] = true
		} else if t.Chance(1, 6) {
			// a genuine object: hash of its content
			fn := c12Functions[t.Choose(len(c12Functions))]
			content := c12Pattern(t.Choose(256), []int{0, 1, 4, 9, 17}[t.Choose(5)])
			if w.configured && len(content) == 0 {
				content = c12Pattern(7, 3) // (the configured top-level decorator answers for the empty blob itself)
			}
			hx, _ := hex.DecodeString(RefHash(fn, content))
			o := &c12Obj{Idx: len(w.objs), Fn: fn, Hash: hx, H8: binary.BigEndian.Uint64(hx[:8]), Content: content, Real: true, How: "real"}
			w.objs = append(w.objs, o)
			continue
		} else {
			h8, how = c12DrawH8(t, keys)
		}
		// family members share the leading eight bytes and differ in the
		// rest of the hash, the digest function and the size
		members := 1 + t.Pick(3, 3, 2)
		for m := 0; m < members; m++ {
			fn := c12Functions[t.Choose(len(c12Functions))]
			content := c12Pattern(t.Choose(256), []int{1, 0, 2, 5, 9, 17}[t.Choose(6)])
			if w.configured && len(content) == 0 {
				content = c12Pattern(7, 3)
			}
			w.objs = append(w.objs, c12MakeObj(len(w.objs), fn, h8, t.Choose(256), content, how))
		}
	}
}

func (w *c12World) drawFaults(t *sim.Tape, e *c12Epoch, op *c12Op) {
	if !w.faultsOn || !t.Chance(2, 3) {
		return
	}
	op.Faults = map[int]*c12Fault{}
	all := t.Chance(1, 4)
	for _, s := range e.List {
		if !all && !t.Chance(1, 3) {
			continue
		}
		f := &c12Fault{Kind: c12FaultCall, Code: c12FaultCodes[t.Choose(len(c12FaultCodes))]}
		switch op.Kind {
		case c12OpGet, c12OpGetComposite:
			if t.Chance(1, 2) {
				f.Kind = c12FaultStream
				f.ErrAt = t.Choose(4)
			}
		case c12OpPut:
			if t.Chance(1, 3) {
				f.Kind = c12FaultPutAfter
			}
		}
		op.Faults[w.slotOf[s.Key]] = f
	}
}

func (w *c12World) drawOp(t *sim.Tape, e *c12Epoch) *c12Op {
	kind := t.Pick(3, 3, 1, 4)
	op := w.newOp(e, kind)
	op.Obj = w.objs[t.Choose(len(w.objs))]
	op.Inst = c12Instances[t.Choose(len(c12Instances))]
	switch kind {
	case c12OpGet:
		op.Stream = t.Chance(1, 3)
	case c12OpGetComposite:
		// the child digest deliberately begins like ANOTHER object, so that
		// routing by the child instead of the parent is visible
		other := w.objs[t.Choose(len(w.objs))]
		op.ChildHash = make([]byte, 32)
		binary.BigEndian.PutUint64(op.ChildHash[:8], other.H8)
		copy(op.ChildHash[8:], c12Pattern(t.Choose(256), 24))
		n := len(op.Obj.Content)
		op.ChildOff = t.Choose(n + 1)
		op.ChildLen = t.Choose(n - op.ChildOff + 1)
		if w.configured && op.ChildLen == 0 {
			// (an empty child is answered by the configured top-level decorator)
			op.ChildOff, op.ChildLen = 0, 1
		}
		op.Stream = t.Chance(1, 3)
	case c12OpFind:
		n := 1 + t.Choose(2*len(w.objs))
		for i := 0; i < n; i++ {
			op.Set = append(op.Set, c12Ref{w.objs[t.Choose(len(w.objs))], c12Instances[t.Pick(4, 2, 1, 1)]})
		}
		if w.faultsOn && t.Chance(1, 4) {
			op.Cancel = 1 + t.Choose(12)
		}
	}
	w.drawFaults(t, e, op)
	return op
}

func c12Permute(t *sim.Tape, l []c12Shard) []c12Shard {
	out := append([]c12Shard{}, l...)
	switch t.Choose(3) {
	case 0: // reverse
		for i, j := 0, len(out)-1; i < j; i, j = i+1, j-1 {
			out[i], out[j] = out[j], out[i]
		}
	case 1: // rotate
		if len(out) > 1 {
			k := 1 + t.Choose(len(out)-1)
			out = append(out[k:], out[:k]...)
		}
	default: // shuffle
		for i := len(out) - 1; i > 0; i-- {
			j := t.Choose(i + 1)
			out[i], out[j] = out[j], out[i]
		}
	}
	return out
}

// runEpoch: sweep (one fault-free FindMissing over every object, so that the
// route of every hash under this map is known; plus direct selector queries),
// then the drawn operations on one or two concurrent clients, then the
// comparison with all earlier maps.
func (w *c12World) runEpoch(s *rt.Sched, t *sim.Tape, e *c12Epoch, extra []uint64) {
	c := w.c
	sweep := w.newOp(e, c12OpFind)
	for i, o := range w.objs {
		sweep.Set = append(sweep.Set, c12Ref{o, c12Instances[(i+e.Idx)%len(c12Instances)]})
	}
	w.exec(sweep)
	if c.Failed() {
		return
	}
	var hs []uint64
	for _, o := range w.objs {
		hs = append(hs, o.H8)
	}
	w.sweepSelector(e, append(hs, extra...))
	if c.Failed() {
		return
	}
	nClients := 1 + t.Pick(3, 1)
	clients := make([][]*c12Op, nClients)
	nOps := 1 + t.Choose(8)
	for i := 0; i < nOps; i++ {
		k := t.Choose(nClients)
		clients[k] = append(clients[k], w.drawOp(t, e))
	}
	done := 0
	for k := range clients {
		ops := clients[k]
		s.Go(fmt.Sprintf("client%d", k), func() {
			defer func() { done++ }()
			for _, op := range ops {
				if c.Failed() {
					return
				}
				w.exec(op)
			}
		})
	}
	s.WaitUntil("clients done", func() bool { return done == nClients })
	if c.Failed() {
		return
	}
	w.compareEpochs("ba")
	if !c.Failed() {
		w.compareEpochs("sel")
	}
}

func c12Run(o c12Opts) func(c *sim.RunCtx) {
	return func(c *sim.RunCtx) {
		t := c.T.Plan
		w := &c12World{c: c, slotOf: map[string]int{}, stubs: map[string]*c12Stub{}, refs: map[digest.Digest]c12Ref{},
			routes: map[string]map[uint64]c12RouteObs{}, tieH8: map[uint64]bool{}, faultsOn: o.Faults}
		w.configured = t.Chance(1, 3)
		// key table of the run: a tape-chosen selection of the pool
		var list []c12Shard
		var tieHashes []uint64
		if o.Ties {
			ci := t.Choose(len(c12TieConfigs))
			list = c12Permute(t, c12TieConfigs[ci])
			tieHashes = c12Ties()[ci]
			if len(tieHashes) == 0 {
				c.Count("note_no_tie_hashes_found", 1)
			}
			for _, s := range c12TieConfigs[ci] {
				w.slotOf[s.Key] = len(w.keys)
				w.keys = append(w.keys, s.Key)
			}
		}
		for _, k := range c12KeyPool {
			if _, ok := w.slotOf[k]; !ok {
				w.slotOf[k] = len(w.keys)
				w.keys = append(w.keys, k)
			}
		}
		if !o.Ties {
			n := 1 + t.Pick(1, 3, 3, 2, 2, 1, 1, 1)
			avail := append([]string{}, c12KeyPool...)
			for i := 0; i < n; i++ {
				j := t.Choose(len(avail))
				list = append(list, c12Shard{avail[j], c12WeightPool[t.Choose(len(c12WeightPool))]})
				avail = append(avail[:j], avail[j+1:]...)
			}
		}
		// hashes are aimed at the shards of the initial map and a few others
		var aim []string
		for _, sh := range list {
			aim = append(aim, sh.Key)
		}
		aim = append(aim, w.keys[:3]...)
		w.drawObjects(t, aim, tieHashes)
		// additional hashes for the direct selector queries
		var extra []uint64
		for i := 0; i < 16; i++ {
			h, _ := c12DrawH8(t, aim)
			extra = append(extra, h)
		}
		extra = append(extra, tieHashes...)
		for _, h := range tieHashes {
			w.tieH8[h] = true
		}
		// pre-seed the stubs: any object may sit on any shard, also on
		// shards it is not routed to (one draw per object: a bit mask over
		// the key table; one instance name may be left out)
		seedMask := make([]int, len(w.objs))
		seedSkip := make([]int, len(w.objs))
		for i := range w.objs {
			seedMask[i] = t.Choose(1 << uint(len(w.keys)))
			seedSkip[i] = t.Choose(len(c12Instances) + 1)
		}
		var od []string
		for _, ob := range w.objs {
			od = append(od, ob.String())
		}
		c.Note("objects %v", od)
		c.Sample["shards"] = c12ListString(list)
		c.Sample["objects"] = len(w.objs)
		nTrans := t.Pick(1, 3, 3, 2, 1)
		var hist []string
		c.Sim(sim.SimOpts{MaxSteps: 200000, DeadlockClass: "deadlock"}, func(s *rt.Sched) {
			w.sched = s
			defer func() {
				for _, r := range w.restores {
					r()
				}
				w.restores, w.sched = nil, nil
			}()
			for i, mask := range seedMask {
				for sl, k := range w.keys {
					if mask&(1<<uint(sl)) == 0 {
						continue
					}
					st := w.stubs[k]
					if st == nil {
						st = &c12Stub{key: k, slot: sl, objs: map[digest.Digest][]byte{}}
						w.stubs[k] = st
					}
					for ii, inst := range c12Instances {
						if ii+1 != seedSkip[i] {
							st.objs[w.dg(w.objs[i], inst)] = w.objs[i].Content
						}
					}
				}
			}
			e := w.newEpoch(list, "initial")
			w.runEpoch(s, t, e, extra)
			for tr := 0; tr < nTrans && !c.Failed(); tr++ {
				var how string
				kind := t.Pick(4, 3, 3, 1)
				if o.Ties {
					kind = t.Pick(6, 1, 1, 1)
				}
				if kind == 1 && len(list) <= 1 {
					kind = 2
				}
				if kind == 2 && len(list) >= 8 {
					kind = 1
				}
				switch kind {
				case 0:
					list = c12Permute(t, list)
					how = "permute"
				case 1:
					j := t.Choose(len(list))
					how = fmt.Sprintf("remove %q", list[j].Key)
					list = append(append([]c12Shard{}, list[:j]...), list[j+1:]...)
				case 2:
					var avail []string
					in := map[string]bool{}
					for _, sh := range list {
						in[sh.Key] = true
					}
					for _, k := range w.keys {
						if !in[k] {
							avail = append(avail, k)
						}
					}
					ns := c12Shard{avail[t.Choose(len(avail))], c12WeightPool[t.Choose(len(c12WeightPool))]}
					pos := t.Choose(len(list) + 1)
					nl := append([]c12Shard{}, list[:pos]...)
					nl = append(nl, ns)
					list = append(nl, list[pos:]...)
					how = fmt.Sprintf("add %q=%d at %d", ns.Key, ns.Weight, pos)
				default:
					how = "rebuild"
				}
				hist = append(hist, how)
				e := w.newEpoch(list, how)
				w.runEpoch(s, t, e, extra)
			}
		})
		c.Sample["history"] = hist
		st := c.Stats
		faults := 0
		for k, v := range st {
			if strings.HasPrefix(k, "fault_") {
				faults += v
			}
		}
		if st["probe_permutation_checked"]+st["probe_removal_checked"]+st["probe_addition_checked"] > 0 || faults > 0 {
			c.Nontrivial = true
		}
	}
}

// ---- exhaustive small-case prologue ---------------------------------------
//
// All shard maps over the keys {a,b,c,d} with weights from {1, 3, 2^32-1}
// (255 maps), every listing order of each (2712 selectors), a fixed list of
// hashes (edges, table boundaries aimed at each key, exact ties): order
// independence for every permutation, and the minimal-disruption rule for
// every single removal/addition — at the selector, and for a subset through
// the composite with Get, Put and FindMissing.

func c12ExhaustiveHashes() ([]uint64, map[uint64]bool) {
	keys := []string{"a", "b", "c", "d"}
	hs := []uint64{0, 1, 2, 3, 1<<63 - 1, 1 << 63, 1<<63 + 1, ^uint64(0) - 1, ^uint64(0), 0x0123456789abcdef, 0xfedcba9876543210}
	targets := []uint64{0, 1, 2, ^uint64(0), ^uint64(0) - 1, 1 << 63, 1<<63 - 1,
		1<<63 | 1<<57, 1<<63 | 1<<57 - 1, 1<<63 | 63<<57, 1<<63 | 63<<57 - 1, 1<<63 | 32<<57, 1 << 6, 1<<6 | 1, 1<<7 - 1, 1 << 5, 1<<32 - 1, 1 << 32}
	for _, k := range keys {
		for _, x := range targets {
			hs = append(hs, c12KeyHash(k)^c12Unmix(x))
		}
	}
	ties := map[uint64]bool{}
	for _, l := range c12Ties() {
		for _, h := range l {
			hs = append(hs, h)
			ties[h] = true
		}
	}
	// dedupe, keep order
	seen := map[uint64]bool{}
	var out []uint64
	for _, h := range hs {
		if !seen[h] {
			seen[h] = true
			out = append(out, h)
		}
	}
	return out, ties
}

func c12Permutations(n int) [][]int {
	var out [][]int
	var rec func(cur []int, used int)
	rec = func(cur []int, used int) {
		if len(cur) == n {
			out = append(out, append([]int{}, cur...))
			return
		}
		for i := 0; i < n; i++ {
			if used&(1<<i) == 0 {
				rec(append(cur, i), used|1<<i)
			}
		}
	}
	rec(nil, 0)
	return out
}

func c12Exhaustive(c *sim.RunCtx) {
	keys := []string{"a", "b", "c", "d"}
	weights := []uint32{1, 3, 0xffffffff}
	hashes, ties := c12ExhaustiveHashes()
	// enumerate maps: per key 0 = absent, 1..3 = weight index+1
	var maps [][]c12Shard
	for code := 1; code < 256; code++ {
		var l []c12Shard
		x := code
		for _, k := range keys {
			d := x % 4
			x /= 4
			if d > 0 {
				l = append(l, c12Shard{k, weights[d-1]})
			}
		}
		maps = append(maps, l)
	}
	w := &c12World{c: c, slotOf: map[string]int{}, stubs: map[string]*c12Stub{}, refs: map[digest.Digest]c12Ref{},
		routes: map[string]map[uint64]c12RouteObs{}, tieH8: ties}
	for i, k := range keys {
		w.slotOf[k] = i
		w.keys = append(w.keys, k)
	}
	for i, h := range hashes {
		fn := c12Functions[i%len(c12Functions)]
		w.objs = append(w.objs, c12MakeObj(i, fn, h, i, c12Pattern(i, i%4), "listed"))
	}
	selectors := 0
	// 1. selector level: every permutation of every map
	c.Sim(sim.SimOpts{MaxSteps: 1000, DeadlockClass: "deadlock"}, func(s *rt.Sched) {
		for _, m := range maps {
			for _, perm := range c12Permutations(len(m)) {
				l := make([]c12Shard, len(m))
				for i, p := range perm {
					l[i] = m[p]
				}
				e := &c12Epoch{Idx: len(w.epochs), List: l, ListStr: c12ListString(l), Sig: c12Sig(l), How: "enumerated", Set: map[string]uint32{}}
				shards := make([]sharding.Shard, 0, len(l))
				for _, sh := range l {
					e.Set[sh.Key] = sh.Weight
					shards = append(shards, sharding.Shard{Key: sh.Key, Weight: sh.Weight})
				}
				sel, err := sharding.NewRendezvousShardSelector(shards)
				if err != nil {
					panic(sim.HarnessError{Msg: "c12: " + err.Error()})
				}
				e.Sel = sel
				w.epochs = append(w.epochs, e)
				selectors++
				w.sweepSelector(e, hashes)
				if c.Failed() {
					return
				}
			}
		}
	})
	if c.Failed() {
		return
	}
	c.Stats["exhaustive_selectors"] = selectors
	c.Stats["exhaustive_maps"] = len(maps)
	c.Stats["exhaustive_hashes"] = len(hashes)
	for i, l := range c12Ties() {
		c.Stats[fmt.Sprintf("exhaustive_tie_hashes_config%d", i)] = len(l)
	}
	// 2. every single addition/removal, both namespaces are checked by the
	// same function after part 3; here the selector tables
	bySig := map[string]*c12Epoch{}
	for _, e := range w.epochs {
		if bySig[e.Sig] == nil {
			bySig[e.Sig] = e
		}
	}
	pairs := 0
	checkPairs := func(ns string) {
		for _, m := range maps {
			small := bySig[c12Sig(m)]
			ts := w.routes[ns+small.Sig]
			if ts == nil {
				continue
			}
			for _, k := range keys {
				if _, in := small.Set[k]; in {
					continue
				}
				for _, wt := range weights {
					bigList := append(append([]c12Shard{}, m...), c12Shard{k, wt})
					big := bySig[c12Sig(bigList)]
					tb := w.routes[ns+big.Sig]
					if tb == nil {
						continue
					}
					pairs++
					for _, h := range hashes {
						rs, ok1 := ts[h]
						rb, ok2 := tb[h]
						if !ok1 || !ok2 {
							continue
						}
						c.Count("probe_addition_checked", 1)
						c.Count("probe_removal_checked", 1)
						if rb.Key == k {
							c.Count("probe_addition_moved", 1)
							c.Count("probe_removal_moved", 1)
							continue
						}
						if rb.Key != rs.Key {
							c.Fail("membership-change-reroutes", "[%s] hash %016x…: shards %s route it to %q, shards %s (one shard more: %q=%d) route it to %q — removing %q re-routes an object that was not on it / adding it re-routes an object to an old shard", ns, h, c12ListString(small.List), rs.Key, c12ListString(big.List), k, wt, rb.Key, k)
							return
						}
					}
				}
			}
		}
	}
	checkPairs("sel")
	if c.Failed() {
		return
	}
	// 3. through the composite: canonical and reversed listing of every map
	for _, m := range maps {
		if c.Failed() {
			return
		}
		c.Sim(sim.SimOpts{MaxSteps: 200000, DeadlockClass: "deadlock"}, func(s *rt.Sched) {
			rev := append([]c12Shard{}, m...)
			for i, j := 0, len(rev)-1; i < j; i, j = i+1, j-1 {
				rev[i], rev[j] = rev[j], rev[i]
			}
			for oi, l := range [][]c12Shard{m, rev} {
				e := w.newEpoch(l, "enumerated")
				find := w.newOp(e, c12OpFind)
				for i, o := range w.objs {
					find.Set = append(find.Set, c12Ref{o, c12Instances[(i+oi)%len(c12Instances)]})
				}
				w.exec(find)
				if c.Failed() {
					return
				}
				for i, o := range w.objs {
					if (i+oi)%2 == 0 {
						continue
					}
					get := w.newOp(e, c12OpGet)
					get.Obj, get.Inst = o, c12Instances[(i+2)%len(c12Instances)]
					w.exec(get)
					if c.Failed() {
						return
					}
					if i%3 == 0 {
						put := w.newOp(e, c12OpPut)
						put.Obj, put.Inst = o, c12Instances[(i+3)%len(c12Instances)]
						w.exec(put)
						if c.Failed() {
							return
						}
					}
				}
			}
		})
	}
	if c.Failed() {
		return
	}
	checkPairs("ba")
	c.Stats["exhaustive_pairs"] = pairs
	c.Sample["exhaustive"] = fmt.Sprintf("%d maps, %d selectors, %d hashes (%d exact ties), %d (map, map+1) pairs", len(maps), selectors, len(hashes), len(ties), pairs)
	c.Nontrivial = true
}

func init() {
	sim.Register(&sim.Check{
		Prop:  "C12",
		Level: "exploration",
		Profiles: []sim.Profile{
			{Name: "membership", Weight: 4, Fn: c12Run(c12Opts{})},
			{Name: "faults", Weight: 3, Fn: c12Run(c12Opts{Faults: true})},
			{Name: "ties", Weight: 2, Fn: c12Run(c12Opts{Ties: true})},
			{Name: "exhaustive-small", Prologue: true, Fn: c12Exhaustive},
			{Name: "existence-cache-over-sharding", Weight: 1, Fn: func(c *sim.RunCtx) { existenceCacheOverComposite(c, 2) }},
		},
		Components: map[string][]string{
			"real": {"pkg/blobstore/configuration new_blob_access.go / new_blob_replicator.go / creators (W-config runs: the composite is assembled by the unmodified NewBlobAccessFromConfiguration over model leaves)", "pkg/blobstore/sharding: shardingBlobAccess (Get, GetFromComposite, Put, FindMissing fan-out over errgroup, shard-key error handler), rendezvousShardSelector (NewRendezvousShardSelector, GetShard, score, Log2Fixed)", "pkg/blobstore/buffer (error handler wrapping, CAS chunk-reader buffers)", "pkg/digest (digests, sets)", "pkg/util (status wrapping)"},
			"stub": {"shards (map-backed BlobAccess stubs with call log, content-keyed failures, mid-stream read failures, cancellation awareness)", "goroutine scheduling of the errgroup fan-out (verifsimrt)", "composite assembly (the loop of new_blob_access.go without the configuration map, whose iteration order is an uncontrolled random source; listing orders are tape-chosen instead)"},
		},
		Rule:           "a run = 1-8 shards (keys from an awkward pool, weights incl. 1 and 2^32-1) x 2-8 hash families (leading 8 bytes: 0, 2^64-1, aimed at log-table boundaries/extreme scores of a shard, exact score ties, random; members differ in hash tail, digest function, size, instance name) pre-seeded on arbitrary shards x 0-4 membership changes (permute/remove/add/rebuild; the composite is rebuilt over the same stubs) x per map a full FindMissing sweep, direct selector queries and 1-8 Put/Get/GetFromComposite/FindMissing operations on 1-2 concurrent clients, with per-shard failures in the faults profile; non-trivial = at least one hash compared across a permutation, removal or addition, or a fault fired; distinct = distinct event-log hash",
		RequiredProbes: []string{"probe_permutation_checked", "probe_removal_checked", "probe_removal_moved", "probe_addition_checked", "probe_addition_moved", "probe_tie_hash_permuted", "probe_findmissing_fanout", "probe_findmissing_partial_result", "probe_error_key_checked_distinctive", "fault_findmissing_error", "fault_get_call_error", "fault_get_stream_error", "fault_put_error", "probe_get_not_found", "reads_ok", "puts_ok"},
		Assumptions: []string{
			"'the shard of a hash' is defined by observation (first backend call / selector answer), not by a reference implementation of the scoring function: the property constrains consistency and disruption, not the distribution",
			"GetFromComposite is expected to address the shard of the parent digest (the stored object)",
			"minimal disruption is checked between any two visited maps A ⊆ B (single removal/addition are the adjacent cases)",
			"zero weights, duplicate keys and colliding key hashes are outside the quantifier (rejected by the configuration layer / constructor)",
			"the configuration-map path of new_blob_access.go is not executed (Go map iteration order is not controllable); permutations are explicit",
		},
	})
}
