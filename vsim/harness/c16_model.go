package harness

import (
	"bytes"
	"fmt"

	remoteexecution "github.com/bazelbuild/remote-apis/build/bazel/remote/execution/v2"
	"vsim/sim"

	rt "verifsimrt"
)

// c16Stitch recomputes, from what every source handed out, the stream that a
// resuming reader must have produced: buffer k (in hand-out order) is opened
// at the number of bytes produced so far and contributes the bytes it handed
// out beyond that offset. Returns the stream and, per buffer, the offset it
// had to be opened at.
func (r *c16Run) stitch() ([]byte, []int) {
	var s []byte
	offs := make([]int, len(r.insts))
	for k, in := range r.insts {
		o := len(s)
		offs[k] = o
		handed := 0
		switch in.spec.Kind {
		case c16KChunk, c16KReader, c16KReaderAt:
			handed = in.delivered
		case c16KValidSlice:
			handed = len(in.data)
		case c16KCASSlice:
			if in.correct {
				handed = len(in.data)
			}
		}
		if handed > len(in.data) {
			handed = len(in.data)
		}
		if handed > o {
			s = append(s, in.data[o:handed]...)
		}
	}
	return s, offs
}

func (r *c16Run) top() *c16Handler {
	if len(r.tops) == 0 {
		return nil
	}
	return r.tops[len(r.tops)-1]
}

// check evaluates the oracles after the consumer has finished.
func (r *c16Run) check(readerAtProfile bool) {
	c, cs, res := r.c, r.cs, r.res
	n := len(r.content)
	desc := r.describe()
	streaming := cs.Cons == consReader || cs.Cons == consChunkReader || cs.Cons == consIntoWriter || cs.Cons == consCloneStream
	whole := c16Whole(cs.Cons)
	sinkFailed := res.Err == errSinkFull
	natural := !r.stopped && !sinkFailed && cs.Cons != consDiscard
	reqInvalid := (cs.Cons == consChunkReader && cs.Off > n) ||
		((cs.Cons == consByteSlice || cs.Cons == consCloneCopy || cs.Cons == consCloneStream || cs.Cons == consProto) && n > cs.MaxSize)
	anyWrong, anyLong := false, false
	for _, in := range r.insts {
		if !in.correct {
			anyWrong = true
			if in.spec.Wrong == c16WLong {
				anyLong = true
			}
		}
	}
	totalCalls := 0
	for _, h := range r.hs {
		totalCalls += len(h.calls)
	}

	// coverage
	c.Count("cons_"+consNames[cs.Cons], 1)
	for _, in := range r.insts {
		if in.raised > 0 {
			c.Count("fault_source_io_error", 1)
			if in.idx > 0 {
				c.Count("probe_replacement_failed_again", 1)
			}
			if in.spec.ErrWithData {
				c.Count("fault_error_with_data", 1)
			}
		}
		if in.spec.Kind == c16KError {
			c.Count("fault_error_buffer", 1)
		}
		if !in.correct {
			c.Count("fault_wrong_bytes_"+c16WrongNames[in.spec.Wrong], 1)
		}
		if in.readAfterClose > 0 {
			c.Count("note_read_after_close", 1)
		}
		if in.idx > 0 {
			c.Count("repl_"+c16KindNames[in.spec.Kind], 1)
		}
	}
	if totalCalls > 0 {
		c.Nontrivial = true
		k := totalCalls
		if k > 5 {
			k = 5
		}
		c.Count(fmt.Sprintf("probe_onerror_calls_%d", k), 1)
	}
	if len(r.hs) > len(r.tops) {
		c.Count("probe_replacement_with_own_handler", 1)
	}
	stitched, offs := r.stitch()
	if streaming {
		for k, in := range r.insts {
			if k == 0 {
				continue
			}
			if in.raised > 0 && in.delivered < offs[k] {
				c.Count("probe_fail_during_discard", 1)
			}
			if offs[k] > 0 && offs[k] < n && res.Completed && !r.stopped {
				c.Count("probe_resumed_mid_stream", 1)
			}
		}
	}

	// (0) known limitation probe: a reader-at backed buffer with a handler of its own
	if readerAtProfile {
		for _, in := range r.insts {
			if in.spec.Kind == c16KReaderAt && in.attachedDirectly && in.raised > 0 && in.handler != nil {
				offered := false
				for _, cl := range in.handler.calls {
					if cl.tag == in.errTag {
						offered = true
					}
				}
				if !offered {
					c.Fail("readerat-error-bypasses-handler", "the I/O error %s of a ReadAtCloser-backed buffer was never offered to the error handler attached to it [%s]", in.errTag, desc)
					return
				}
			}
		}
	}

	// (1) handler protocol
	for _, h := range r.hs {
		if h.afterDone > 0 {
			c.Fail("onerror-after-done", "H%d.OnError called after Done [%s]", h.id, desc)
			return
		}
		if h.nonError > 0 {
			c.Fail("onerror-without-error", "H%d.OnError called with nil/io.EOF [%s]", h.id, desc)
			return
		}
		seen := map[string]bool{}
		for _, cl := range h.calls {
			if cl.tag == "" {
				continue
			}
			if seen[cl.tag] {
				c.Fail("error-offered-twice", "error %s was offered to H%d more than once [%s]", cl.tag, h.id, desc)
				return
			}
			seen[cl.tag] = true
		}
	}

	// (2) bytes: exactly once, in order
	switch cs.Cons {
	case consReader, consChunkReader, consIntoWriter:
		o := 0
		if cs.Cons == consChunkReader {
			o = cs.Off
		}
		if o > n {
			if len(res.Got) > 0 || res.Completed {
				c.Fail("byte-stream-mismatch", "data or success for a start offset beyond the end [%s]", desc)
				return
			}
			break
		}
		if len(res.Got) > n-o {
			c.Fail("byte-stream-mismatch", "consumer received %d bytes, only %d exist from offset %d [%s]", len(res.Got), n-o, o, desc)
			return
		}
		for i, g := range res.Got {
			j := o + i
			if g == r.content[j] {
				continue
			}
			ok := false
			if !(res.Completed && !r.stopped) {
				for _, in := range r.insts {
					if !in.correct && j < len(in.data) && in.data[j] == g {
						ok = true
					}
				}
			}
			if !ok {
				c.Fail("byte-stream-mismatch", "byte %d of the stream (object offset %d) is %#x, expected %#x: received %s, expected prefix of %s [%s]", i, j, g, r.content[j], short(res.Got), short(r.content[o:]), desc)
				return
			}
		}
		if res.Completed && !r.stopped && len(res.Got) != n-o {
			c.Fail("byte-stream-mismatch", "stream ended successfully after %d bytes, expected %d [%s]", len(res.Got), n-o, desc)
			return
		}
	case consByteSlice, consCloneCopy, consCloneStream:
		if res.Completed && !bytes.Equal(res.Got, r.content) {
			c.Fail("byte-stream-mismatch", "whole-object read returned %s, expected %s [%s]", short(res.Got), short(r.content), desc)
			return
		}
	case consReadAt:
		if res.Completed {
			exp := []byte{}
			if cs.Off < n {
				end := cs.Off + cs.ReadBuf
				if end > n {
					end = n
				}
				exp = r.content[cs.Off:end]
			}
			if !bytes.Equal(res.Got, exp) {
				c.Fail("byte-stream-mismatch", "ReadAt returned %s, expected %s [%s]", short(res.Got), short(exp), desc)
				return
			}
		}
	case consProto:
		if res.Completed {
			exp := []byte{}
			if n >= 2 {
				exp = r.content[2:]
			}
			if !bytes.Equal(res.Got, exp) {
				c.Fail("byte-stream-mismatch", "ToProto decoded hash %q, expected %q [%s]", res.Got, exp, desc)
				return
			}
		}
	}

	// (3) success is only possible if the content (across the stitched parts) matches the digest
	if res.Completed && !r.stopped {
		last := r.insts[len(r.insts)-1]
		// (a reader-at backed buffer that reaches the consumer without an
		// error-handling buffer around it is read at the requested offset
		// directly; nothing is stitched)
		directReaderAt := last.direct && last.spec.Kind == c16KReaderAt
		if streaming && !directReaderAt && !bytes.Equal(stitched, r.content) {
			c.Fail("stitched-content-not-validated", "consumer completed successfully although the stitched stream %s differs from the object %s [%s]", short(stitched), short(r.content), desc)
			return
		}
		if whole {
			last := r.insts[len(r.insts)-1]
			if !last.correct {
				c.Fail("wrong-replacement-accepted", "whole-object read succeeded although the buffer that served it (b%d) carries wrong bytes [%s]", last.idx, desc)
				return
			}
		}
	}

	// (4) what the consumer gets is what the outermost handler returned
	top := r.top()
	var lastRet error
	lastIsErr := false
	if top != nil && len(top.calls) > 0 {
		cl := top.calls[len(top.calls)-1]
		if cl.resp != c16RReplace {
			lastIsErr = true
			lastRet = cl.ret
		}
	}
	if res.Err != nil && !sinkFailed {
		tag := c16Tag(res.Err)
		if lastIsErr {
			if c16SameErr(res.Err, lastRet) {
				c.Count("probe_handler_error_delivered", 1)
			} else if tag == "" && (anyWrong || reqInvalid) {
				// an integrity / request error took precedence
			} else {
				c.Fail("handler-error-not-delivered", "consumer got %q but the outermost handler returned %q [%s]", res.Err, lastRet, desc)
				return
			}
		} else {
			if tag != "" {
				c.Fail("unhandled-error-delivered", "consumer got the injected error %s which the outermost handler did not return [%s]", tag, desc)
				return
			}
			if !(anyWrong || reqInvalid) {
				c.Fail("spurious-error", "all buffers carry correct bytes and every offered error was answered with a replacement, yet the consumer got %q [%s]", res.Err, desc)
				return
			}
		}
		if tag == "" && anyWrong {
			c.Count("probe_wrong_bytes_rejected", 1)
		}
	}
	if res.Completed && natural && lastIsErr {
		c.Fail("handler-error-swallowed", "the outermost handler returned %q but the consumer completed successfully [%s]", lastRet, desc)
		return
	}
	if res.Completed && natural && totalCalls > 0 {
		c.Count("probe_success_after_recovery", 1)
	}

	// (5) every error is offered exactly once (missing offers; duplicates are (1))
	if natural && !anyLong {
		for _, in := range r.insts {
			if in.handler == nil || in.errTag == "" {
				continue
			}
			if in.spec.Kind == c16KReaderAt && in.attachedDirectly {
				continue // covered by (0) in its own profile
			}
			must := false
			switch in.spec.Kind {
			case c16KError:
				must = true
			default:
				must = in.raised >= 1
				if in.spec.ErrWithData {
					must = in.raised >= 2
				}
			}
			if !must {
				continue
			}
			found := false
			for _, cl := range in.handler.calls {
				if cl.tag == in.errTag {
					found = true
				}
			}
			if !found {
				c.Fail("error-not-offered", "b%d raised %s (%d times) but H%d was never offered it [%s]", in.idx, in.errTag, in.raised, in.handler.id, desc)
				return
			}
		}
		for _, h := range r.hs {
			if h.parent == nil {
				continue
			}
			for _, cl := range h.calls {
				if cl.resp == c16RReplace || cl.retTag == "" {
					continue
				}
				found := false
				for _, pc := range h.parent.calls {
					if pc.tag == cl.retTag {
						found = true
					}
				}
				if !found {
					c.Fail("returned-error-not-offered-to-outer-handler", "H%d returned %s but the enclosing handler H%d was never offered it [%s]", h.id, cl.retTag, h.parent.id, desc)
					return
				}
				c.Count("probe_inner_error_reached_outer", 1)
			}
		}
	}

	// (6) Done exactly once per handler
	for _, h := range r.hs {
		if h.done != 1 {
			c.Fail("done-count", "H%d.Done was called %d times [%s]", h.id, h.done, desc)
			return
		}
	}
	// (7) every source closed exactly once
	for _, in := range r.insts {
		if in.closable && in.closes != 1 {
			c.Fail("source-close-count", "the source of b%d was closed %d times [%s]", in.idx, in.closes, desc)
			return
		}
	}
	// (8) errors are sticky
	if res.Sticky {
		c.Fail("error-not-sticky", "a read after an error returned data or success [%s]", desc)
		return
	}
}

// ---------------------------------------------------------------------
// exhaustive prologue: one failure, every position, sizes <= 6

func c16Exhaustive(c *sim.RunCtx) {
	cases := 0
	c.Sim(sim.SimOpts{MaxSteps: 2000000000, DeadlockClass: "deadlock"}, func(s *rt.Sched) {
		for n := 0; n <= 6 && !c.Failed(); n++ {
			c16ExhaustiveN(c, n, &cases)
		}
	})
	c.Stats["exhaustive_cases"] = cases
	c.Sample["exhaustive_cases"] = cases
	c.Nontrivial = true
}

func c16Chunkings(n int) [][]int {
	out := [][]int{nil}
	if n >= 2 {
		var all []int
		for i := 1; i < n; i++ {
			all = append(all, i)
		}
		out = append(out, all)
	}
	if n >= 4 {
		out = append(out, []int{n / 2})
	}
	return out
}

func c16ExhaustiveN(c *sim.RunCtx, n int, cases *int) {
	type consVar struct{ cons, off, mc, rb int }
	var consVars []consVar
	consVars = append(consVars, consVar{cons: consByteSlice}, consVar{cons: consIntoWriter}, consVar{cons: consCloneCopy}, consVar{cons: consDiscard})
	for _, rb := range []int{1, 2, 100} {
		consVars = append(consVars, consVar{cons: consReader, rb: rb})
	}
	for off := 0; off <= n+1; off++ {
		for _, mc := range []int{1, 2, 100} {
			consVars = append(consVars, consVar{cons: consChunkReader, off: off, mc: mc})
		}
	}
	for off := 0; off <= n; off++ {
		for _, l := range []int{0, 1, n} {
			consVars = append(consVars, consVar{cons: consReadAt, off: off, rb: l})
		}
	}
	type respVar struct {
		kind  int
		rk    int
		cuts  []int
		wrong int
		warg  int
	}
	var resps []respVar
	resps = append(resps, respVar{kind: c16RTranslate}, respVar{kind: c16RPass})
	wrongs := [][2]int{{c16WNone, 0}}
	if n > 0 {
		wrongs = append(wrongs, [2]int{c16WFlip, 0}, [2]int{c16WFlip, n - 1})
	}
	for rk := 0; rk < c16NKinds; rk++ {
		cutSets := [][]int{nil}
		if rk == c16KChunk || rk == c16KReader {
			cutSets = c16Chunkings(n)
			if len(cutSets) > 2 {
				cutSets = cutSets[:2]
			}
		}
		for _, cuts := range cutSets {
			for _, w := range wrongs {
				if rk == c16KError && w[0] != c16WNone {
					continue
				}
				resps = append(resps, respVar{kind: c16RReplace, rk: rk, cuts: cuts, wrong: w[0], warg: w[1]})
			}
		}
	}
	for _, ok := range []int{c16KChunk, c16KReader} {
		for _, ocuts := range c16Chunkings(n) {
			for f := 0; f <= n; f++ {
				for _, ewd := range []bool{false, true} {
					if ewd && (ok != c16KReader || f == 0) {
						continue
					}
					for _, rv := range resps {
						for _, cv := range consVars {
							if rv.kind == c16RReplace && rv.wrong != c16WNone && c16Whole(cv.cons) && (rv.rk == c16KValidSlice || rv.rk == c16KReaderAt) {
								continue
							}
							cs := &c16Case{Fn: remoteexecution.DigestFunction_SHA256, N: n, Base: 0x41, Step: 1,
								Cons: cv.cons, Off: cv.off, MaxChunk: cv.mc, ReadBuf: cv.rb, SinkFail: -1, Stop: -1, MaxSize: 100, MaxRepl: 5}
							cs.Orig = &c16BufSpec{Kind: ok, Cuts: ocuts, FailAt: f, ErrWithData: ewd}
							resp := c16Resp{Kind: rv.kind}
							if rv.kind == c16RReplace {
								resp.Buf = &c16BufSpec{Kind: rv.rk, Cuts: rv.cuts, Wrong: rv.wrong, WArg: rv.warg, FailAt: -1}
							}
							cs.Handlers = []*c16HandlerSpec{{Resps: []c16Resp{resp}}}
							r := newC16Run(c, cs)
							r.exec()
							r.check(false)
							*cases++
							if c.Failed() {
								c.Sample["cases"] = *cases
								return
							}
						}
					}
				}
			}
		}
	}
}
