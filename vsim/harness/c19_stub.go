package harness

import (
	"context"
	"fmt"
	"sort"
	"strconv"
	"strings"

	remoteexecution "github.com/bazelbuild/remote-apis/build/bazel/remote/execution/v2"
	"github.com/buildbarn/bb-storage/pkg/blobstore"
	"github.com/buildbarn/bb-storage/pkg/blobstore/buffer"
	"github.com/buildbarn/bb-storage/pkg/blobstore/configuration"
	"github.com/buildbarn/bb-storage/pkg/blobstore/slicing"
	"github.com/buildbarn/bb-storage/pkg/digest"
	"github.com/buildbarn/bb-storage/pkg/program"
	pb "github.com/buildbarn/bb-storage/pkg/proto/configuration/blobstore"
	grpcpb "github.com/buildbarn/bb-storage/pkg/proto/configuration/grpc"
	"vsim/sim"

	"google.golang.org/grpc/codes"
	"google.golang.org/grpc/status"
	rt "verifsimrt"
)

// ---- C19 stub backends: recording map-based BlobAccess ----

// c19Obj is one (digest function, hash, size) triple of the workload.
type c19Obj struct {
	Fn   remoteexecution.DigestFunction_Value
	Hash string
	Size int64
}

// c19Key identifies an object under an instance name, as a backend sees it.
// Obj < 0 is used for calls that carry only an instance name.
type c19Key struct {
	Inst string
	Obj  int
}

func (k c19Key) String() string {
	if k.Obj < 0 {
		return fmt.Sprintf("%q", k.Inst)
	}
	return fmt.Sprintf("%q:o%d", k.Inst, k.Obj)
}

func c19KeyLess(a, b c19Key) bool {
	if a.Inst != b.Inst {
		return a.Inst < b.Inst
	}
	return a.Obj < b.Obj
}

func c19SortKeys(ks []c19Key) []c19Key {
	out := append([]c19Key{}, ks...)
	sort.Slice(out, func(i, j int) bool { return c19KeyLess(out[i], out[j]) })
	return out
}

func c19KeysString(ks []c19Key) string {
	var parts []string
	for _, k := range ks {
		parts = append(parts, k.String())
	}
	return "{" + strings.Join(parts, " ") + "}"
}

// c19Call is one call that reached a stub backend.
type c19Call struct {
	Backend int
	Op      string
	Keys    []c19Key // sorted
	Child   *c19Key  // GetFromComposite only
}

func (cl c19Call) String() string {
	s := fmt.Sprintf("b%d.%s%s", cl.Backend, cl.Op, c19KeysString(cl.Keys))
	if cl.Child != nil {
		s += "child=" + cl.Child.String()
	}
	return s
}

// c19Fault is a content-keyed fault: a stub call fails iff it goes to
// Backend (-1: any) and concerns instance name Name ("*": any) as seen by
// that backend.
type c19Fault struct {
	Backend int
	Name    string
	Code    codes.Code
}

func (f *c19Fault) String() string {
	if f == nil {
		return "none"
	}
	return fmt.Sprintf("fault(b=%d name=%s code=%v)", f.Backend, f.Name, f.Code)
}

func (f *c19Fault) matches(backend int, inst string) bool {
	if f == nil {
		return false
	}
	return (f.Backend < 0 || f.Backend == backend) && (f.Name == "*" || f.Name == inst)
}

type c19World struct {
	c        *sim.RunCtx
	objs     []c19Obj
	objIdx   map[string]int
	backends []*c19Backend

	// per-operation state
	calls []c19Call
	fault *c19Fault
	fired int
	bad   string // first malformed / unknown digest seen by a stub
}

func newC19World(c *sim.RunCtx, objs []c19Obj) *c19World {
	w := &c19World{c: c, objs: objs, objIdx: map[string]int{}}
	for i, o := range objs {
		w.objIdx[fmt.Sprintf("%d|%s|%d", o.Fn, o.Hash, o.Size)] = i
	}
	return w
}

func (w *c19World) addBackend() *c19Backend {
	b := &c19Backend{w: w, id: len(w.backends), store: map[c19Key][]byte{}}
	w.backends = append(w.backends, b)
	return b
}

func (w *c19World) beginOp(f *c19Fault) {
	w.calls = nil
	w.fault = f
	w.fired = 0
	w.bad = ""
}

// sortedCalls returns the calls of the current operation in canonical order
// (the demultiplexer iterates over a Go map, so arrival order is random).
func (w *c19World) sortedCalls() []c19Call {
	out := append([]c19Call{}, w.calls...)
	sort.SliceStable(out, func(i, j int) bool {
		if out[i].Backend != out[j].Backend {
			return out[i].Backend < out[j].Backend
		}
		if out[i].Op != out[j].Op {
			return out[i].Op < out[j].Op
		}
		return c19KeysString(out[i].Keys) < c19KeysString(out[j].Keys)
	})
	return out
}

func c19CallsString(calls []c19Call) string {
	var parts []string
	for _, cl := range calls {
		parts = append(parts, cl.String())
	}
	return "[" + strings.Join(parts, ", ") + "]"
}

// digestOf builds the digest of object obj under instance name inst.
func (w *c19World) digestOf(inst string, obj int) digest.Digest {
	o := w.objs[obj]
	return digest.MustNewDigest(inst, o.Fn, o.Hash, o.Size)
}

// decode interprets a digest handed to a stub (or returned to the caller):
// its fields must denote a known object under a valid instance name, and the
// value must be identical to the canonically constructed digest (backends use
// digests as map keys).
func (w *c19World) decode(d digest.Digest, where string) (c19Key, bool) {
	inst := d.GetInstanceName().String()
	fn := d.GetDigestFunction().GetEnumValue()
	hash := d.GetHashString()
	size := d.GetSizeBytes()
	note := func(msg string) {
		if w.bad == "" {
			w.bad = fmt.Sprintf("%s: digest %q (instance %q fn=%v hash=%s size=%d): %s", where, d.String(), inst, fn, hash, size, msg)
		}
	}
	obj, ok := w.objIdx[fmt.Sprintf("%d|%s|%d", fn, hash, size)]
	if !ok {
		note("does not denote any object of the workload")
		return c19Key{}, false
	}
	in, err := digest.NewInstanceName(inst)
	if err != nil {
		note("invalid instance name: " + err.Error())
		return c19Key{}, false
	}
	f, err := in.GetDigestFunction(fn, 0)
	if err != nil {
		note("bad digest function")
		return c19Key{}, false
	}
	canon, err := f.NewDigest(hash, size)
	if err != nil || canon != d {
		note("differs from the canonically constructed digest of the same fields")
		return c19Key{}, false
	}
	return c19Key{Inst: inst, Obj: obj}, true
}

var errC19NotFound = status.Error(codes.NotFound, "c19-object-not-found")

type c19Backend struct {
	w     *c19World
	id    int
	store map[c19Key][]byte
}

func (b *c19Backend) record(op string, keys []c19Key, child *c19Key) error {
	w := b.w
	w.calls = append(w.calls, c19Call{Backend: b.id, Op: op, Keys: c19SortKeys(keys), Child: child})
	for _, k := range keys {
		if w.fault.matches(b.id, k.Inst) {
			w.fired++
			return InjectedError(w.fault.Code, "c19")
		}
	}
	return nil
}

func (b *c19Backend) Get(ctx context.Context, d digest.Digest) buffer.Buffer {
	rt.Yield("stub.Get")
	k, ok := b.w.decode(d, fmt.Sprintf("backend %d Get", b.id))
	if !ok {
		b.w.calls = append(b.w.calls, c19Call{Backend: b.id, Op: "Get"})
		return buffer.NewBufferFromError(status.Error(codes.Internal, "c19-bad-digest"))
	}
	if err := b.record("Get", []c19Key{k}, nil); err != nil {
		return buffer.NewBufferFromError(err)
	}
	if data, ok := b.store[k]; ok {
		return buffer.NewValidatedBufferFromByteSlice(append([]byte{}, data...))
	}
	return buffer.NewBufferFromError(errC19NotFound)
}

// c19CompositeContent is what a stub returns for GetFromComposite: it names
// the parent copy it found and the child digest (with the instance name) it
// was asked for.
func c19CompositeContent(parentCopy []byte, child c19Key) []byte {
	return []byte(fmt.Sprintf("composite(%s)/%s", parentCopy, child))
}

func (b *c19Backend) GetFromComposite(ctx context.Context, parentDigest, childDigest digest.Digest, slicer slicing.BlobSlicer) buffer.Buffer {
	rt.Yield("stub.GetFromComposite")
	pk, ok1 := b.w.decode(parentDigest, fmt.Sprintf("backend %d GetFromComposite parent", b.id))
	ck, ok2 := b.w.decode(childDigest, fmt.Sprintf("backend %d GetFromComposite child", b.id))
	if !ok1 || !ok2 {
		b.w.calls = append(b.w.calls, c19Call{Backend: b.id, Op: "GetFromComposite"})
		return buffer.NewBufferFromError(status.Error(codes.Internal, "c19-bad-digest"))
	}
	if err := b.record("GetFromComposite", []c19Key{pk}, &ck); err != nil {
		return buffer.NewBufferFromError(err)
	}
	if data, ok := b.store[pk]; ok {
		return buffer.NewValidatedBufferFromByteSlice(c19CompositeContent(data, ck))
	}
	return buffer.NewBufferFromError(errC19NotFound)
}

func (b *c19Backend) Put(ctx context.Context, d digest.Digest, buf buffer.Buffer) error {
	rt.Yield("stub.Put")
	k, ok := b.w.decode(d, fmt.Sprintf("backend %d Put", b.id))
	if !ok {
		b.w.calls = append(b.w.calls, c19Call{Backend: b.id, Op: "Put"})
		buf.Discard()
		return status.Error(codes.Internal, "c19-bad-digest")
	}
	if err := b.record("Put", []c19Key{k}, nil); err != nil {
		buf.Discard()
		return err
	}
	data, err := buf.ToByteSlice(1 << 20)
	if err != nil {
		return err
	}
	b.store[k] = data
	return nil
}

// FindMissing has no scheduling point: the demultiplexer calls its backends
// in Go map order, so a yield here would make the event log depend on it.
func (b *c19Backend) FindMissing(ctx context.Context, digests digest.Set) (digest.Set, error) {
	var keys []c19Key
	items := digests.Items()
	okAll := true
	for _, d := range items {
		k, ok := b.w.decode(d, fmt.Sprintf("backend %d FindMissing", b.id))
		if !ok {
			okAll = false
			continue
		}
		keys = append(keys, k)
	}
	if !okAll {
		b.w.calls = append(b.w.calls, c19Call{Backend: b.id, Op: "FindMissing", Keys: c19SortKeys(keys)})
		return digest.EmptySet, status.Error(codes.Internal, "c19-bad-digest")
	}
	if err := b.record("FindMissing", keys, nil); err != nil {
		return digest.EmptySet, err
	}
	missing := digest.NewSetBuilder(0)
	for _, d := range items {
		k, _ := b.w.decode(d, "")
		if _, ok := b.store[k]; !ok {
			missing.Add(d)
		}
	}
	return missing.Build(), nil
}

func c19CapsValue(backend int) int64 { return int64(1000 + backend) }

func (b *c19Backend) GetCapabilities(ctx context.Context, instanceName digest.InstanceName) (*remoteexecution.ServerCapabilities, error) {
	rt.Yield("stub.GetCapabilities")
	if err := b.record("GetCapabilities", []c19Key{{Inst: instanceName.String(), Obj: -1}}, nil); err != nil {
		return nil, err
	}
	return &remoteexecution.ServerCapabilities{
		CacheCapabilities: &remoteexecution.CacheCapabilities{MaxBatchTotalSizeBytes: c19CapsValue(b.id)},
	}, nil
}

// ---- W-config: the real configuration code over stub leaves ----

// c19Creator wraps a real BlobAccessCreator. The only thing it changes is
// that a gRPC backend with address "c19stub:<n>" resolves to stub backend n,
// and that no storage-type specific top-level decorator is applied. Stubs
// are declared as labels, so that nested creation through the unwrapped
// creator (hierarchical_instance_names) still finds them.
type c19Creator struct {
	configuration.BlobAccessCreator
	w *c19World
}

func (cr *c19Creator) NewCustomBlobAccess(terminationGroup program.Group, cfg *pb.BlobAccessConfiguration, nc configuration.NestedBlobAccessCreator) (configuration.BlobAccessInfo, string, error) {
	if g, ok := cfg.Backend.(*pb.BlobAccessConfiguration_Grpc); ok {
		if addr := g.Grpc.GetClient().GetAddress(); strings.HasPrefix(addr, "c19stub:") {
			n, err := strconv.Atoi(strings.TrimPrefix(addr, "c19stub:"))
			if err != nil || n < 0 || n >= len(cr.w.backends) {
				panic(sim.HarnessError{Msg: "bad stub address " + addr})
			}
			return configuration.BlobAccessInfo{BlobAccess: cr.w.backends[n], DigestKeyFormat: digest.KeyWithInstance}, "c19stub", nil
		}
	}
	return cr.BlobAccessCreator.NewCustomBlobAccess(terminationGroup, cfg, nc)
}

func (cr *c19Creator) WrapTopLevelBlobAccess(ba blobstore.BlobAccess) blobstore.BlobAccess { return ba }

func c19StubConfig(n int) *pb.BlobAccessConfiguration {
	return &pb.BlobAccessConfiguration{Backend: &pb.BlobAccessConfiguration_Grpc{Grpc: &pb.GrpcBlobAccessConfiguration{
		Client: &grpcpb.ClientConfiguration{Address: fmt.Sprintf("c19stub:%d", n)},
	}}}
}

func c19LabelConfig(n int) *pb.BlobAccessConfiguration {
	return &pb.BlobAccessConfiguration{Backend: &pb.BlobAccessConfiguration_Label{Label: fmt.Sprintf("s%d", n)}}
}

// c19FromConfig runs the unmodified NewBlobAccessFromConfiguration over
// with_labels{ s0..sn = stubs; backend = inner }.
func c19FromConfig(w *c19World, inner *pb.BlobAccessConfiguration, ac bool) blobstore.BlobAccess {
	labels := map[string]*pb.BlobAccessConfiguration{}
	for i := range w.backends {
		labels[fmt.Sprintf("s%d", i)] = c19StubConfig(i)
	}
	cfg := &pb.BlobAccessConfiguration{Backend: &pb.BlobAccessConfiguration_WithLabels{WithLabels: &pb.WithLabelsBlobAccessConfiguration{
		Backend: inner,
		Labels:  labels,
	}}}
	var real configuration.BlobAccessCreator
	if ac {
		real = configuration.NewACBlobAccessCreator(nil, nil, 1<<20)
	} else {
		real = configuration.NewCASBlobAccessCreator(nil, 1<<20, nil)
	}
	info, err := configuration.NewBlobAccessFromConfiguration(nil, cfg, &c19Creator{BlobAccessCreator: real, w: w})
	if err != nil {
		panic(sim.HarnessError{Msg: "configuration rejected: " + err.Error()})
	}
	return info.BlobAccess
}
