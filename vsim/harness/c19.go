package harness

import (
	"bytes"
	"context"
	"fmt"
	"io"
	"sort"
	"strings"
	"time"

	"github.com/buildbarn/bb-storage/pkg/blobstore"
	"github.com/buildbarn/bb-storage/pkg/blobstore/buffer"
	"github.com/buildbarn/bb-storage/pkg/clock"
	"github.com/buildbarn/bb-storage/pkg/digest"
	pb "github.com/buildbarn/bb-storage/pkg/proto/configuration/blobstore"
	digestpb "github.com/buildbarn/bb-storage/pkg/proto/configuration/digest"
	evictionpb "github.com/buildbarn/bb-storage/pkg/proto/configuration/eviction"
	"google.golang.org/protobuf/types/known/durationpb"
	"vsim/sim"

	"google.golang.org/grpc/codes"
	"google.golang.org/grpc/status"
	rt "verifsimrt"
)

// ---- C19: instance-name routing (demultiplexing, hierarchical fallback, trie) ----

var (
	// prefixes that can be registered with the demultiplexer: the empty
	// prefix, nested prefixes, and prefixes that are string- but not
	// component-prefixes of each other ("a" / "ab", "a/b" / "a/bc")
	c19PrefixPool = []string{"", "a", "a/b", "ab", "a/b/c", "b", "a/bc", "ab/c"}
	// rewrites ("add_instance_name_prefix"); "<same>" = the prefix itself
	// (the no-op patcher)
	c19RewritePool = []string{"<same>", "", "x", "x/y", "a", "xyz/a/b"}
	// instance names used by callers
	c19NamePool = []string{"", "a", "b", "c", "ab", "abc", "a/a", "a/b", "a/c", "a/bc", "ab/c", "b/a",
		"a/b/c", "a/b/ab", "ab/a/b", "a/bc/a", "a/b/c/a", "ab/c/b", "a/b/c/a/b", "b/a/b/c/a/b", "a/b/c/a/b/c/a"}
	c19FaultCodes = []codes.Code{codes.Unavailable, codes.Internal, codes.PermissionDenied, codes.ResourceExhausted, codes.Unknown}
)

// ---- reference model: plain string/slice code, nothing from pkg/digest ----

func c19Comps(n string) []string {
	if n == "" {
		return nil
	}
	return strings.Split(n, "/")
}

func c19IsCompPrefix(p, n string) bool {
	pc, nc := c19Comps(p), c19Comps(n)
	if len(pc) > len(nc) {
		return false
	}
	for i := range pc {
		if pc[i] != nc[i] {
			return false
		}
	}
	return true
}

// c19Ancestors lists n and its ancestors, most specific first.
func c19Ancestors(n string) []string {
	cs := c19Comps(n)
	var out []string
	for k := len(cs); k >= 0; k-- {
		out = append(out, strings.Join(cs[:k], "/"))
	}
	return out
}

type c19Reg struct {
	Prefix  string
	Rewrite string // effective new prefix (never "<same>")
	Backend int
	Active  bool
}

func (r c19Reg) String() string {
	return fmt.Sprintf("%q->%q@b%d", r.Prefix, r.Rewrite, r.Backend)
}

// c19Route returns the index of the active registration with the longest
// component-wise prefix of name, or -1.
func c19Route(regs []c19Reg, name string) int {
	best, bestLen := -1, -1
	for i, r := range regs {
		if r.Active && c19IsCompPrefix(r.Prefix, name) && len(c19Comps(r.Prefix)) > bestLen {
			best, bestLen = i, len(c19Comps(r.Prefix))
		}
	}
	return best
}

func c19Matching(regs []c19Reg, name string) (comp, strOnly int) {
	for _, r := range regs {
		if !r.Active {
			continue
		}
		if c19IsCompPrefix(r.Prefix, name) {
			comp++
		} else if strings.HasPrefix(name, r.Prefix) {
			strOnly++
		}
	}
	return
}

func c19Rewrite(name, oldPrefix, newPrefix string) string {
	rest := c19Comps(name)[len(c19Comps(oldPrefix)):]
	return strings.Join(append(append([]string{}, c19Comps(newPrefix)...), rest...), "/")
}

// ---- systems under test ----

// Alias: the registration shares the backend of the one before it (two
// prefixes referring to one labelled backend, each with its own rewrite)
type c19Spec struct {
	Prefix, Rewrite string
	Alias           bool
}

type c19Info struct {
	backend blobstore.BlobAccess
	name    string
	patcher digest.InstanceNamePatcher
}

type c19Demux struct {
	w      *c19World
	regs   []c19Reg
	ba     blobstore.BlobAccess
	config bool
	trie   *digest.InstanceNameTrie
	infos  []c19Info
}

func c19MustName(n string) digest.InstanceName {
	in, err := digest.NewInstanceName(n)
	if err != nil {
		panic(sim.HarnessError{Msg: "bad instance name " + n})
	}
	return in
}

func c19Effective(s c19Spec) string {
	if s.Rewrite == "<same>" {
		return s.Prefix
	}
	return s.Rewrite
}

// demuxConfig renders the registrations as the protobuf configuration.
func c19DemuxConfig(regs []c19Reg) *pb.BlobAccessConfiguration {
	m := map[string]*pb.DemultiplexedBlobAccessConfiguration{}
	for _, r := range regs {
		m[r.Prefix] = &pb.DemultiplexedBlobAccessConfiguration{Backend: c19LabelConfig(r.Backend), AddInstanceNamePrefix: r.Rewrite}
	}
	return &pb.BlobAccessConfiguration{Backend: &pb.BlobAccessConfiguration_Demultiplexing{Demultiplexing: &pb.DemultiplexingBlobAccessConfiguration{InstanceNamePrefixes: m}}}
}

// newC19Demux builds a demultiplexer with one stub backend per spec: either
// through the real configuration code (config) or from the same exported
// parts in the same way (trie of indices, backend name = prefix, patcher
// prefix -> rewrite), which also allows later registration changes.
func newC19Demux(w *c19World, specs []c19Spec, config, ac, build bool) *c19Demux {
	dm := &c19Demux{w: w, config: config}
	for i, s := range specs {
		var id int
		if s.Alias && i > 0 {
			id = dm.regs[i-1].Backend
			w.c.Count("probe_prefixes_sharing_backend", 1)
		} else {
			id = w.addBackend().id
		}
		dm.regs = append(dm.regs, c19Reg{Prefix: s.Prefix, Rewrite: c19Effective(s), Backend: id, Active: true})
	}
	if config {
		if build {
			dm.ba = c19FromConfig(w, c19DemuxConfig(dm.regs), ac)
		}
		return dm
	}
	dm.trie = digest.NewInstanceNameTrie()
	for _, r := range dm.regs {
		dm.trie.Set(c19MustName(r.Prefix), len(dm.infos))
		dm.infos = append(dm.infos, c19Info{backend: w.backends[r.Backend], name: r.Prefix,
			patcher: digest.NewInstanceNamePatcher(c19MustName(r.Prefix), c19MustName(r.Rewrite))})
	}
	dm.ba = blobstore.NewDemultiplexingBlobAccess(func(i digest.InstanceName) (blobstore.BlobAccess, string, digest.InstanceNamePatcher, error) {
		idx := dm.trie.GetLongestPrefix(i)
		if idx < 0 {
			return nil, "", digest.NoopInstanceNamePatcher, status.Errorf(codes.InvalidArgument, "Unknown instance name: %#v", i.String())
		}
		return dm.infos[idx].backend, dm.infos[idx].name, dm.infos[idx].patcher, nil
	})
	return dm
}

func (dm *c19Demux) register(s c19Spec) {
	b := dm.w.addBackend()
	for i := range dm.regs {
		if dm.regs[i].Prefix == s.Prefix {
			dm.regs[i].Active = false
		}
	}
	r := c19Reg{Prefix: s.Prefix, Rewrite: c19Effective(s), Backend: b.id, Active: true}
	dm.regs = append(dm.regs, r)
	dm.trie.Set(c19MustName(r.Prefix), len(dm.infos))
	dm.infos = append(dm.infos, c19Info{backend: b, name: r.Prefix,
		patcher: digest.NewInstanceNamePatcher(c19MustName(r.Prefix), c19MustName(r.Rewrite))})
}

func (dm *c19Demux) activeRegs() []int {
	var out []int
	for i, r := range dm.regs {
		if r.Active {
			out = append(out, i)
		}
	}
	return out
}

func (dm *c19Demux) describe() string {
	var parts []string
	for _, r := range dm.regs {
		if r.Active {
			parts = append(parts, r.String())
		}
	}
	return "[" + strings.Join(parts, " ") + "]"
}

// locate is the reference routing: backend and name under which the
// demultiplexer must look for caller name n.
func (dm *c19Demux) locate(n string) (backend int, patched string, ok bool) {
	i := c19Route(dm.regs, n)
	if i < 0 {
		return -1, "", false
	}
	r := dm.regs[i]
	return r.Backend, c19Rewrite(n, r.Prefix, r.Rewrite), true
}

// ---- workload ----

const (
	c19Get = iota
	c19Find
	c19Put
	c19Caps
	c19Composite
	c19Register
	c19Unregister
)

var c19OpNames = []string{"Get", "FindMissing", "Put", "GetCapabilities", "GetFromComposite", "Register", "Unregister"}

type c19Op struct {
	Kind    int
	Name    string
	Obj     int
	Child   int
	Set     []c19Key
	Payload []byte
	Fault   *c19Fault
	Spec    c19Spec
	Sel     int
}

func (o *c19Op) String() string {
	s := c19OpNames[o.Kind]
	switch o.Kind {
	case c19Get, c19Put:
		s += fmt.Sprintf("(%q,o%d)", o.Name, o.Obj)
	case c19Find:
		s += c19KeysString(o.Set)
	case c19Caps:
		s += fmt.Sprintf("(%q)", o.Name)
	case c19Composite:
		s += fmt.Sprintf("(%q,o%d,child o%d)", o.Name, o.Obj, o.Child)
	case c19Register:
		s += fmt.Sprintf("(%q->%q)", o.Spec.Prefix, o.Spec.Rewrite)
	case c19Unregister:
		s += fmt.Sprintf("(#%d)", o.Sel)
	}
	if o.Fault != nil {
		s += " " + o.Fault.String()
	}
	return s
}

func c19DrawObjs(t *sim.Tape) []c19Obj {
	n := 1 + t.Choose(3)
	var objs []c19Obj
	for i := 0; i < n; i++ {
		fn := AllDigestFunctions[t.Choose(len(AllDigestFunctions))]
		size := []int64{5, 0, 42, 1000, 123456789}[t.Choose(5)]
		objs = append(objs, c19Obj{Fn: fn, Hash: RefHash(fn, []byte(fmt.Sprintf("c19-object-%d", i))), Size: size})
	}
	return objs
}

func c19ObjsString(objs []c19Obj) string {
	var parts []string
	for i, o := range objs {
		parts = append(parts, fmt.Sprintf("o%d=%v/%s…/%d", i, o.Fn, o.Hash[:6], o.Size))
	}
	return strings.Join(parts, " ")
}

func c19DrawName(t *sim.Tape) string { return c19NamePool[t.Choose(len(c19NamePool))] }

// c19DrawOps draws the workload. known lists the caller names that have a
// route in the initial configuration: names are biased towards them so that
// multi-name FindMissing calls are not mostly rejected.
func c19DrawOps(t, ft *sim.Tape, nObj int, dynamic, faults bool, maxOps int, known []string) []*c19Op {
	n := 1 + t.Choose(maxOps)
	var ops []*c19Op
	isKnown := map[string]bool{}
	for _, k := range known {
		isKnown[k] = true
	}
	c19DrawName := func(t *sim.Tape) string {
		name := c19NamePool[t.Choose(len(c19NamePool))]
		if !isKnown[name] && len(known) > 0 && t.Chance(3, 4) {
			name = known[t.Choose(len(known))]
		}
		return name
	}
	for i := 0; i < n; i++ {
		op := &c19Op{}
		wReg := 0
		if dynamic {
			wReg = 1
		}
		op.Kind = t.Pick(4, 4, 3, 1, 1, wReg, wReg)
		switch op.Kind {
		case c19Get, c19Caps:
			op.Name, op.Obj = c19DrawName(t), t.Choose(nObj)
		case c19Put:
			op.Name, op.Obj = c19DrawName(t), t.Choose(nObj)
			op.Payload = []byte(fmt.Sprintf("put#%d", i))
		case c19Composite:
			op.Name, op.Obj, op.Child = c19DrawName(t), t.Choose(nObj), t.Choose(nObj)
		case c19Find:
			k := t.Choose(7)
			for j := 0; j < k; j++ {
				op.Set = append(op.Set, c19Key{Inst: c19DrawName(t), Obj: t.Choose(nObj)})
			}
		case c19Register:
			op.Spec = c19Spec{Prefix: c19PrefixPool[t.Choose(len(c19PrefixPool))], Rewrite: c19RewritePool[t.Choose(len(c19RewritePool))]}
		case c19Unregister:
			op.Sel = t.Choose(8)
		}
		if faults && op.Kind <= c19Composite && ft.Chance(1, 2) {
			f := &c19Fault{Backend: -1, Name: "*", Code: c19FaultCodes[ft.Choose(len(c19FaultCodes))]}
			switch ft.Choose(3) {
			case 1:
				f.Backend = ft.Choose(6)
			case 2:
				f.Name = ""
				if ft.Chance(2, 3) {
					f.Name = []string{"a", "x", "x/y", "a/b", "b", "ab", "x/b", "c"}[ft.Choose(8)]
				}
			}
			op.Fault = f
		}
		ops = append(ops, op)
	}
	return ops
}

func c19OpsString(ops []*c19Op) string {
	var parts []string
	for _, o := range ops {
		parts = append(parts, o.String())
	}
	return strings.Join(parts, "; ")
}

// ---- result helpers ----

func c19BadClass(bad string) string {
	if strings.HasPrefix(bad, "FindMissing result") {
		return "malformed-digest-in-result"
	}
	return "malformed-digest-at-backend"
}

// c19ReadAll consumes a buffer completely, rotating through the consumption
// methods (a deterministic counter: the decorators' error handling differs
// between them).
var c19ReadCount int

func c19ReadAll(b buffer.Buffer) ([]byte, error) {
	c19ReadCount++
	switch c19ReadCount % 3 {
	case 1:
		r := b.ToReader()
		defer r.Close()
		return io.ReadAll(r)
	case 2:
		r := b.ToChunkReader(0, 7)
		defer r.Close()
		var data []byte
		for {
			chunk, err := r.Read()
			if err == io.EOF {
				return data, nil
			}
			if err != nil {
				return nil, err
			}
			data = append(data, chunk...)
		}
	}
	return b.ToByteSlice(1 << 20)
}

func c19ErrString(err error) string {
	if err == nil {
		return "ok"
	}
	return fmt.Sprintf("error(%v)", Code(err))
}

// decodeResultSet turns a FindMissing result into sorted keys.
func (w *c19World) decodeResultSet(s digest.Set) ([]c19Key, bool) {
	var out []c19Key
	for _, d := range s.Items() {
		k, ok := w.decode(d, "FindMissing result")
		if !ok {
			return nil, false
		}
		out = append(out, k)
	}
	return c19SortKeys(out), true
}

func c19DedupKeys(ks []c19Key) []c19Key {
	s := c19SortKeys(ks)
	var out []c19Key
	for i, k := range s {
		if i == 0 || k != s[i-1] {
			out = append(out, k)
		}
	}
	return out
}

func (w *c19World) buildSet(ks []c19Key) digest.Set {
	sb := digest.NewSetBuilder(0)
	for _, k := range ks {
		sb.Add(w.digestOf(k.Inst, k.Obj))
	}
	return sb.Build()
}

// checkErrorPropagated: the injected backend error must come back as an
// error (and not as "object absent").
func c19CheckFaultOutcome(c *sim.RunCtx, err error, f *c19Fault, what, desc string) bool {
	if err == nil {
		c.Fail("backend-error-swallowed", "%s succeeded although the backend call failed with %v [%s]", what, f.Code, desc)
		return false
	}
	if Code(err) == codes.NotFound {
		c.Fail("backend-error-turned-into-not-found", "%s: backend error %v came back as NOT_FOUND: %v [%s]", what, f.Code, err, desc)
		return false
	}
	if Code(err) != f.Code {
		c.Count("note_error_code_changed", 1)
	}
	c.Count("fault_backend_error", 1)
	return true
}

// ---- demultiplexer: one operation with its oracle ----

func c19DemuxOp(c *sim.RunCtx, dm *c19Demux, idx int, op *c19Op) {
	w := dm.w
	ctx := context.Background()
	desc := fmt.Sprintf("op %d %s; routes %s", idx, op, dm.describe())

	if op.Kind == c19Register {
		dm.register(op.Spec)
		c.Count("probe_trie_insert", 1)
		c.Note("op %d %s", idx, op)
		return
	}
	if op.Kind == c19Unregister {
		act := dm.activeRegs()
		if len(act) == 0 {
			return
		}
		i := act[op.Sel%len(act)]
		dm.regs[i].Active = false
		empty := dm.trie.Remove(c19MustName(dm.regs[i].Prefix))
		c.Count("probe_trie_remove", 1)
		c.Note("op %d Unregister(%q) empty=%v", idx, dm.regs[i].Prefix, empty)
		if empty != (len(dm.activeRegs()) == 0) {
			c.Fail("trie-remove-empty-flag", "Remove(%q) reported empty=%v, %d registrations remain [%s]", dm.regs[i].Prefix, empty, len(dm.activeRegs()), desc)
		}
		return
	}

	// coverage of the interesting routing situations
	probeName := func(n string) {
		comp, strOnly := c19Matching(dm.regs, n)
		if comp >= 2 {
			c.Count("probe_longest_prefix_choice", 1)
			c.Nontrivial = true
		}
		if strOnly > 0 {
			c.Count("probe_string_not_component_prefix", 1)
			c.Nontrivial = true
		}
		if b, p, ok := dm.locate(n); ok {
			_ = b
			if p != n {
				c.Count("probe_rewrite_applied", 1)
				c.Nontrivial = true
			}
		}
	}

	w.beginOp(op.Fault)
	var expCalls []c19Call
	unknown := false
	checkCalls := func(faulty bool) bool {
		calls := w.sortedCalls()
		c.Logf("  backend calls: %s", c19CallsString(calls))
		if op.Kind == c19Find {
			// how many calls a backend receives is not part of the statement
			// (two prefixes may share one backend): what each backend was
			// asked about, in which names, is
			var merged []c19Call
			for _, g := range calls {
				if n := len(merged); n > 0 && merged[n-1].Backend == g.Backend && merged[n-1].Op == g.Op && g.Op == "FindMissing" {
					merged[n-1].Keys = c19DedupKeys(append(append([]c19Key{}, merged[n-1].Keys...), g.Keys...))
					continue
				}
				merged = append(merged, g)
			}
			calls = merged
		}
		if w.bad != "" {
			c.Fail(c19BadClass(w.bad), "%s [%s]", w.bad, desc)
			return false
		}
		if unknown {
			if len(calls) != 0 {
				c.Fail("unknown-name-backend-contacted", "a backend was contacted for an unknown instance name: %s [%s]", c19CallsString(calls), desc)
				return false
			}
			return true
		}
		sort.SliceStable(expCalls, func(i, j int) bool { return expCalls[i].Backend < expCalls[j].Backend })
		got, want := c19CallsString(calls), c19CallsString(expCalls)
		if got == want {
			return true
		}
		if faulty && op.Kind == c19Find {
			// the fan-out stops at the failing backend: a subset is fine
			wantSet := map[string]bool{}
			for _, e := range expCalls {
				for _, k := range e.Keys {
					wantSet[fmt.Sprintf("%d/%s/%s", e.Backend, e.Op, k)] = true
				}
			}
			for _, g := range calls {
				for _, k := range g.Keys {
					if !wantSet[fmt.Sprintf("%d/%s/%s", g.Backend, g.Op, k)] {
						c.Fail("misrouted", "backend calls %s, expected a subset of %s [%s]", got, want, desc)
						return false
					}
				}
			}
			return true
		}
		// classify
		class := "wrong-patched-name"
		gb, wb := map[int]bool{}, map[int]bool{}
		for _, g := range calls {
			gb[g.Backend] = true
		}
		for _, e := range expCalls {
			wb[e.Backend] = true
		}
		if len(gb) != len(wb) {
			class = "misrouted"
		}
		for b := range gb {
			if !wb[b] {
				class = "misrouted"
			}
		}
		c.Fail(class, "backend calls %s, expected %s [%s]", got, want, desc)
		return false
	}
	rejectCheck := func(err error, what string) bool {
		c.Count("probe_unknown_rejected", 1)
		c.Nontrivial = true
		if err == nil {
			c.Fail("unknown-name-not-rejected", "%s for an instance name without registered prefix succeeded [%s]", what, desc)
			return false
		}
		return true
	}

	switch op.Kind {
	case c19Get, c19Composite:
		probeName(op.Name)
		b, p, ok := dm.locate(op.Name)
		unknown = !ok
		var buf buffer.Buffer
		if op.Kind == c19Get {
			buf = dm.ba.Get(ctx, w.digestOf(op.Name, op.Obj))
		} else {
			buf = dm.ba.GetFromComposite(ctx, w.digestOf(op.Name, op.Obj), w.digestOf(op.Name, op.Child), nil)
		}
		data, err := c19ReadAll(buf)
		c.Note("op %d %s -> %s %q", idx, op, c19ErrString(err), data)
		if unknown {
			if rejectCheck(err, c19OpNames[op.Kind]) {
				checkCalls(false)
			}
			return
		}
		faulty := op.Fault.matches(b, p)
		if op.Kind == c19Get {
			expCalls = []c19Call{{Backend: b, Op: "Get", Keys: []c19Key{{p, op.Obj}}}}
		} else {
			expCalls = []c19Call{{Backend: b, Op: "GetFromComposite", Keys: []c19Key{{p, op.Obj}}, Child: &c19Key{p, op.Child}}}
		}
		if !checkCalls(faulty) {
			return
		}
		if faulty {
			c19CheckFaultOutcome(c, err, op.Fault, c19OpNames[op.Kind], desc)
			return
		}
		want, stored := w.backends[b].store[c19Key{p, op.Obj}]
		if stored && op.Kind == c19Composite {
			want = c19CompositeContent(want, c19Key{p, op.Child})
		}
		if stored {
			c.Count("probe_demux_read_ok", 1)
			if err != nil {
				c.Fail("spurious-error", "%s failed with %v although backend %d holds the object under %q [%s]", c19OpNames[op.Kind], err, b, p, desc)
			} else if !bytes.Equal(data, want) {
				c.Fail("wrong-result", "%s returned %q, backend %d holds %q under %q [%s]", c19OpNames[op.Kind], data, b, want, p, desc)
			}
		} else {
			if err == nil {
				c.Fail("wrong-result", "%s returned %q although backend %d has nothing under %q [%s]", c19OpNames[op.Kind], data, b, p, desc)
			} else if Code(err) != codes.NotFound {
				c.Fail("not-found-not-propagated", "backend %d answered NOT_FOUND, caller got %v [%s]", b, err, desc)
			}
		}
	case c19Put:
		probeName(op.Name)
		b, p, ok := dm.locate(op.Name)
		unknown = !ok
		err := dm.ba.Put(ctx, w.digestOf(op.Name, op.Obj), buffer.NewValidatedBufferFromByteSlice(op.Payload))
		c.Note("op %d %s -> %s", idx, op, c19ErrString(err))
		if unknown {
			if rejectCheck(err, "Put") {
				checkCalls(false)
			}
			return
		}
		faulty := op.Fault.matches(b, p)
		expCalls = []c19Call{{Backend: b, Op: "Put", Keys: []c19Key{{p, op.Obj}}}}
		if !checkCalls(faulty) {
			return
		}
		if faulty {
			c19CheckFaultOutcome(c, err, op.Fault, "Put", desc)
			return
		}
		if err != nil {
			c.Fail("spurious-error", "Put failed: %v [%s]", err, desc)
		} else if got := w.backends[b].store[c19Key{p, op.Obj}]; !bytes.Equal(got, op.Payload) {
			c.Fail("put-misplaced", "after Put backend %d holds %q under %q, want %q [%s]", b, got, p, op.Payload, desc)
		}
	case c19Caps:
		probeName(op.Name)
		b, p, ok := dm.locate(op.Name)
		unknown = !ok
		caps, err := dm.ba.GetCapabilities(ctx, c19MustName(op.Name))
		c.Note("op %d %s -> %s %d", idx, op, c19ErrString(err), caps.GetCacheCapabilities().GetMaxBatchTotalSizeBytes())
		if unknown {
			if rejectCheck(err, "GetCapabilities") {
				checkCalls(false)
			}
			return
		}
		faulty := op.Fault.matches(b, p)
		expCalls = []c19Call{{Backend: b, Op: "GetCapabilities", Keys: []c19Key{{p, -1}}}}
		if !checkCalls(faulty) {
			return
		}
		if faulty {
			c19CheckFaultOutcome(c, err, op.Fault, "GetCapabilities", desc)
			return
		}
		if err != nil {
			c.Fail("spurious-error", "GetCapabilities failed: %v [%s]", err, desc)
		} else if v := caps.GetCacheCapabilities().GetMaxBatchTotalSizeBytes(); v != c19CapsValue(b) {
			c.Fail("wrong-result", "GetCapabilities returned the answer of backend %d, expected backend %d [%s]", v-1000, b, desc)
		}
	case c19Find:
		set := c19DedupKeys(op.Set)
		perBackend := map[int][]c19Key{}
		var order []int
		var expMissing []c19Key
		faulty := false
		for _, k := range set {
			probeName(k.Inst)
			b, p, ok := dm.locate(k.Inst)
			if !ok {
				unknown = true
				continue
			}
			if _, seen := perBackend[b]; !seen {
				order = append(order, b)
			}
			perBackend[b] = append(perBackend[b], c19Key{p, k.Obj})
			if op.Fault.matches(b, p) {
				faulty = true
			}
			if _, stored := w.backends[b].store[c19Key{p, k.Obj}]; !stored {
				expMissing = append(expMissing, k)
			}
		}
		sort.Ints(order)
		for _, b := range order {
			expCalls = append(expCalls, c19Call{Backend: b, Op: "FindMissing", Keys: c19DedupKeys(perBackend[b])})
		}
		if len(order) >= 2 && !unknown && !faulty {
			c.Count("probe_findmissing_multi_backend", 1)
			c.Nontrivial = true
		}
		res, err := dm.ba.FindMissing(ctx, w.buildSet(set))
		got, okSet := w.decodeResultSet(res)
		c.Note("op %d %s -> %s %s", idx, op, c19ErrString(err), c19KeysString(got))
		if unknown {
			if rejectCheck(err, "FindMissing") {
				checkCalls(false)
			}
			return
		}
		if !checkCalls(faulty) {
			return
		}
		if !okSet {
			c.Fail("malformed-digest-in-result", "%s [%s]", w.bad, desc)
			return
		}
		if faulty {
			c19CheckFaultOutcome(c, err, op.Fault, "FindMissing", desc)
			return
		}
		if err != nil {
			c.Fail("spurious-error", "FindMissing failed: %v [%s]", err, desc)
			return
		}
		expMissing = c19SortKeys(expMissing)
		if c19KeysString(got) != c19KeysString(expMissing) {
			c.Fail("findmissing-wrong-result", "FindMissing returned %s, the backends' answers in the caller's names are %s [%s]", c19KeysString(got), c19KeysString(expMissing), desc)
			return
		}
		if len(expMissing) > 0 && len(expMissing) < len(set) {
			c.Count("probe_findmissing_mixed_answer", 1)
		}
	}
}

type c19Placement struct {
	Backend int
	Key     c19Key
}

func c19PlacementsString(ps []c19Placement) string {
	var parts []string
	for _, p := range ps {
		parts = append(parts, fmt.Sprintf("b%d:%s", p.Backend, p.Key))
	}
	return strings.Join(parts, " ")
}

func c19CopyContent(p c19Placement, serial int) []byte {
	return []byte(fmt.Sprintf("copy#%d@b%d:%s", serial, p.Backend, p.Key))
}

func c19DrawSpecs(t *sim.Tape, withRoot bool) []c19Spec {
	n := 1 + t.Choose(5)
	var specs []c19Spec
	seen := map[string]bool{}
	if withRoot {
		specs = append(specs, c19Spec{Prefix: "", Rewrite: c19RewritePool[t.Choose(len(c19RewritePool))]})
		seen[""] = true
	}
	for i := 0; i < n; i++ {
		p := c19PrefixPool[t.Choose(len(c19PrefixPool))]
		rw := c19RewritePool[t.Choose(len(c19RewritePool))]
		if seen[p] {
			continue
		}
		seen[p] = true
		specs = append(specs, c19Spec{Prefix: p, Rewrite: rw, Alias: t.Chance(1, 4)})
	}
	return specs
}

// c19DrawDemuxPlacements places objects where the reference routing says a
// caller's name leads (mode 0), and decoys under the right name in a wrong
// backend (1) or under the unpatched name in the right backend (2).
func c19DrawDemuxPlacements(t *sim.Tape, dm *c19Demux, nObj, max int) []c19Placement {
	k := t.Choose(max + 1)
	var out []c19Placement
	for i := 0; i < k; i++ {
		name, obj := c19DrawName(t), t.Choose(nObj)
		mode := t.Pick(4, 1, 1)
		b, p, ok := dm.locate(name)
		if !ok {
			b, p = t.Choose(len(dm.w.backends)), name
		} else if mode == 1 {
			b = (b + 1 + t.Choose(len(dm.w.backends))) % len(dm.w.backends)
		} else if mode == 2 {
			p = name
		}
		out = append(out, c19Placement{Backend: b, Key: c19Key{p, obj}})
	}
	return out
}

func c19DemuxProfile(faults bool) func(c *sim.RunCtx) {
	return func(c *sim.RunCtx) {
		t := c.T.Plan
		config := t.Choose(2) == 1
		ac := t.Choose(2) == 1
		objs := c19DrawObjs(t)
		specs := c19DrawSpecs(t, false)
		c.Sim(sim.SimOpts{MaxSteps: 20000}, func(s *rt.Sched) {
			w := newC19World(c, objs)
			dm := newC19Demux(w, specs, config, ac, true)
			pls := c19DrawDemuxPlacements(t, dm, len(objs), 14)
			for i, p := range pls {
				w.backends[p.Backend].store[p.Key] = c19CopyContent(p, i)
			}
			var known []string
			for _, n := range c19NamePool {
				if _, _, ok := dm.locate(n); ok {
					known = append(known, n)
				}
			}
			ops := c19DrawOps(t, c.T.Fault, len(objs), !config, faults, 12, known)
			cs := fmt.Sprintf("demux config=%v ac=%v objs[%s] routes %s stored[%s] ops[%s]", config, ac, c19ObjsString(objs), dm.describe(), c19PlacementsString(pls), c19OpsString(ops))
			c.Sample["case"] = cs
			c.Note("case %s", cs)
			if config {
				c.Count("probe_built_by_configuration", 1)
			}
			for i, op := range ops {
				c19DemuxOp(c, dm, i, op)
				if c.Failed() {
					return
				}
			}
		})
	}
}

// ---- an existence cache in front of the demultiplexer, both assembled by
// NewBlobAccessFromConfiguration: the cache must key by what the composite
// behind it announces (instance names matter to a demultiplexer). The stubs'
// contents only grow, so cached presence never goes stale and FindMissing
// must stay exactly the union of what the backends hold. ----

func c19ExistenceOverDemux(c *sim.RunCtx) {
	t := c.T.Plan
	objs := c19DrawObjs(t)
	specs := c19DrawSpecs(t, t.Chance(1, 2))
	c.Sim(sim.SimOpts{MaxSteps: 20000}, func(s *rt.Sched) {
		w := newC19World(c, objs)
		dm := newC19Demux(w, specs, true, false, false)
		oldClock := clock.SystemClock
		clock.SystemClock = sim.NewClock(s)
		defer func() { clock.SystemClock = oldClock }()
		ba := c19FromConfig(w, &pb.BlobAccessConfiguration{Backend: &pb.BlobAccessConfiguration_ExistenceCaching{ExistenceCaching: &pb.ExistenceCachingBlobAccessConfiguration{
			Backend:        c19DemuxConfig(dm.regs),
			ExistenceCache: &digestpb.ExistenceCacheConfiguration{CacheSize: 64, CacheDuration: durationpb.New(1000 * time.Second), CacheReplacementPolicy: evictionpb.CacheReplacementPolicy_LEAST_RECENTLY_USED},
		}}}, false)
		pls := c19DrawDemuxPlacements(t, dm, len(objs), 10)
		for i, p := range pls {
			w.backends[p.Backend].store[p.Key] = c19CopyContent(p, i)
		}
		var known []string
		for _, n := range c19NamePool {
			if _, _, ok := dm.locate(n); ok {
				known = append(known, n)
			}
		}
		if len(known) == 0 {
			return
		}
		cs := fmt.Sprintf("existence cache over demux: objs[%s] routes %s stored[%s]", c19ObjsString(objs), dm.describe(), c19PlacementsString(pls))
		c.Sample["case"] = cs
		c.Note("case %s", cs)
		ctx := context.Background()
		present := func(k c19Key) bool {
			b, patched, ok := dm.locate(k.Inst)
			if !ok {
				return false
			}
			_, has := w.backends[b].store[c19Key{patched, k.Obj}]
			return has
		}
		for i, n := 0, 4+t.Choose(12); i < n && !c.Failed(); i++ {
			w.beginOp(nil)
			if t.Chance(1, 4) {
				k := c19Key{known[t.Choose(len(known))], t.Choose(len(objs))}
				data := []byte(fmt.Sprintf("put-%d", i))
				err := ba.Put(ctx, w.digestOf(k.Inst, k.Obj), buffer.NewValidatedBufferFromByteSlice(data))
				c.Logf("Put(%s) -> %v", k, err)
				if err != nil {
					c.Fail("spurious-error", "Put(%s) failed with %v [%s]", k, err, cs)
				}
				continue
			}
			var ks []c19Key
			for j, m := 0, 1+t.Choose(3); j < m; j++ {
				ks = append(ks, c19Key{known[t.Choose(len(known))], t.Choose(len(objs))})
			}
			ks = c19DedupKeys(ks)
			res, err := ba.FindMissing(ctx, w.buildSet(ks))
			if err != nil {
				c.Fail("spurious-error", "FindMissing(%s) failed with %v [%s]", c19KeysString(ks), err, cs)
				return
			}
			got, ok := w.decodeResultSet(res)
			if !ok {
				c.Fail(c19BadClass(w.bad), "%s [%s]", w.bad, cs)
				return
			}
			var want []c19Key
			for _, k := range ks {
				if !present(k) {
					want = append(want, k)
				}
			}
			want = c19SortKeys(want)
			c.Logf("FindMissing(%s) -> %s (backends hold all but %s)", c19KeysString(ks), c19KeysString(got), c19KeysString(want))
			if c19KeysString(got) != c19KeysString(want) {
				c.Fail("existence-cache-changes-findmissing", "FindMissing(%s) through an existence cache in front of the demultiplexer returned %s, but the backends are missing exactly %s (contents only grew, so no cached answer can be stale) [%s]", c19KeysString(ks), c19KeysString(got), c19KeysString(want), cs)
				return
			}
			c.Count("probe_existence_cache_over_demux_findmissing", 1)
		}
	})
	c.Nontrivial = true
}

// ---- hierarchical instance names ----

type c19Hier struct {
	w  *c19World
	ba blobstore.BlobAccess
	dm *c19Demux // nil: a single stub backend is the base
}

func (h *c19Hier) locate(n string) (int, string, bool) {
	if h.dm == nil {
		return 0, n, true
	}
	return h.dm.locate(n)
}

func (h *c19Hier) describe() string {
	if h.dm == nil {
		return "single-backend"
	}
	return "over-demux" + h.dm.describe()
}

// lookup is the reference for "the object under the most specific ancestor
// that has it": it walks the ancestors over the stubs' actual contents.
// faulted reports that the walk reaches a location whose backend call fails.
func (h *c19Hier) lookup(name string, obj int, f *c19Fault) (data []byte, at int, holders int, faulted bool) {
	at = -1
	for i, n := range c19Ancestors(name) {
		b, p, ok := h.locate(n)
		if !ok {
			panic(sim.HarnessError{Msg: "hierarchical base with unknown name"})
		}
		if at < 0 && !faulted && f.matches(b, p) {
			faulted = true
		}
		if d, ok := h.w.backends[b].store[c19Key{p, obj}]; ok {
			holders++
			if at < 0 && !faulted {
				data, at = d, i
			}
		}
	}
	return
}

func c19HierOp(c *sim.RunCtx, h *c19Hier, idx int, op *c19Op) {
	w := h.w
	ctx := context.Background()
	desc := fmt.Sprintf("op %d %s; %s", idx, op, h.describe())
	w.beginOp(op.Fault)
	finish := func() bool {
		c.Logf("  backend calls: %s", c19CallsString(w.sortedCalls()))
		if w.bad != "" {
			c.Fail(c19BadClass(w.bad), "%s [%s]", w.bad, desc)
			return false
		}
		return true
	}
	switch op.Kind {
	case c19Get, c19Composite:
		want, at, holders, faulted := h.lookup(op.Name, op.Obj, op.Fault)
		if at >= 0 && op.Kind == c19Composite {
			// the child is asked for under the same (located) name as the parent
			_, p, _ := h.locate(c19Ancestors(op.Name)[at])
			want = c19CompositeContent(want, c19Key{p, op.Child})
		}
		var buf buffer.Buffer
		if op.Kind == c19Get {
			buf = h.ba.Get(ctx, w.digestOf(op.Name, op.Obj))
		} else {
			buf = h.ba.GetFromComposite(ctx, w.digestOf(op.Name, op.Obj), w.digestOf(op.Name, op.Child), nil)
		}
		data, err := c19ReadAll(buf)
		c.Note("op %d %s -> %s %q", idx, op, c19ErrString(err), data)
		if !finish() {
			return
		}
		what := c19OpNames[op.Kind]
		switch {
		case faulted:
			if w.fired == 0 {
				// the decorator answered without asking where the reference
				// walk would have asked: only legitimate if the answer is right,
				// which it cannot know; flag it
				c.Fail("hier-ancestor-not-consulted", "%s answered %s %q without consulting a more specific ancestor [%s]", what, c19ErrString(err), data, desc)
				return
			}
			c19CheckFaultOutcome(c, err, op.Fault, "hierarchical "+what, desc)
			c.Nontrivial = true
		case at >= 0:
			if err != nil {
				c.Fail("hier-spurious-error", "%s failed with %v although %q (ancestor #%d) holds the object [%s]", what, err, c19Ancestors(op.Name)[at], at, desc)
				return
			}
			if !bytes.Equal(data, want) {
				c.Fail("hier-wrong-copy", "%s returned %q; the most specific ancestor holding the object is %q with %q [%s]", what, data, c19Ancestors(op.Name)[at], want, desc)
				return
			}
			c.Count("probe_hier_read_ok", 1)
			if at > 0 {
				c.Count("probe_hier_fallback_to_ancestor", 1)
				c.Nontrivial = true
			}
			if holders >= 2 {
				c.Count("probe_hier_most_specific_of_several", 1)
				c.Nontrivial = true
			}
		default:
			if err == nil {
				c.Fail("hier-found-but-absent", "%s returned %q although neither the name nor an ancestor holds the object [%s]", what, data, desc)
				return
			}
			if Code(err) != codes.NotFound {
				c.Fail("not-found-not-propagated", "object absent under the name and all ancestors, caller got %v [%s]", err, desc)
				return
			}
			if len(c19Comps(op.Name)) > 0 {
				c.Count("probe_hier_absent_everywhere", 1)
			}
		}
	case c19Put:
		err := h.ba.Put(ctx, w.digestOf(op.Name, op.Obj), buffer.NewValidatedBufferFromByteSlice(op.Payload))
		c.Note("op %d %s -> %s", idx, op, c19ErrString(err))
		if !finish() {
			return
		}
		if w.fired > 0 {
			c19CheckFaultOutcome(c, err, op.Fault, "hierarchical Put", desc)
		} else if err != nil {
			c.Fail("hier-spurious-error", "Put failed: %v [%s]", err, desc)
		}
	case c19Caps:
		_, err := h.ba.GetCapabilities(ctx, c19MustName(op.Name))
		c.Note("op %d %s -> %s", idx, op, c19ErrString(err))
		finish()
	case c19Find:
		set := c19DedupKeys(op.Set)
		var expMissing []c19Key
		viaAncestor := false
		for _, k := range set {
			_, at, _, _ := h.lookup(k.Inst, k.Obj, nil)
			if at < 0 {
				expMissing = append(expMissing, k)
			} else if at > 0 {
				viaAncestor = true
			}
		}
		res, err := h.ba.FindMissing(ctx, w.buildSet(set))
		got, okSet := w.decodeResultSet(res)
		c.Note("op %d %s -> %s %s", idx, op, c19ErrString(err), c19KeysString(got))
		if !finish() {
			return
		}
		if !okSet {
			c.Fail("malformed-digest-in-result", "%s [%s]", w.bad, desc)
			return
		}
		if w.fired > 0 {
			c19CheckFaultOutcome(c, err, op.Fault, "hierarchical FindMissing", desc)
			c.Nontrivial = true
			return
		}
		if err != nil {
			c.Fail("hier-spurious-error", "FindMissing failed: %v [%s]", err, desc)
			return
		}
		if c19KeysString(got) != c19KeysString(c19SortKeys(expMissing)) {
			c.Fail("hier-findmissing-wrong-result", "FindMissing returned %s; missing under the name and all ancestors are %s [%s]", c19KeysString(got), c19KeysString(c19SortKeys(expMissing)), desc)
			return
		}
		if viaAncestor {
			c.Count("probe_hier_present_via_ancestor", 1)
			c.Nontrivial = true
		}
		if len(expMissing) > 0 {
			c.Count("probe_hier_missing_everywhere", 1)
		}
	}
}

func c19HierConfig(inner *pb.BlobAccessConfiguration) *pb.BlobAccessConfiguration {
	return &pb.BlobAccessConfiguration{Backend: &pb.BlobAccessConfiguration_HierarchicalInstanceNames{HierarchicalInstanceNames: inner}}
}

// newC19Hier builds the decorator over a single stub or over a
// demultiplexer that knows every name (the empty prefix is registered).
func newC19Hier(w *c19World, specs []c19Spec, overDemux, config bool) *c19Hier {
	h := &c19Hier{w: w}
	if !overDemux {
		w.addBackend()
		if config {
			h.ba = c19FromConfig(w, c19HierConfig(c19LabelConfig(0)), true)
		} else {
			h.ba = blobstore.NewHierarchicalInstanceNamesBlobAccess(w.backends[0])
		}
		return h
	}
	h.dm = newC19Demux(w, specs, config, true, false)
	if config {
		h.ba = c19FromConfig(w, c19HierConfig(c19DemuxConfig(h.dm.regs)), true)
	} else {
		h.ba = blobstore.NewHierarchicalInstanceNamesBlobAccess(h.dm.ba)
	}
	return h
}

func c19HierProfile(faults bool) func(c *sim.RunCtx) {
	return func(c *sim.RunCtx) {
		t := c.T.Plan
		config := t.Choose(2) == 1
		overDemux := t.Choose(3) == 2
		objs := c19DrawObjs(t)
		var specs []c19Spec
		if overDemux {
			specs = c19DrawSpecs(t, true)
		}
		c.Sim(sim.SimOpts{MaxSteps: 20000}, func(s *rt.Sched) {
			w := newC19World(c, objs)
			h := newC19Hier(w, specs, overDemux, config)
			// placements: copies of the objects under arbitrary names of the tree
			k := t.Choose(13)
			var pls []c19Placement
			for i := 0; i < k; i++ {
				name, obj := c19DrawName(t), t.Choose(len(objs))
				b, p, _ := h.locate(name)
				pl := c19Placement{Backend: b, Key: c19Key{p, obj}}
				pls = append(pls, pl)
				w.backends[b].store[pl.Key] = c19CopyContent(pl, i)
			}
			ops := c19DrawOps(t, c.T.Fault, len(objs), false, faults, 12, nil)
			cs := fmt.Sprintf("hier config=%v %s objs[%s] stored[%s] ops[%s]", config, h.describe(), c19ObjsString(objs), c19PlacementsString(pls), c19OpsString(ops))
			c.Sample["case"] = cs
			c.Note("case %s", cs)
			if config {
				c.Count("probe_built_by_configuration", 1)
			}
			for i, op := range ops {
				c19HierOp(c, h, i, op)
				if c.Failed() {
					return
				}
			}
		})
	}
}

// ---- trie: insert/remove events interleaved with lookups ----

type c19TrieRef struct {
	names []string // insertion order, for deterministic iteration
	vals  map[string]int
}

func (r *c19TrieRef) set(n string, v int) {
	if _, ok := r.vals[n]; !ok {
		r.names = append(r.names, n)
	}
	r.vals[n] = v
}

func (r *c19TrieRef) remove(n string) {
	delete(r.vals, n)
	for i, x := range r.names {
		if x == n {
			r.names = append(r.names[:i:i], r.names[i+1:]...)
			break
		}
	}
}

func (r *c19TrieRef) exact(n string) int {
	if v, ok := r.vals[n]; ok {
		return v
	}
	return -1
}

func (r *c19TrieRef) longest(n string) int {
	for _, a := range c19Ancestors(n) {
		if v, ok := r.vals[a]; ok {
			return v
		}
	}
	return -1
}

func (r *c19TrieRef) String() string {
	var parts []string
	for _, n := range r.names {
		parts = append(parts, fmt.Sprintf("%q=%d", n, r.vals[n]))
	}
	return "{" + strings.Join(parts, " ") + "}"
}

// c19TrieCheck compares every lookup kind for every name of the pool.
func c19TrieCheck(c *sim.RunCtx, tr *digest.InstanceNameTrie, ref *c19TrieRef, names []string, history string) bool {
	for _, n := range names {
		in := c19MustName(n)
		if got, want := tr.GetExact(in), ref.exact(n); got != want {
			c.Fail("trie-lookup-mismatch", "GetExact(%q) = %d, want %d; trie content %s after %s", n, got, want, ref, history)
			return false
		}
		if got, want := tr.GetLongestPrefix(in), ref.longest(n); got != want {
			c.Fail("trie-lookup-mismatch", "GetLongestPrefix(%q) = %d, want %d; trie content %s after %s", n, got, want, ref, history)
			return false
		}
		if got, want := tr.ContainsExact(in), ref.exact(n) >= 0; got != want {
			c.Fail("trie-lookup-mismatch", "ContainsExact(%q) = %v, want %v; trie content %s after %s", n, got, want, ref, history)
			return false
		}
		if got, want := tr.ContainsPrefix(in), ref.longest(n) >= 0; got != want {
			c.Fail("trie-lookup-mismatch", "ContainsPrefix(%q) = %v, want %v; trie content %s after %s", n, got, want, ref, history)
			return false
		}
	}
	return true
}

func c19TrieRemove(c *sim.RunCtx, tr *digest.InstanceNameTrie, ref *c19TrieRef, n string, history string) bool {
	// interesting shapes: the removed name has registered descendants, or
	// valueless ancestors that only exist for it
	for _, o := range ref.names {
		if o != n && c19IsCompPrefix(n, o) {
			c.Count("probe_trie_remove_interior", 1)
			break
		}
	}
	ref.remove(n)
	empty := tr.Remove(c19MustName(n))
	c.Count("probe_trie_remove", 1)
	if empty != (len(ref.names) == 0) {
		c.Fail("trie-remove-empty-flag", "Remove(%q) reported empty=%v, content is %s after %s", n, empty, ref, history)
		return false
	}
	return true
}

func c19TrieProfile(c *sim.RunCtx) {
	t := c.T.Plan
	nOps := 1 + t.Choose(30)
	c.Sim(sim.SimOpts{MaxSteps: 20000}, func(s *rt.Sched) {
		tr := digest.NewInstanceNameTrie()
		ref := &c19TrieRef{vals: map[string]int{}}
		var hist []string
		removed := 0
		for i := 0; i < nOps; i++ {
			if len(ref.names) > 0 && t.Chance(2, 5) {
				n := ref.names[t.Choose(len(ref.names))]
				hist = append(hist, fmt.Sprintf("Remove(%q)", n))
				c.Note("%s", hist[len(hist)-1])
				if !c19TrieRemove(c, tr, ref, n, strings.Join(hist, " ")) {
					return
				}
				removed++
			} else {
				n, v := c19DrawName(t), t.Choose(10)
				hist = append(hist, fmt.Sprintf("Set(%q,%d)", n, v))
				c.Note("%s", hist[len(hist)-1])
				tr.Set(c19MustName(n), v)
				ref.set(n, v)
				c.Count("probe_trie_insert", 1)
			}
			rt.Yield("trie.check")
			if !c19TrieCheck(c, tr, ref, c19NamePool, strings.Join(hist, " ")) {
				return
			}
		}
		c.Sample["case"] = "trie " + strings.Join(hist, " ")
		if removed > 0 && len(ref.names) > 0 {
			c.Nontrivial = true
		}
	})
}

// ---- exhaustive small cases (prologue) ----

var c19SmallPrefixes = []string{"", "a", "a/b", "ab", "a/b/c", "b"}

func c19Permutations(xs []string, f func([]string) bool) bool {
	var rec func(k int) bool
	p := append([]string{}, xs...)
	rec = func(k int) bool {
		if k == len(p) {
			return f(p)
		}
		for i := k; i < len(p); i++ {
			p[k], p[i] = p[i], p[k]
			if !rec(k + 1) {
				return false
			}
			p[k], p[i] = p[i], p[k]
		}
		return true
	}
	return rec(0)
}

func c19Exhaustive(c *sim.RunCtx) {
	cases := 0
	// E1: every subset of six prefixes, inserted in two orders, removed in
	// every order; all four lookups for every pool name after every step
	c.Sim(sim.SimOpts{MaxSteps: 1000000}, func(s *rt.Sched) {
		for mask := 0; mask < 1<<len(c19SmallPrefixes); mask++ {
			var sub []string
			for i, p := range c19SmallPrefixes {
				if mask&(1<<i) != 0 {
					sub = append(sub, p)
				}
			}
			for rev := 0; rev < 2; rev++ {
				ins := append([]string{}, sub...)
				if rev == 1 {
					for i, j := 0, len(ins)-1; i < j; i, j = i+1, j-1 {
						ins[i], ins[j] = ins[j], ins[i]
					}
				}
				ok := c19Permutations(sub, func(order []string) bool {
					tr := digest.NewInstanceNameTrie()
					ref := &c19TrieRef{vals: map[string]int{}}
					hist := ""
					for i, n := range ins {
						tr.Set(c19MustName(n), i)
						ref.set(n, i)
						hist += fmt.Sprintf("Set(%q,%d) ", n, i)
					}
					if !c19TrieCheck(c, tr, ref, c19NamePool, hist) {
						return false
					}
					for _, n := range order {
						hist += fmt.Sprintf("Remove(%q) ", n)
						if !c19TrieRemove(c, tr, ref, n, hist) || !c19TrieCheck(c, tr, ref, c19NamePool, hist) {
							return false
						}
					}
					cases++
					return true
				})
				if !ok {
					return
				}
			}
		}
	})
	c.Stats["exhaustive_trie_sequences"] = cases
	if c.Failed() {
		return
	}

	// E2: every non-empty subset of the prefixes x four rewrite assignments x
	// both ways of building: every pool name is read, written and asked for
	// capabilities; FindMissing over all names at once, and over the known ones
	objs := []c19Obj{
		{Fn: AllDigestFunctions[0], Hash: RefHash(AllDigestFunctions[0], []byte("e0")), Size: 7},
		{Fn: AllDigestFunctions[1], Hash: RefHash(AllDigestFunctions[1], []byte("e1")), Size: 123456},
	}
	demuxCases := 0
	for mask := 1; mask < 1<<len(c19SmallPrefixes); mask++ {
		for rot := 0; rot < 4; rot++ {
			for build := 0; build < 2; build++ {
				var specs []c19Spec
				for i, p := range c19SmallPrefixes {
					if mask&(1<<i) != 0 {
						specs = append(specs, c19Spec{Prefix: p, Rewrite: c19RewritePool[(i+rot)%len(c19RewritePool)]})
					}
				}
				c.Sim(sim.SimOpts{MaxSteps: 100000}, func(s *rt.Sched) {
					w := newC19World(c, objs)
					dm := newC19Demux(w, specs, build == 1, rot%2 == 1, true)
					var all, known []c19Key
					for i, n := range c19NamePool {
						b, p, ok := dm.locate(n)
						for o := range objs {
							all = append(all, c19Key{n, o})
							if ok {
								known = append(known, c19Key{n, o})
							}
						}
						if ok && i%2 == 0 {
							pl := c19Placement{Backend: b, Key: c19Key{p, 0}}
							w.backends[b].store[pl.Key] = c19CopyContent(pl, i)
						}
					}
					ops := []*c19Op{{Kind: c19Find, Set: all}, {Kind: c19Find, Set: known}}
					for i, n := range c19NamePool {
						ops = append(ops, &c19Op{Kind: c19Get, Name: n, Obj: 0}, &c19Op{Kind: c19Caps, Name: n},
							&c19Op{Kind: c19Put, Name: n, Obj: 1, Payload: []byte(fmt.Sprintf("put#%d", i))},
							&c19Op{Kind: c19Composite, Name: n, Obj: 0, Child: 1})
					}
					ops = append(ops, &c19Op{Kind: c19Find, Set: known})
					for i, op := range ops {
						c19DemuxOp(c, dm, i, op)
						if c.Failed() {
							return
						}
					}
				})
				if c.Failed() {
					return
				}
				demuxCases++
			}
		}
	}
	c.Stats["exhaustive_demux_systems"] = demuxCases

	// E3: every placement of an object over the chain "", a, a/b, a/b/c and
	// two side names; Get under every name, FindMissing over all names at once
	// and one by one
	hierNames := []string{"", "a", "a/b", "a/b/c", "ab", "a/c"}
	queries := append(append([]string{}, hierNames...), "a/b/c/a", "a/bc")
	hierCases := 0
	for mask := 0; mask < 1<<len(hierNames); mask++ {
		for build := 0; build < 2; build++ {
			c.Sim(sim.SimOpts{MaxSteps: 100000}, func(s *rt.Sched) {
				w := newC19World(c, objs)
				h := newC19Hier(w, nil, false, build == 1)
				for i, n := range hierNames {
					pl := c19Placement{Backend: 0, Key: c19Key{n, 0}}
					if mask&(1<<i) != 0 {
						w.backends[0].store[pl.Key] = c19CopyContent(pl, i)
					} else {
						// the other object takes the complementary placement
						pl.Key.Obj = 1
						w.backends[0].store[pl.Key] = c19CopyContent(pl, i)
					}
				}
				var all []c19Key
				var ops []*c19Op
				for _, n := range queries {
					all = append(all, c19Key{n, 0}, c19Key{n, 1})
					ops = append(ops, &c19Op{Kind: c19Get, Name: n, Obj: 0}, &c19Op{Kind: c19Find, Set: []c19Key{{n, 0}}},
						&c19Op{Kind: c19Composite, Name: n, Obj: 1, Child: 0})
				}
				ops = append(ops, &c19Op{Kind: c19Find, Set: all})
				for i, op := range ops {
					c19HierOp(c, h, i, op)
					if c.Failed() {
						return
					}
				}
			})
			if c.Failed() {
				return
			}
			hierCases++
		}
	}
	c.Stats["exhaustive_hier_systems"] = hierCases
	c.Sample["exhaustive"] = fmt.Sprintf("trie sequences=%d demux systems=%d hierarchical placements=%d", cases, demuxCases, hierCases)
	c.Nontrivial = true
}

func init() {
	sim.Register(&sim.Check{
		Prop:  "C19",
		Level: "exploration",
		Profiles: []sim.Profile{
			{Name: "demux", Weight: 4, Fn: c19DemuxProfile(false)},
			{Name: "demux-faults", Weight: 2, Fn: c19DemuxProfile(true)},
			{Name: "hierarchical", Weight: 4, Fn: c19HierProfile(false)},
			{Name: "hierarchical-faults", Weight: 2, Fn: c19HierProfile(true)},
			{Name: "trie", Weight: 2, Fn: c19TrieProfile},
			{Name: "existence-cache-over-demux", Weight: 2, Fn: c19ExistenceOverDemux},
			{Name: "exhaustive-small", Prologue: true, Fn: c19Exhaustive},
		},
		Components: map[string][]string{
			"real": {"pkg/blobstore demultiplexingBlobAccess", "pkg/blobstore hierarchicalInstanceNamesBlobAccess", "pkg/digest InstanceNameTrie, InstanceNamePatcher, Digest (instance-name accessors, parent digests), Set/SetBuilder",
				"pkg/blobstore/configuration NewBlobAccessFromConfiguration (demultiplexing, hierarchical_instance_names, with_labels/label wiring; real CAS/AC creators) in half of the runs", "pkg/blobstore MetricsBlobAccess, error-handling buffers"},
			"stub": {"leaf backends (recording map-based BlobAccess with content-keyed error injection)", "a BlobAccessCreator wrapper that resolves gRPC address c19stub:<n> to stub n and applies no top-level decorator"},
		},
		Rule: "a run = (registered prefixes with rewrites, built by the configuration code or from parts; objects placed in the stubs incl. decoys) x 1-12 operations (Get, FindMissing over up to 6 digests of mixed names, Put, GetCapabilities, GetFromComposite, and with the parts build registration changes in the trie); oracle = longest component-wise prefix over a plain list, prefix rewritten by string splitting, answers read from the stubs' contents; hierarchical runs place copies with distinct bytes under arbitrary names of the tree and compare with a walk over the ancestors; trie runs compare all four lookups for 18 names after every Set/Remove; non-trivial = a longest-prefix decision among >= 2 matching prefixes, a string-but-not-component prefix, a rewrite, a multi-backend FindMissing, an unknown name, a fallback to an ancestor, or a fired fault; distinct = event-log hash",
		RequiredProbes: []string{"probe_longest_prefix_choice", "probe_string_not_component_prefix", "probe_rewrite_applied", "probe_findmissing_multi_backend", "probe_unknown_rejected",
			"probe_hier_fallback_to_ancestor", "probe_hier_most_specific_of_several", "probe_hier_present_via_ancestor", "probe_trie_remove_interior", "probe_built_by_configuration", "fault_backend_error"},
		Assumptions: []string{
			"backends are contacted through the BlobAccess interface only; a stub stores what it is given under the (instance name, digest) it is given",
			"an injected backend error must come back as an error other than NOT_FOUND (its code is recorded, not required to be preserved); a backend's NOT_FOUND must come back as NOT_FOUND",
			"trie removals are only issued for names that are present (Remove of an absent name is unspecified)",
			"the hierarchical decorator over a demultiplexer is only exercised with the empty prefix registered, so every ancestor name is known",
		},
	})
}
