package harness

import (
	"context"
	"fmt"
	"io"
	"time"

	remoteexecution "github.com/bazelbuild/remote-apis/build/bazel/remote/execution/v2"
	"github.com/buildbarn/bb-storage/pkg/auth"
	"github.com/buildbarn/bb-storage/pkg/blobstore"
	"github.com/buildbarn/bb-storage/pkg/blobstore/buffer"
	"github.com/buildbarn/bb-storage/pkg/blobstore/configuration"
	"github.com/buildbarn/bb-storage/pkg/blobstore/mirrored"
	"github.com/buildbarn/bb-storage/pkg/blobstore/readcaching"
	"github.com/buildbarn/bb-storage/pkg/blobstore/readfallback"
	"github.com/buildbarn/bb-storage/pkg/blobstore/sharding"
	"github.com/buildbarn/bb-storage/pkg/digest"
	"github.com/buildbarn/bb-storage/pkg/eviction"
	pb_blobstore "github.com/buildbarn/bb-storage/pkg/proto/configuration/blobstore"
	"vsim/sim"

	"google.golang.org/grpc/codes"
	"google.golang.org/grpc/status"
	rt "verifsimrt"
)

// ---- C04, last sentence: "every buffer handed to or obtained inside a
// storage operation is consumed or released exactly once on every path, so no
// reader, stream or pooled resource stays pinned after the operation
// returned" - for the decorators and composites that sit between a caller and
// the leaves. Every buffer a leaf hands out and every buffer a client uploads
// is backed by a source that counts Close() calls; after all operations
// returned and all consumers finished, each source must have been closed
// exactly once, whatever failed or interleaved on the way. ----

const (
	dkMirrored = iota
	dkReadCaching
	dkReadFallback
	dkSharding
	dkDemux
	dkHierarchical
	dkExistenceCaching
	dkAuthorizing
	dkEmptyBlobInjecting
	dkDeadlineEnforcing
	dkMetrics
	dkReadCanarying
	nDecoratorKinds
)

var decoratorKindNames = []string{"mirrored", "read_caching", "read_fallback", "sharding", "demultiplexing", "hierarchical_instance_names", "existence_caching", "authorizing", "empty_blob_injecting", "deadline_enforcing", "metrics", "read_canarying"}

// trackedUpload builds an upload buffer over a close-counting source.
func trackedUpload(t *sim.Tape, reg *[]*sim.SrcStats, d digest.Digest, data []byte, mode int, tag string) buffer.Buffer {
	wire := data
	sc := &sim.SrcScript{ErrAt: -1}
	switch mode {
	case 1: // content does not match the digest
		if len(data) > 0 {
			wire = append([]byte{}, data...)
			wire[0] ^= 0x40
		}
	case 2: // short
		if len(data) > 0 {
			wire = data[:len(data)-1]
		}
	case 3: // long
		wire = append(append([]byte{}, data...), 0x5a)
	}
	sc.Data = wire
	sc.Cuts = sim.DrawCuts(t, len(wire), 2)
	if mode == 4 {
		sc.ErrAt = t.Choose(len(sc.Chunks()) + 1)
		sc.Err = status.Error(codes.Unavailable, "upload source: injected failure")
	}
	var b buffer.Buffer
	if t.Chance(1, 2) {
		src := sim.NewChunkSource("upload."+tag, sc)
		*reg = append(*reg, src.St)
		b = buffer.NewCASBufferFromChunkReader(d, src, buffer.UserProvided)
	} else {
		src := sim.NewReaderSource("upload."+tag, sc)
		*reg = append(*reg, src.St)
		b = buffer.NewCASBufferFromReader(d, src, buffer.UserProvided)
	}
	if t.Chance(1, 4) {
		// the shape replicating decorators hand down: one half of a stream
		// clone with a task attached that feeds the other half to a sink
		b1, b2 := b.CloneStream()
		b = b1.WithTask(func() error { return b2.IntoWriter(io.Discard) })
	}
	return b
}

// consumeTracked consumes b in one of several ways; all of them end with the
// buffer consumed or discarded.
func consumeTracked(s *rt.Sched, b buffer.Buffer, how int, arg int) {
	switch how {
	case 0:
		b.ToByteSlice(1 << 20)
	case 1:
		b.Discard()
	case 2: // chunk reader, read a few chunks, close early
		r := b.ToChunkReader(0, 1+arg%5)
		for i := 0; i < arg%3; i++ {
			if _, err := r.Read(); err != nil {
				break
			}
		}
		r.Close()
	case 3: // chunk reader to the end
		r := b.ToChunkReader(int64(arg%2), 1+arg%7)
		for {
			if _, err := r.Read(); err != nil {
				break
			}
		}
		r.Close()
	case 4: // reader, partial
		r := b.ToReader()
		var p [3]byte
		for i := 0; i < arg%3; i++ {
			if _, err := r.Read(p[:]); err != nil {
				break
			}
		}
		r.Close()
	case 5:
		b.IntoWriter(io.Discard)
	case 6: // stream clones: one reads, one discards (or reads), in their own goroutines
		b1, b2 := b.CloneStream()
		done := 0
		s.Go("clone-a", func() { b1.ToByteSlice(1 << 20); done++ })
		s.Go("clone-b", func() {
			if arg%2 == 0 {
				b2.Discard()
			} else {
				b2.IntoWriter(io.Discard)
			}
			done++
		})
		s.WaitUntil("clones done", func() bool { return done == 2 })
	case 7: // copy clones
		b1, b2 := b.CloneCopy(1 << 20)
		b1.Discard()
		b2.ToByteSlice(1 << 20)
	case 8:
		b.GetSizeBytes()
		var p [4]byte
		b.ReadAt(p[:], int64(arg%3))
	case 9: // too small a limit
		b.ToByteSlice(arg % 3)
	}
}

const nConsumeKinds = 10

func c04Decorators(c *sim.RunCtx) {
	t := c.T.Plan
	kind := t.Choose(nDecoratorKinds)
	insts := []string{"", "a", "a/b", "x"}
	type dobj struct {
		Data []byte
		Inst string
		D    digest.Digest
	}
	var objs []dobj
	for i, n := 0, 2+t.Choose(4); i < n; i++ {
		sz := []int{3, 1, 8, 20, 2}[t.Choose(5)]
		if kind == dkEmptyBlobInjecting && t.Chance(1, 3) {
			sz = 0
		}
		data := make([]byte, sz)
		for j := range data {
			data[j] = byte(i*29 + j + 1)
		}
		in := insts[t.Choose(len(insts))]
		objs = append(objs, dobj{data, in, RefDigest(in, remoteexecution.DigestFunction_SHA256, data)})
	}
	strategy := t.Choose(nReplStrategies)
	configured := t.Chance(1, 3) && (kind == dkMirrored || kind == dkReadCaching || kind == dkReadFallback)
	faultRate := []int{0, 60, 200}[t.Choose(3)]
	streamRate := []int{0, 100, 300}[t.Choose(3)]
	clients := 1 + t.Choose(3)
	type dop struct {
		Kind, Obj, Mode, How, Arg int
		Set                       []int
	}
	var plans [][]dop
	for ci := 0; ci < clients; ci++ {
		var ops []dop
		for i, n := 0, 2+t.Choose(8); i < n; i++ {
			o := dop{Kind: t.Pick(3, 5, 2), Obj: t.Choose(len(objs)), Mode: t.Pick(4, 1, 1, 1, 1), How: t.Choose(nConsumeKinds), Arg: t.Choose(16)}
			if o.Kind == 2 {
				for j, k := 0, 1+t.Choose(3); j < k; j++ {
					o.Set = append(o.Set, t.Choose(len(objs)))
				}
			}
			ops = append(ops, o)
		}
		plans = append(plans, ops)
	}
	placement := make([]int, len(objs))
	for i := range placement {
		placement[i] = t.Choose(8)
	}
	desc := fmt.Sprintf("decorator=%s strategy=%s configured=%v objs=%d placement=%v faultRate=%d streamRate=%d clients=%d", decoratorKindNames[kind], replStrategyNames[strategy], configured, len(objs), placement, faultRate, streamRate, clients)
	c.Sample["case"] = desc
	c.Note("case %s plans=%v", desc, plans)
	var uploads []*sim.SrcStats
	var leaves []*modelStore
	opsDone := 0
	c.Sim(sim.SimOpts{MaxSteps: 200000, DeadlockClass: "deadlock"}, func(s *rt.Sched) {
		kf := digest.KeyWithInstance
		mk := func(name string) *modelStore {
			m := newModelStore(c, name, kf)
			m.TrackSources = true
			leaves = append(leaves, m)
			return m
		}
		A, B, C := mk("A"), mk("B"), mk("C")
		for i, p := range placement {
			for bit, m := range []*modelStore{A, B, C} {
				if p&(1<<uint(bit)) != 0 {
					m.Objs[m.key(objs[i].D)] = objs[i].Data
				}
			}
		}
		ft := c.T.Fault
		for _, m := range leaves {
			name := m.Name
			m.Fault = func(op string, ds []digest.Digest) error {
				if faultRate > 0 && ft.Chance(faultRate, 1000) {
					return status.Errorf(injectableCodes[ft.Choose(len(injectableCodes))], "%s: injected failure of %s", name, op)
				}
				return nil
			}
			m.StreamFault = func(d digest.Digest) int {
				if streamRate > 0 && ft.Chance(streamRate, 1000) {
					return ft.Choose(3)
				}
				return -1
			}
		}
		clk := sim.NewClock(s)
		var ba blobstore.BlobAccess
		info := func(m *modelStore) configuration.BlobAccessInfo {
			return configuration.BlobAccessInfo{BlobAccess: m, DigestKeyFormat: kf}
		}
		switch kind {
		case dkMirrored:
			if configured {
				var restore func()
				ba, _, restore = buildComposite(c, s, clk, &pb_blobstore.BlobAccessConfiguration{Backend: &pb_blobstore.BlobAccessConfiguration_Mirrored{Mirrored: &pb_blobstore.MirroredBlobAccessConfiguration{
					BackendA: leafConfig("A"), BackendB: leafConfig("B"), ReplicatorAToB: replicatorConfig(strategy, 1), ReplicatorBToA: replicatorConfig(strategy, 2)}}},
					map[string]configuration.BlobAccessInfo{"A": info(A), "B": info(B)})
				defer restore()
			} else {
				ba = mirrored.NewMirroredBlobAccess(A, B, newReplicatorKF(strategy, A, B, clk, 1, kf), newReplicatorKF(strategy, B, A, clk, 2, kf))
			}
		case dkReadCaching:
			if configured {
				var restore func()
				ba, _, restore = buildComposite(c, s, clk, &pb_blobstore.BlobAccessConfiguration{Backend: &pb_blobstore.BlobAccessConfiguration_ReadCaching{ReadCaching: &pb_blobstore.ReadCachingBlobAccessConfiguration{
					Slow: leafConfig("B"), Fast: leafConfig("A"), Replicator: replicatorConfig(strategy, 1)}}},
					map[string]configuration.BlobAccessInfo{"A": info(A), "B": info(B)})
				defer restore()
			} else {
				ba = readcaching.NewReadCachingBlobAccess(B, A, newReplicatorKF(strategy, B, A, clk, 1, kf))
			}
		case dkReadFallback:
			if configured {
				var restore func()
				ba, _, restore = buildComposite(c, s, clk, &pb_blobstore.BlobAccessConfiguration{Backend: &pb_blobstore.BlobAccessConfiguration_ReadFallback{ReadFallback: &pb_blobstore.ReadFallbackBlobAccessConfiguration{
					Primary: leafConfig("A"), Secondary: leafConfig("B"), Replicator: replicatorConfig(strategy, 1)}}},
					map[string]configuration.BlobAccessInfo{"A": info(A), "B": info(B)})
				defer restore()
			} else {
				ba = readfallback.NewReadFallbackBlobAccess(A, B, newReplicatorKF(strategy, B, A, clk, 1, kf))
			}
		case dkSharding:
			sel, err := sharding.NewRendezvousShardSelector([]sharding.Shard{{Key: "A", Weight: 1}, {Key: "B", Weight: 2}, {Key: "C", Weight: 1}})
			if err != nil {
				panic(sim.HarnessError{Msg: err.Error()})
			}
			ba = sharding.NewShardingBlobAccess([]sharding.ShardBackend{{Backend: A, Key: "A"}, {Backend: B, Key: "B"}, {Backend: C, Key: "C"}}, sel)
		case dkDemux:
			trie := digest.NewInstanceNameTrie()
			trie.Set(c19MustName(""), 0)
			trie.Set(c19MustName("a"), 1)
			bs := []*modelStore{A, B}
			patch := []digest.InstanceNamePatcher{digest.NoopInstanceNamePatcher, digest.NewInstanceNamePatcher(c19MustName("a"), c19MustName("q"))}
			ba = blobstore.NewDemultiplexingBlobAccess(func(i digest.InstanceName) (blobstore.BlobAccess, string, digest.InstanceNamePatcher, error) {
				idx := trie.GetLongestPrefix(i)
				if i.String() == "x" || idx < 0 {
					return nil, "", digest.NoopInstanceNamePatcher, status.Error(codes.InvalidArgument, "Unknown instance name")
				}
				return bs[idx], bs[idx].Name, patch[idx], nil
			})
		case dkHierarchical:
			ba = blobstore.NewHierarchicalInstanceNamesBlobAccess(A)
		case dkExistenceCaching:
			ba = blobstore.NewExistenceCachingBlobAccess(A, digest.NewExistenceCache(clk, kf, 4, 10*time.Second, eviction.NewLRUSet[string]()))
		case dkAuthorizing:
			allowGet := auth.NewStaticAuthorizer(func(in digest.InstanceName) bool { return in.String() != "x" })
			allowPut := auth.NewStaticAuthorizer(func(in digest.InstanceName) bool { return in.String() == "" || in.String() == "a" })
			ba = blobstore.NewAuthorizingBlobAccess(A, allowGet, allowPut, allowGet)
		case dkEmptyBlobInjecting:
			ba = blobstore.NewEmptyBlobInjectingBlobAccess(A)
		case dkDeadlineEnforcing:
			ba = blobstore.NewDeadlineEnforcingBlobAccess(A, time.Hour)
		case dkMetrics:
			ba = blobstore.NewMetricsBlobAccess(A, clk, "sim", "decorators")
		case dkReadCanarying:
			ba = blobstore.NewReadCanaryingBlobAccess(A, B, clk, eviction.NewLRUSet[string](), 4, 5*time.Second, &recLogger{})
		}
		ctx := context.Background()
		done := 0
		for ci := range plans {
			ops := plans[ci]
			tag := fmt.Sprintf("c%d", ci)
			s.Go("client"+tag, func() {
				defer func() { done++ }()
				for oi, o := range ops {
					if c.Failed() {
						return
					}
					ob := objs[o.Obj]
					switch o.Kind {
					case 0:
						b := trackedUpload(t, &uploads, ob.D, ob.Data, o.Mode, fmt.Sprintf("%s.%d", tag, oi))
						err := ba.Put(ctx, ob.D, b)
						c.Logf("%s Put(o%d mode=%d) -> %v", tag, o.Obj, o.Mode, err)
						c.Count("probe_decorator_put", 1)
					case 1:
						b := ba.Get(ctx, ob.D)
						consumeTracked(s, b, o.How, o.Arg)
						c.Logf("%s Get(o%d how=%d) done", tag, o.Obj, o.How)
						c.Count("probe_decorator_get", 1)
					case 2:
						sb := digest.NewSetBuilder(len(o.Set))
						for _, x := range o.Set {
							sb.Add(objs[x].D)
						}
						_, err := ba.FindMissing(ctx, sb.Build())
						c.Logf("%s FindMissing(%v) -> %v", tag, o.Set, err)
						c.Count("probe_decorator_findmissing", 1)
					}
					opsDone++
				}
			})
		}
		s.WaitUntil("clients done", func() bool { return done == len(plans) })
		// everything the decorators started must have finished by now or
		// finish without further input
		c.Picker.Fair = true
		s.WaitUntil("quiescence", func() bool { return s.Quiescent(0) && s.PendingTimers() == 0 })
		c.Picker.Fair = false
	})
	if c.Failed() {
		return
	}
	check := func(st *sim.SrcStats, what string) bool {
		if st.Closes == 1 {
			return true
		}
		if st.Closes == 0 {
			c.Fail("buffer-never-released", "%s %q was never closed although every operation returned and every consumer finished: a buffer was dropped without being consumed or discarded (reads=%d) [%s]", what, st.Name, st.Reads, desc)
		} else {
			c.Fail("buffer-released-twice", "%s %q was closed %d times [%s]", what, st.Name, st.Closes, desc)
		}
		return false
	}
	for _, st := range uploads {
		if !check(st, "upload source") {
			return
		}
		c.Count("probe_upload_source_closed_once", 1)
	}
	for _, m := range leaves {
		for _, st := range m.Sources {
			if !check(st, "backend stream") {
				return
			}
			c.Count("probe_backend_stream_closed_once", 1)
		}
	}
	c.Count("decorator_"+decoratorKindNames[kind], 1)
	c.Nontrivial = opsDone > 0 && (len(uploads) > 0 || len(leaves[0].Sources) > 0)
}
