package harness

import (
	"crypto/sha256"
	"encoding/binary"
	"fmt"
	"sort"
	"strings"
	"sync"

	"github.com/buildbarn/bb-storage/pkg/blobstore/sharding"
	"vsim/sim"
)

// ---- C12 input generation -------------------------------------------------
//
// Nothing in this file is an oracle. The replicas of the selector's mixing
// and scoring arithmetic below are used ONLY to aim inputs at interesting
// places (table boundaries of the fixed-point logarithm, extreme scores, exact
// score ties between shards). If the code under test deviates from the
// replicas the inputs merely become less well aimed; no expectation is ever
// computed from them.

type c12Shard struct {
	Key    string
	Weight uint32
}

func c12ListString(l []c12Shard) string {
	var p []string
	for _, s := range l {
		p = append(p, fmt.Sprintf("%q=%d", s.Key, s.Weight))
	}
	return "[" + strings.Join(p, " ") + "]"
}

// c12Sig is the canonical, order-free description of a shard map.
func c12Sig(l []c12Shard) string {
	c := append([]c12Shard{}, l...)
	sort.Slice(c, func(i, j int) bool { return c[i].Key < c[j].Key })
	return c12ListString(c)
}

// Keys of the random profiles. Some are deliberately awkward: empty, format
// verbs, separators that also occur in the error prefix, non-ASCII, long.
var c12KeyPool = []string{
	"a", "b", "c", "shard-0", "shard-1", "shard-10", "node/α", "100%d%s", "k: v", "",
	"B", "0123456789abcdef0123456789abcdef0123456789abcdef0123456789abcdef", "us-east-1b", "Shard",
}

var c12WeightPool = []uint32{1, 0xffffffff, 1, 2, 3, 10, 1000, 1 << 31, 0xfffffffe, 0xffffffff}

func c12Mix(x uint64) uint64 {
	x ^= x >> 30
	x *= 0xbf58476d1ce4e5b9
	x ^= x >> 27
	x *= 0x94d049bb133111eb
	x ^= x >> 31
	return x
}

func c12InvOdd(a uint64) uint64 {
	x := a // correct to 3 bits
	for i := 0; i < 6; i++ {
		x *= 2 - a*x
	}
	return x
}

var (
	c12Inv1 = c12InvOdd(0xbf58476d1ce4e5b9)
	c12Inv2 = c12InvOdd(0x94d049bb133111eb)
)

// c12Unmix inverts c12Mix.
func c12Unmix(x uint64) uint64 {
	x ^= x>>31 ^ x>>62
	x *= c12Inv2
	x ^= x>>27 ^ x>>54
	x *= c12Inv1
	x ^= x>>30 ^ x>>60
	return x
}

func init() {
	for _, v := range []uint64{0, 1, 2, 0xdeadbeefcafef00d, ^uint64(0), 1 << 63} {
		if c12Mix(c12Unmix(v)) != v || c12Unmix(c12Mix(v)) != v {
			panic("c12: mix inverse is wrong")
		}
	}
}

func c12KeyHash(key string) uint64 {
	h := sha256.Sum256([]byte(key))
	return binary.BigEndian.Uint64(h[:8])
}

func c12ScoreReplica(x uint64, w uint32) uint64 {
	l := uint64(64)<<16 - sharding.Log2Fixed(x)
	if l == 0 {
		return ^uint64(0)
	}
	return (uint64(w) << 32) / l
}

// c12BoundaryTarget draws a value of the mixed hash at which the fixed-point
// logarithm is at an edge: 0, 1, all-ones, powers of two, exact lookup-table
// entries and their neighbours.
func c12BoundaryTarget(t *sim.Tape) uint64 {
	switch t.Choose(6) {
	case 0:
		return []uint64{0, 1, 2, 3, ^uint64(0), ^uint64(0) - 1, 1 << 63, 1<<63 - 1, 1<<63 + 1}[t.Choose(9)]
	case 1:
		// power of two and neighbours
		m := uint(t.Choose(64))
		return (uint64(1) << m) + uint64(t.Choose(3)) - 1
	case 2, 3:
		// exact table entry idx of octave m, -1 / 0 / +1
		m := uint(1 + t.Choose(63))
		idx := uint64(t.Choose(64))
		var x uint64
		if m >= 6 {
			x = uint64(1)<<m | idx<<(m-6)
		} else {
			x = uint64(1)<<m | idx>>(6-m)
		}
		return x + uint64(t.Choose(3)) - 1
	case 4:
		// top octave, last table entry, maximal interpolation
		return ^uint64(0) - uint64(t.Choose(1<<16))
	default:
		// tiny values (largest logFixed, smallest scores)
		return uint64(t.Choose(1 << 12))
	}
}

// c12DrawH8 draws the leading eight hash bytes of an object family.
func c12DrawH8(t *sim.Tape, keys []string) (uint64, string) {
	switch t.Pick(3, 1, 1, 1, 6) {
	case 0:
		b := t.Bytes(8)
		return binary.BigEndian.Uint64(b), "random"
	case 1:
		return 0, "zero"
	case 2:
		return ^uint64(0), "ones"
	case 3:
		return []uint64{1, 2, 3, 1 << 63, 1<<63 - 1, ^uint64(0) - 1, 0x00000000ffffffff, 0xffffffff00000000}[t.Choose(8)], "edge"
	default:
		k := keys[t.Choose(len(keys))]
		x := c12BoundaryTarget(t)
		return c12KeyHash(k) ^ c12Unmix(x), fmt.Sprintf("aimed(%q,mixed=%#x)", k, x)
	}
}

// ---- exact score ties -------------------------------------------------------
//
// Two shards tie when their integer scores are equal. Which of them wins is
// then decided by the selector's tie-break; order independence requires the
// tie-break not to look at the listing order. Ties are rare (a few per
// million hashes), so they are searched once per process for a few fixed
// small maps (pure computation, hence deterministic).

var c12TieConfigs = [][]c12Shard{
	{{"a", 1}, {"b", 1}},
	{{"a", 0xffffffff}, {"b", 0xffffffff}},
	{{"a", 1}, {"b", 1}, {"c", 1}},
	{{"a", 3}, {"b", 3}, {"c", 1}},
}

const c12TiesPerConfig = 6

var (
	c12TieOnce   sync.Once
	c12TieHashes [][]uint64
)

func c12Ties() [][]uint64 {
	c12TieOnce.Do(func() {
		for _, cfg := range c12TieConfigs {
			hs := make([]uint64, len(cfg))
			for i, s := range cfg {
				hs[i] = c12KeyHash(s.Key)
			}
			var found []uint64
			h := uint64(0x243f6a8885a308d3)
			for iter := 0; iter < 40000000 && len(found) < c12TiesPerConfig; iter++ {
				h += 0x9e3779b97f4a7c15
				var best uint64
				n := 0
				for i, s := range cfg {
					sc := c12ScoreReplica(c12Mix(hs[i]^h), s.Weight)
					if sc > best {
						best, n = sc, 1
					} else if sc == best {
						n++
					}
				}
				if n >= 2 {
					found = append(found, h)
				}
			}
			c12TieHashes = append(c12TieHashes, found)
		}
	})
	return c12TieHashes
}
