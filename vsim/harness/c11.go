package harness

import (
	"io"
	"bytes"
	"context"
	"fmt"
	"strings"
	"time"

	remoteexecution "github.com/bazelbuild/remote-apis/build/bazel/remote/execution/v2"
	"github.com/buildbarn/bb-storage/pkg/blobstore"
	"github.com/buildbarn/bb-storage/pkg/blobstore/configuration"
	pb_blobstore "github.com/buildbarn/bb-storage/pkg/proto/configuration/blobstore"
	"github.com/buildbarn/bb-storage/pkg/blobstore/buffer"
	"github.com/buildbarn/bb-storage/pkg/blobstore/mirrored"
	"github.com/buildbarn/bb-storage/pkg/blobstore/replication"
	"github.com/buildbarn/bb-storage/pkg/digest"
	"github.com/buildbarn/bb-storage/pkg/eviction"
	"vsim/sim"

	"golang.org/x/sync/semaphore"
	"google.golang.org/grpc/codes"
	"google.golang.org/grpc/status"
	rt "verifsimrt"
)

// ---- C11: mirrored storage ----

const (
	rsLocal = iota
	rsDedup
	rsLimiting
	rsQueued
	rsNoop
	nReplStrategies
)

var replStrategyNames = []string{"local", "deduplicating", "concurrency_limiting", "queued", "noop"}

func newReplicator(strategy int, source, sink blobstore.BlobAccess, clk *sim.Clock, limit int64) replication.BlobReplicator {
	return newReplicatorKF(strategy, source, sink, clk, limit, digest.KeyWithoutInstance)
}

func newReplicatorKF(strategy int, source, sink blobstore.BlobAccess, clk *sim.Clock, limit int64, kf digest.KeyFormat) replication.BlobReplicator {
	base := replication.NewLocalBlobReplicator(source, sink)
	switch strategy {
	case rsDedup:
		return replication.NewDeduplicatingBlobReplicator(base, sink, kf)
	case rsLimiting:
		return replication.NewConcurrencyLimitingBlobReplicator(base, sink, semaphore.NewWeighted(limit))
	case rsQueued:
		return replication.NewQueuedBlobReplicator(source, base, digest.NewExistenceCache(clk, kf, 2, 5*time.Second, eviction.NewLRUSet[string]()))
	case rsNoop:
		return replication.NewNoopBlobReplicator(source)
	}
	return base
}

type simpleObj struct {
	Data []byte
	D    digest.Digest
}

func drawSimpleObjs(t *sim.Tape, n int, inst string) []simpleObj {
	var out []simpleObj
	for i := 0; i < n; i++ {
		sz := []int{3, 0, 1, 8, 20}[t.Choose(5)]
		data := make([]byte, sz)
		for j := range data {
			data[j] = byte(i*31 + j + 1)
		}
		if sz > 0 {
			data[0] = byte(i + 1)
		}
		if sz == 0 && i > 0 {
			data = []byte{byte(i + 1), 0xEE}
		}
		out = append(out, simpleObj{data, RefDigest(inst, remoteexecution.DigestFunction_SHA256, data)})
	}
	return out
}

var injectableCodes = []codes.Code{codes.Unavailable, codes.Internal, codes.PermissionDenied, codes.ResourceExhausted, codes.DeadlineExceeded, codes.Canceled}

func namesReplica(err error) bool {
	m := strings.ToLower(err.Error())
	return strings.Contains(m, "backend a") || strings.Contains(m, "backend b")
}

func c11Profile(concurrent bool) func(c *sim.RunCtx) {
	return func(c *sim.RunCtx) {
		t := c.T.Plan
		objs := drawSimpleObjs(t, 2+t.Choose(5), "")
		// a third of the runs: the mirrored pair and its replicators are
		// assembled by NewBlobAccessFromConfiguration (wconfig_composite.go)
		wcfg := t.Chance(1, 3)
		if wcfg {
			for i := range objs {
				if len(objs[i].Data) == 0 {
					objs[i].Data = []byte{0xE0, byte(i)}
					objs[i].D = RefDigest("", remoteexecution.DigestFunction_SHA256, objs[i].Data)
				}
			}
		}
		// replicas that partition by instance name: some objects get a twin
		// with the same content (same hash and size) under another name
		kf := digest.KeyWithoutInstance
		if t.Chance(1, 3) {
			kf = digest.KeyWithInstance
			n := len(objs)
			for i := 0; i < n; i++ {
				if t.Chance(1, 2) {
					objs = append(objs, simpleObj{objs[i].Data, RefDigest("x", remoteexecution.DigestFunction_SHA256, objs[i].Data)})
				}
			}
		}
		strategy := t.Choose(nReplStrategies)
		faultRate := []int{0, 0, 60, 200}[t.Choose(4)]
		streamRate := []int{0, 0, 100}[t.Choose(3)]
		clients := 1
		if concurrent {
			clients = 2 + t.Choose(2)
		}
		nops := 3 + t.Choose(12)
		type mop struct {
			Kind int // 0 put 1 get 2 find
			Obj  int
			Set  []int
			Cons int // get: 0 ToByteSlice, 1 chunk reader read to the end (what ByteStream does)
		}
		var plans [][]mop
		for ci := 0; ci < clients; ci++ {
			var ops []mop
			for i := 0; i < nops; i++ {
				o := mop{Kind: t.Pick(3, 5, 3), Obj: t.Choose(len(objs)), Cons: t.Choose(2)}
				if o.Kind == 2 {
					k := 1 + t.Choose(3)
					seen := map[int]bool{}
					for j := 0; j < k; j++ {
						x := t.Choose(len(objs))
						if !seen[x] {
							seen[x] = true
							o.Set = append(o.Set, x)
						}
					}
				}
				ops = append(ops, o)
			}
			plans = append(plans, ops)
		}
		placement := make([]int, len(objs)) // 0 neither 1 A 2 B 3 both
		for i := range placement {
			placement[i] = t.Choose(4)
		}
		desc := fmt.Sprintf("strategy=%s keyformat=%v objs=%d placement=%v faultRate=%d streamRate=%d clients=%d configured=%v", replStrategyNames[strategy], kf, len(objs), placement, faultRate, streamRate, clients, wcfg)
		c.Sample["case"] = desc
		c.Note("case %s plans=%v", desc, plans)
		copying := strategy != rsNoop
		injected := 0
		c.Sim(sim.SimOpts{MaxSteps: 200000, DeadlockClass: "deadlock"}, func(s *rt.Sched) {
			A := newModelStore(c, "A", kf)
			B := newModelStore(c, "B", kf)
			for i, p := range placement {
				if p&1 != 0 {
					A.Objs[A.key(objs[i].D)] = objs[i].Data
				}
				if p&2 != 0 {
					B.Objs[B.key(objs[i].D)] = objs[i].Data
				}
			}
			ft := c.T.Fault
			fault := func(name string) func(op string, ds []digest.Digest) error {
				return func(op string, ds []digest.Digest) error {
					if faultRate > 0 && ft.Chance(faultRate, 1000) {
						injected++
						return status.Errorf(injectableCodes[ft.Choose(len(injectableCodes))], "%s: injected failure of %s", name, op)
					}
					return nil
				}
			}
			A.Fault, B.Fault = fault("replica-one"), fault("replica-two")
			sf := func(d digest.Digest) int {
				if streamRate > 0 && ft.Chance(streamRate, 1000) {
					injected++
					return ft.Choose(2)
				}
				return -1
			}
			A.StreamFault, B.StreamFault = sf, sf
			// a Put that fails only after the last byte was consumed (commit failure)
			cf := func(name string) func(d digest.Digest) error {
				return func(d digest.Digest) error {
					if faultRate > 0 && ft.Chance(faultRate, 1000) {
						injected++
						return status.Errorf(codes.Unavailable, "%s: injected commit failure of Put", name)
					}
					return nil
				}
			}
			A.CommitFault, B.CommitFault = cf("replica-one"), cf("replica-two")
			clk := sim.NewClock(s)
			limAB, limBA := 1+int64(t.Choose(2)), 1+int64(t.Choose(2))
			var ba blobstore.BlobAccess
			if wcfg {
				var restore func()
				ba, _, restore = buildComposite(c, s, clk, &pb_blobstore.BlobAccessConfiguration{Backend: &pb_blobstore.BlobAccessConfiguration_Mirrored{Mirrored: &pb_blobstore.MirroredBlobAccessConfiguration{
					BackendA: leafConfig("A"), BackendB: leafConfig("B"),
					ReplicatorAToB: replicatorConfig(strategy, limAB), ReplicatorBToA: replicatorConfig(strategy, limBA)}}},
					map[string]configuration.BlobAccessInfo{"A": {BlobAccess: A, DigestKeyFormat: kf}, "B": {BlobAccess: B, DigestKeyFormat: kf}})
				defer restore()
			} else {
				ba = mirrored.NewMirroredBlobAccess(A, B, newReplicatorKF(strategy, A, B, clk, limAB, kf), newReplicatorKF(strategy, B, A, clk, limBA, kf))
			}
			ctx := context.Background()
			gets := 0 // number of Get calls issued so far (sequential profile: decides who is consulted first)
			runOp := func(o mop) {
				ob := objs[o.Obj]
				inj0 := injected
				opStart := s.Steps
				switch o.Kind {
				case 0:
					err := ba.Put(ctx, ob.D, buffer.NewCASBufferFromByteSlice(ob.D, ob.Data, buffer.UserProvided))
					if err == nil {
						if !A.Has(ob.D) || !B.Has(ob.D) {
							c.Fail("put-not-mirrored", "Put(o%d) succeeded but replicas hold it: A=%v B=%v [%s]", o.Obj, A.Has(ob.D), B.Has(ob.D), desc)
						}
						c.Count("probe_put_ok", 1)
					} else {
						checkMirrorError(c, err, injected > inj0, fmt.Sprintf("Put(o%d)", o.Obj), desc)
					}
				case 1:
					hasA, hasB := A.Has(ob.D), B.Has(ob.D)
					gets++
					firstIsA := gets%2 == 1
					var data []byte
					var err error
					if o.Cons == 1 {
						r := ba.Get(ctx, ob.D).ToChunkReader(0, 1+o.Obj%3)
						for {
							chunk, rerr := r.Read()
							if rerr == io.EOF {
								break
							}
							if rerr != nil {
								err = rerr
								break
							}
							data = append(data, chunk...)
						}
						r.Close()
					} else {
						data, err = ba.Get(ctx, ob.D).ToByteSlice(1 << 20)
					}
					faulted := injected > inj0
					if err == nil {
						if !bytes.Equal(data, ob.Data) {
							c.Fail("wrong-bytes", "Get(o%d) returned %s [%s]", o.Obj, short(data), desc)
							return
						}
						if !hasA && !hasB && !concurrent {
							c.Fail("get-of-absent-object", "Get(o%d) succeeded although neither replica held it [%s]", o.Obj, desc)
							return
						}
						c.Count("probe_get_ok", 1)
						// (also when faults were injected: a failed repair must fail the read)
						if !concurrent && copying {
							first := B
							if firstIsA {
								first = A
							}
							if !first.Has(ob.D) {
								c.Fail("read-did-not-repair", "Get(o%d) succeeded (A had it: %v, B had it: %v) but the replica consulted first (%s) still lacks it with replicator %s [%s]", o.Obj, hasA, hasB, first.Name, replStrategyNames[strategy], desc)
								return
							}
							if (firstIsA && !hasA) || (!firstIsA && !hasB) {
								c.Count("probe_read_repaired", 1)
							}
						}
					} else {
						if status.Code(err) == codes.NotFound {
							// (with concurrent clients a fault cannot be attributed to one
							// operation: it may belong to another client's call)
							if faulted && !concurrent && !(absenceEstablished(A, A.key(ob.D), opStart) && absenceEstablished(B, B.key(ob.D), opStart)) {
								c.Fail("failure-masked-as-not-found", "Get(o%d) returned NOT_FOUND although a replica call failed with another code [%s]: %v", o.Obj, desc, err)
								return
							}
							if (hasA || hasB) && !faulted {
								c.Fail("present-object-not-found", "Get(o%d) returned NOT_FOUND although A=%v B=%v held it [%s]", o.Obj, hasA, hasB, desc)
								return
							}
							c.Count("probe_get_not_found", 1)
						} else {
							checkMirrorError(c, err, faulted, fmt.Sprintf("Get(o%d)", o.Obj), desc)
						}
					}
				case 2:
					sb := digest.NewSetBuilder(len(o.Set))
					before := map[int][2]bool{}
					for _, x := range o.Set {
						sb.Add(objs[x].D)
						before[x] = [2]bool{A.Has(objs[x].D), B.Has(objs[x].D)}
					}
					missing, err := ba.FindMissing(ctx, sb.Build())
					faulted := injected > inj0
					if err != nil {
						if status.Code(err) == codes.NotFound && faulted && !concurrent {
							c.Fail("failure-masked-as-not-found", "FindMissing returned NOT_FOUND although a replica call failed [%s]: %v", desc, err)
							return
						}
						checkMirrorError(c, err, faulted, "FindMissing", desc)
						return
					}
					miss := map[digest.Digest]bool{}
					for _, d := range missing.Items() {
						miss[d] = true
					}
					for _, x := range o.Set {
						b4 := before[x]
						if miss[objs[x].D] {
							if b4[0] || b4[1] {
								c.Fail("present-reported-missing", "FindMissing reports o%d missing although A=%v B=%v held it [%s]", x, b4[0], b4[1], desc)
								return
							}
						} else {
							if !A.Has(objs[x].D) && !B.Has(objs[x].D) {
								c.Fail("absent-reported-present", "FindMissing reports o%d present although neither replica holds it [%s]", x, desc)
								return
							}
							if copying && (!A.Has(objs[x].D) || !B.Has(objs[x].D)) {
								c.Fail("findmissing-did-not-synchronise", "FindMissing succeeded, o%d was held by A=%v B=%v before, but afterwards A=%v B=%v with replicator %s [%s]", x, b4[0], b4[1], A.Has(objs[x].D), B.Has(objs[x].D), replStrategyNames[strategy], desc)
								return
							}
							if b4[0] != b4[1] {
								c.Count("probe_findmissing_synchronised", 1)
							}
						}
					}
				}
			}
			done := 0
			for ci := range plans {
				ops := plans[ci]
				s.Go(fmt.Sprintf("client%d", ci), func() {
					defer func() { done++ }()
					for _, o := range ops {
						if c.Failed() {
							return
						}
						runOp(o)
					}
				})
			}
			s.WaitUntil("clients", func() bool { return done == len(plans) })
		})
		c.Count("strategy_"+replStrategyNames[strategy], 1)
		if injected > 0 || concurrent {
			c.Nontrivial = true
		}
	}
}

// absenceEstablished: since step start, replica m genuinely (without an
// injected failure) answered a Get/FindMissing about key. NOT_FOUND as the
// outcome of a mirrored read is justified only if both replicas did.
func absenceEstablished(m *modelStore, key string, start int) bool {
	for _, cl := range m.Calls {
		if cl.Start < start || cl.Injected || (cl.Op != "Get" && cl.Op != "FindMissing") {
			continue
		}
		for _, k := range cl.Digests {
			if k == key {
				return true
			}
		}
	}
	return false
}

// checkMirrorError: a non-NOT_FOUND error of a mirrored operation must name
// a replica when it stems from an injected replica failure; without any
// injected failure such an error is spurious.
func checkMirrorError(c *sim.RunCtx, err error, faulted bool, what, desc string) {
	if !faulted {
		c.Fail("spurious-error", "%s failed with %v although no replica call failed [%s]", what, err, desc)
		return
	}
	if !namesReplica(err) {
		c.Fail("error-does-not-name-replica", "%s failed with %v, which does not name the failing replica [%s]", what, err, desc)
		return
	}
	c.Count("probe_error_names_replica", 1)
}

// c11RealReplicas: the replicas are real in-memory local stores, so that
// reads return refresh-in-progress buffers (clones with background tasks).
// Objects may be evicted by rotation, so only safety is judged: no panic, no
// wrong bytes, no deadlock, NOT_FOUND or success.
func c11RealReplicas(c *sim.RunCtx) {
	t := c.T.Plan
	mk := func() *storeCfg {
		cfg := drawStoreCfg(t, false, true)
		cfg.Disk = t.Chance(1, 2)
		if cfg.Disk {
			cfg.SectorSize, cfg.BlockSectors = 8, 4+t.Choose(4)
		} else {
			cfg.BlockSectors = 32
		}
		cfg.Spare = 3
		return cfg
	}
	cfgA, cfgB := mk(), mk()
	objs := drawSimpleObjs(t, 3+t.Choose(5), "")
	strategy := []int{rsLocal, rsDedup, rsLimiting, rsQueued}[t.Choose(4)]
	clients := 1 + t.Choose(3)
	nops := 6 + t.Choose(20)
	var plans [][][2]int
	for ci := 0; ci < clients; ci++ {
		var ops [][2]int
		for i := 0; i < nops; i++ {
			ops = append(ops, [2]int{t.Pick(4, 5, 2), t.Choose(len(objs))})
		}
		plans = append(plans, ops)
	}
	desc := fmt.Sprintf("real replicas A{%s} B{%s} strategy=%s", cfgA, cfgB, replStrategyNames[strategy])
	c.Sample["case"] = desc
	c.Note("case %s plans=%v", desc, plans)
	seed := int64(t.Choose(1 << 30))
	c.Sim(sim.SimOpts{MaxSteps: 400000, DeadlockClass: "deadlock"}, func(s *rt.Sched) {
		eA := buildStoreParts(c, s, cfgA, newMedia(cfgA), 1, seed)
		eB := buildStoreParts(c, s, cfgB, newMedia(cfgB), 1, seed+1)
		defer eA.close()
		defer eB.close()
		clk := sim.NewClock(s)
		ba := mirrored.NewMirroredBlobAccess(eA.ba, eB.ba, newReplicator(strategy, eA.ba, eB.ba, clk, 2), newReplicator(strategy, eB.ba, eA.ba, clk, 2))
		ctx := context.Background()
		uploaded := map[int]bool{}
		done := 0
		for ci := range plans {
			ops := plans[ci]
			s.Go(fmt.Sprintf("client%d", ci), func() {
				defer func() { done++ }()
				for _, o := range ops {
					if c.Failed() {
						return
					}
					ob := objs[o[1]]
					switch o[0] {
					case 0:
						uploaded[o[1]] = true
						err := ba.Put(ctx, ob.D, buffer.NewCASBufferFromByteSlice(ob.D, ob.Data, buffer.UserProvided))
						if err != nil && status.Code(err) != codes.Unavailable && status.Code(err) != codes.Internal {
							c.Fail("spurious-error", "Put(o%d) failed with %v [%s]", o[1], err, desc)
						}
					case 1:
						data, err := ba.Get(ctx, ob.D).ToByteSlice(1 << 20)
						if err == nil {
							if !bytes.Equal(data, ob.Data) {
								c.Fail("wrong-bytes", "Get(o%d) returned %s [%s]", o[1], short(data), desc)
							} else if !uploaded[o[1]] {
								c.Fail("get-of-absent-object", "Get(o%d) succeeded although it was never uploaded [%s]", o[1], desc)
							}
							c.Count("probe_get_ok", 1)
						} else if integrityMessage(err.Error()) {
							c.Fail("integrity-error-on-clean-medium", "Get(o%d): %v [%s]", o[1], err, desc)
						}
					case 2:
						missing, err := ba.FindMissing(ctx, ob.D.ToSingletonSet())
						if err == nil && missing.Empty() && !uploaded[o[1]] {
							c.Fail("absent-reported-present", "FindMissing reports o%d present although it was never uploaded [%s]", o[1], desc)
						}
					}
				}
			})
		}
		s.WaitUntil("clients", func() bool { return done == len(plans) })
		c.Count("probe_real_replica_refreshes", eA.alloc.Releases+eB.alloc.Releases)
	})
	c.Nontrivial = true
}

func init() {
	sim.Register(&sim.Check{
		Prop:  "C11",
		Level: "exploration",
		Profiles: []sim.Profile{
			{Name: "sequential-exact", Weight: 3, Fn: c11Profile(false)},
			{Name: "concurrent", Weight: 2, Fn: c11Profile(true)},
			{Name: "real-local-replicas", Weight: 1, Fn: c11RealReplicas},
			{Name: "existence-cache-over-mirror", Weight: 1, Fn: func(c *sim.RunCtx) { existenceCacheOverComposite(c, 1) }},
		},
		Components: map[string][]string{
			"real": {"pkg/blobstore/configuration new_blob_access.go / new_blob_replicator.go / creators (W-config runs: the composite is assembled by the unmodified NewBlobAccessFromConfiguration over model leaves)", "pkg/blobstore/mirrored", "pkg/blobstore/replication: local, deduplicating, concurrency-limiting, queued, noop replicators; GetWithBlobReplicator", "pkg/blobstore/buffer (clones, background tasks, error handlers)", "pkg/digest (sets, existence cache)", "pkg/blobstore/local (real replicas profile)"},
			"stub": {"replicas (model stores with call log, call failures with drawn codes, mid-stream failures)", "clock", "errgroup/semaphore/sync through verifsimrt"},
		},
		Rule:           "a run = 2-6 objects with drawn initial placement (A, B, both, neither) x replicator strategy x 3-14 operations per client (1 client with exact oracles, or 2-3 concurrent clients with monotonic oracles) x injected replica failures (whole calls with 6 codes incl. CANCELLED, mid-stream); oracles: successful Put => both replicas hold it; Get succeeds iff a replica holds it (fault-free) and repairs the first-consulted replica; FindMissing = absent from both and synchronises; no failure is turned into NOT_FOUND or into an incomplete success; errors caused by a replica failure name a replica; non-trivial = a fault was injected or clients ran concurrently; existence-cache-over-mirror: replicas of unlike key formats behind an existence cache, all built by configuration: FindMissing stays exact and synchronising for every instance name",
		RequiredProbes: []string{"probe_read_repaired", "probe_findmissing_synchronised", "probe_put_ok", "fault_backend_call_Unavailable", "fault_backend_stream_error"},
	})
}
