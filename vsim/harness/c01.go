package harness

import (
	"context"
	"fmt"

	"github.com/buildbarn/bb-storage/pkg/digest"
	"vsim/sim"

	rt "verifsimrt"
)

// storeRunOpts configures one forward run of the store family.
type storeRunOpts struct {
	cfg     *storeCfg
	wo      *workloadOpts
	setup   func(w *storeWorld)          // after the store is built
	after   func(w *storeWorld)          // with clients finished, baton held by the root
	perStep func(w *storeWorld)          // StepHook
}

// runStoreForward builds a store (W-parts) and runs the drawn workload with
// concurrent clients under the scheduler.
func runStoreForward(c *sim.RunCtx, o *storeRunOpts) *storeWorld {
	t := c.T.Plan
	cfg := o.cfg
	objs := drawObjects(t, cfg, o.wo.Objects, o.wo.Composite)
	canon := canonicalise(objs)
	if c.Tier == "thorough" && t.Chance(1, 4) {
		// thorough tier: a quarter of the runs are three times as long (more
		// rotations and deeper interleavings per store), the rest stay short
		o.wo.OpsPerClient *= 3
		c.Count("long_runs", 1)
	}
	clients := drawOps(t, cfg, objs, canon, o.wo)
	seed := int64(t.Choose(1 << 30))
	c.Sample["config"] = cfg.String()
	var sampleOps []string
	for ci, ops := range clients {
		for k, op := range ops {
			if k < 4 {
				sampleOps = append(sampleOps, fmt.Sprintf("c%d:%s", ci, op))
			}
		}
	}
	c.Sample["ops"] = sampleOps
	c.Note("cfg %s", cfg)
	{
		var sz []string
		for _, ob := range objs {
			x := fmt.Sprintf("o%d:%d", ob.Idx, len(ob.Content))
			if len(ob.Children) > 0 {
				x += fmt.Sprintf("=%v", ob.Children)
			}
			if canon[ob.Idx] != ob.Idx {
				x += fmt.Sprintf("(=o%d)", canon[ob.Idx])
			}
			sz = append(sz, x)
		}
		c.Note("objects %v", sz)
	}
	var w *storeWorld
	c.Sim(sim.SimOpts{MaxSteps: 400000, DeadlockClass: "deadlock"}, func(s *rt.Sched) {
		m := newMedia(cfg)
		var e *storeEnv
		if cfg.WConfig {
			e = buildStoreConfig(c, s, cfg, m, 1, seed)
			c.Count("probe_wconfig_run", 1)
		} else {
			e = buildStoreParts(c, s, cfg, m, 1, seed)
		}
		defer e.close()
		w = &storeWorld{c: c, s: s, cfg: cfg, e: e, ctx: context.Background(), insts: o.wo.Insts,
			m: &storeModel{cfg: cfg, objs: objs, byTag: map[int]*upload{}}}
		w.allocs = func() int {
			if e.alloc == nil {
				return e.collectorAllocations()
			}
			return e.alloc.Allocs
		}
		if o.setup != nil {
			o.setup(w)
		}
		if o.perStep != nil {
			s.StepHook = func() { o.perStep(w) }
		}
		done := 0
		for ci := range clients {
			ops := clients[ci]
			s.GoProc(fmt.Sprintf("client%d", ci), 1, false, func() {
				defer func() { done++ }()
				for _, op := range ops {
					if c.Failed() {
						return
					}
					w.exec(op)
				}
			})
		}
		s.WaitUntil("clients done", func() bool { return done == len(clients) })
		s.StepHook = nil
		if o.after != nil && !c.Failed() {
			o.after(w)
		}
	})
	if w != nil {
		c.Count("reads_ok", w.readsOK)
		c.Count("reads_not_found", w.readsNotFound)
		c.Count("reads_other_error", w.readsOtherErr)
		c.Count("puts_ok", w.putsOK)
		c.Count("puts_failed", w.putsFailed)
		if w.e.alloc != nil {
			c.Count("block_allocations", w.e.alloc.Allocs)
			c.Count("block_releases", w.e.alloc.Releases)
			c.Count("fault_alloc_no_free_block", w.e.alloc.AllocFail)
		}
		if w.e.data != nil {
			c.Count("disk_writes", w.e.data.Writes)
			c.Count("disk_reads", w.e.data.Reads)
		}
		if n := w.e.log.integrity(); n > 0 && !w.tolerateIntegrity && !c.Failed() {
			c.Fail("integrity-error-on-clean-medium", "error log reports a data integrity release on an uncorrupted medium: %v", w.e.log.Msgs)
		}
	}
	return w
}

func c01Profile(variant string) func(c *sim.RunCtx) {
	return func(c *sim.RunCtx) {
		t := c.T.Plan
		cfg := drawStoreCfg(t, false, false)
		insts := []string{""}
		switch variant {
		case "flat-cas":
			if t.Chance(1, 3) {
				cfg.KeyFormat = digest.KeyWithInstance
				insts = []string{"", "a", "b"}
			} else if t.Chance(1, 2) {
				insts = []string{"", "a"}
			}
		case "hier-cas":
			cfg.Hier = true
			cfg.KeyFormat = digest.KeyWithInstance
			insts = []string{"", "a", "a/b", "ab", "b"}
		case "flat-ac":
			cfg.AC = true
			cfg.Mutable = true
			cfg.New = 1
			cfg.KeyFormat = digest.KeyWithInstance
			insts = []string{"", "a"}
			if cfg.BlockSize() < 40 {
				cfg.BlockSectors = (40 + cfg.SectorSize - 1) / cfg.SectorSize
			}
		}
		cfg.ValCache = cfg.Disk && t.Chance(1, 3)
		if wconfigPossible(cfg) && t.Chance(1, 3) {
			cfg.WConfig = true
			if !cfg.Hier {
				if !cfg.AC {
					cfg.KeyFormat = digest.KeyWithoutInstance
				}
			}
			if cfg.Disk && cfg.BlockCount() == 0 {
				cfg.Spare = 1
			}
		}
		wo := &workloadOpts{
			Objects:      4 + t.Choose(12),
			Clients:      1 + t.Choose(4),
			OpsPerClient: 4 + t.Choose(20),
			Insts:        insts,
			FailedPuts:   true,
			Composite:    variant == "flat-cas" || variant == "hier-cas",
			MaxHolds:     []int{0, 2, 10}[t.Choose(3)],
			PutWeight:    5, GetWeight: 5, FindWeight: 2, CompWeight: 2,
		}
		w := runStoreForward(c, &storeRunOpts{cfg: cfg, wo: wo})
		if w != nil && (c.Switches > 0 || w.putsFailed > 0) && w.readsOK > 0 {
			c.Nontrivial = true
		}
	}
}

func init() {
	sim.Register(&sim.Check{
		Prop:  "C01",
		Level: "exploration",
		Profiles: []sim.Profile{
			{Name: "flat-cas", Weight: 4, Fn: c01Profile("flat-cas")},
			{Name: "hier-cas", Weight: 3, Fn: c01Profile("hier-cas")},
			{Name: "flat-ac", Weight: 2, Fn: c01Profile("flat-ac")},
			{Name: "flat-cas-atomics", Weight: 1, Fn: withAtomicYields(c01Profile("flat-cas"))},
		},
		Components: map[string][]string{
			"real": {"pkg/blobstore/configuration new_blob_access.go (W-config runs: the store is assembled by the unmodified NewBlobAccessFromConfiguration; top-level decorators, metrics wrappers, allocator collectors)", "pkg/blobstore/local: flat and hierarchical blob access, old/current/new map, volatile block list, both block allocators, hashing key-location map, both record arrays", "pkg/blobstore/buffer", "pkg/blobstore CAS/AC read buffer factories, validation caching factory", "pkg/digest"},
			"stub": {"block devices (simdisk)", "upload sources / download sinks (simsource)", "slicer", "random generator (seeded)", "goroutine scheduling, sync.Mutex/RWMutex (verifsimrt)"},
		},
		Rule:           "a run = drawn geometry x 1-4 concurrent clients x 4-24 operations each (Put with valid/short/long/flipped/erroring sources in arbitrary chunkings, Get by 8 consumption methods with readers held open, GetFromComposite, FindMissing) under a drawn scheduling strategy; non-trivial = goroutines interleaved or an upload failed, and at least one read succeeded; distinct = distinct event-log hash",
		RequiredProbes: []string{"reads_ok", "reads_not_found", "puts_failed", "block_releases"},
	})
}
