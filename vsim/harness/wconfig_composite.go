package harness

import (
	"fmt"
	"strings"
	"time"

	"github.com/buildbarn/bb-storage/pkg/blobstore"
	"github.com/buildbarn/bb-storage/pkg/blobstore/configuration"
	"github.com/buildbarn/bb-storage/pkg/clock"
	"github.com/buildbarn/bb-storage/pkg/digest"
	"github.com/buildbarn/bb-storage/pkg/program"
	pb "github.com/buildbarn/bb-storage/pkg/proto/configuration/blobstore"
	digest_pb "github.com/buildbarn/bb-storage/pkg/proto/configuration/digest"
	eviction_pb "github.com/buildbarn/bb-storage/pkg/proto/configuration/eviction"
	grpc_pb "github.com/buildbarn/bb-storage/pkg/proto/configuration/grpc"
	"github.com/buildbarn/bb-storage/pkg/util"
	"vsim/sim"

	"google.golang.org/protobuf/types/known/durationpb"
	"google.golang.org/protobuf/types/known/emptypb"
	rt "verifsimrt"
)

// ---- W-config for composites: mirrored, read caching, read fallback,
// sharding and demultiplexing stores and their replicators are assembled by
// the unmodified configuration.NewBlobAccessFromConfiguration /
// NewBlobReplicatorFromConfiguration (new_blob_access.go and
// new_blob_replicator.go themselves run: which replicator goes in which
// direction, which side is source and sink, key formats handed to
// deduplicating/queued replicators, shard keys and weights, the instance name
// trie and patchers). The leaves are the harness's model stores: a "grpc"
// leaf whose address is "leaf:<name>" is resolved by a BlobAccessCreator that
// wraps the CAS creator and hands out the registered model store. ----

type leafCreator struct {
	configuration.BlobAccessCreator
	leaves map[string]configuration.BlobAccessInfo
}

func (lc *leafCreator) NewCustomBlobAccess(group program.Group, cfg *pb.BlobAccessConfiguration, nested configuration.NestedBlobAccessCreator) (configuration.BlobAccessInfo, string, error) {
	if g, ok := cfg.Backend.(*pb.BlobAccessConfiguration_Grpc); ok && g.Grpc.GetClient() != nil && strings.HasPrefix(g.Grpc.Client.Address, "leaf:") {
		info, ok := lc.leaves[g.Grpc.Client.Address[5:]]
		if !ok {
			return configuration.BlobAccessInfo{}, "", fmt.Errorf("unknown leaf %q", g.Grpc.Client.Address)
		}
		return info, "leaf", nil
	}
	return lc.BlobAccessCreator.NewCustomBlobAccess(group, cfg, nested)
}

func leafConfig(name string) *pb.BlobAccessConfiguration {
	return &pb.BlobAccessConfiguration{Backend: &pb.BlobAccessConfiguration_Grpc{Grpc: &pb.GrpcBlobAccessConfiguration{Client: &grpc_pb.ClientConfiguration{Address: "leaf:" + name}}}}
}

// replicatorConfig expresses the harness's replication strategies as a
// configuration message.
func replicatorConfig(strategy int, limit int64) *pb.BlobReplicatorConfiguration {
	local := &pb.BlobReplicatorConfiguration{Mode: &pb.BlobReplicatorConfiguration_Local{Local: &emptypb.Empty{}}}
	switch strategy {
	case rsDedup:
		return &pb.BlobReplicatorConfiguration{Mode: &pb.BlobReplicatorConfiguration_Deduplicating{Deduplicating: local}}
	case rsLimiting:
		return &pb.BlobReplicatorConfiguration{Mode: &pb.BlobReplicatorConfiguration_ConcurrencyLimiting{ConcurrencyLimiting: &pb.ConcurrencyLimitingBlobReplicatorConfiguration{Base: local, MaximumConcurrency: limit}}}
	case rsQueued:
		return &pb.BlobReplicatorConfiguration{Mode: &pb.BlobReplicatorConfiguration_Queued{Queued: &pb.QueuedBlobReplicatorConfiguration{Base: local,
			ExistenceCache: &digest_pb.ExistenceCacheConfiguration{CacheSize: 2, CacheDuration: durationpb.New(5 * time.Second), CacheReplacementPolicy: eviction_pb.CacheReplacementPolicy_LEAST_RECENTLY_USED}}}}
	case rsNoop:
		return &pb.BlobReplicatorConfiguration{Mode: &pb.BlobReplicatorConfiguration_Noop{Noop: &emptypb.Empty{}}}
	}
	return local
}

// buildComposite runs NewBlobAccessFromConfiguration over model leaves. The
// package variables the configuration code reads (clock, error logger) are
// replaced for the duration of the construction and of the run; restore puts
// them back. Note that the CAS creator's top-level decorator answers requests
// for the empty blob itself: workloads over configured composites use
// non-empty objects only.
func buildComposite(c *sim.RunCtx, s *rt.Sched, clk *sim.Clock, top *pb.BlobAccessConfiguration, leaves map[string]configuration.BlobAccessInfo) (blobstore.BlobAccess, digest.KeyFormat, func()) {
	return buildCompositeWith(c, s, clk, configuration.NewCASBlobAccessCreator(nil, 1<<20, nil), top, leaves)
}

// labelled declares every leaf as a label around inner, so that creators
// which build their nested backends themselves (the AC creator's
// completeness checker) can still reach a model leaf: a {label: name}
// backend is resolved by the generic code.
func labelled(inner *pb.BlobAccessConfiguration, names ...string) *pb.BlobAccessConfiguration {
	labels := map[string]*pb.BlobAccessConfiguration{}
	for _, n := range names {
		labels[n] = leafConfig(n)
	}
	return &pb.BlobAccessConfiguration{Backend: &pb.BlobAccessConfiguration_WithLabels{WithLabels: &pb.WithLabelsBlobAccessConfiguration{Backend: inner, Labels: labels}}}
}

func labelConfig(name string) *pb.BlobAccessConfiguration {
	return &pb.BlobAccessConfiguration{Backend: &pb.BlobAccessConfiguration_Label{Label: name}}
}

// bareCreator applies no top-level decorator (workloads with empty objects).
type bareCreator struct{ configuration.BlobAccessCreator }

func (bareCreator) WrapTopLevelBlobAccess(ba blobstore.BlobAccess) blobstore.BlobAccess { return ba }

func buildCompositeBare(c *sim.RunCtx, s *rt.Sched, clk *sim.Clock, top *pb.BlobAccessConfiguration, leaves map[string]configuration.BlobAccessInfo) (blobstore.BlobAccess, digest.KeyFormat, func()) {
	return buildCompositeWith(c, s, clk, bareCreator{configuration.NewCASBlobAccessCreator(nil, 1<<20, nil)}, top, leaves)
}

func buildCompositeWith(c *sim.RunCtx, s *rt.Sched, clk *sim.Clock, base configuration.BlobAccessCreator, top *pb.BlobAccessConfiguration, leaves map[string]configuration.BlobAccessInfo) (blobstore.BlobAccess, digest.KeyFormat, func()) {
	oldClock, oldLogger := clock.SystemClock, util.DefaultErrorLogger
	clock.SystemClock, util.DefaultErrorLogger = clk, &recLogger{}
	restore := func() { clock.SystemClock, util.DefaultErrorLogger = oldClock, oldLogger }
	group := newSimGroup(s, 0)
	lc := &leafCreator{BlobAccessCreator: base, leaves: leaves}
	info, err := configuration.NewBlobAccessFromConfiguration(group, top, lc)
	if err != nil {
		restore()
		panic(sim.HarnessError{Msg: fmt.Sprintf("W-config composite: NewBlobAccessFromConfiguration failed: %v", err)})
	}
	c.Count("probe_wconfig_composite", 1)
	return info.BlobAccess, info.DigestKeyFormat, restore
}
