package harness

import (
	"fmt"

	remoteexecution "github.com/bazelbuild/remote-apis/build/bazel/remote/execution/v2"
	"vsim/sim"

	"google.golang.org/grpc/codes"
)

// ---------- exhaustive small-case prologue ----------

type c13Shape struct {
	Name  string
	Fn    remoteexecution.DigestFunction_Value
	Inst  string
	Build func(b *c13B)
}

func c13D(ds ...*remoteexecution.Digest) []*remoteexecution.Digest { return ds }

// c13Shapes: ActionResults with at most 6 distinct references.
var c13Shapes = []c13Shape{
	{"empty", remoteexecution.DigestFunction_SHA256, "inst", func(b *c13B) {}},
	{"1file", remoteexecution.DigestFunction_MD5, "", func(b *c13B) { b.outFile(b.blob("a")) }},
	{"3files+stdout+stderr", remoteexecution.DigestFunction_SHA256, "inst", func(b *c13B) {
		b.outFile(b.blob("a"))
		b.outFile(b.blob("b")).Contents = []byte("b")
		b.outFile(b.blob("c"))
		b.cs.AR.StdoutDigest = b.blob("o")
		b.cs.AR.StderrDigest = b.blob("e")
		b.cs.AR.StderrRaw = []byte("e")
	}},
	{"6files", remoteexecution.DigestFunction_SHA1, "a/b", func(b *c13B) {
		for _, s := range []string{"a", "b", "c", "d", "e", "f"} {
			b.outFile(b.blob(s))
		}
	}},
	{"duplicates", remoteexecution.DigestFunction_SHA256, "inst", func(b *c13B) {
		b.outFile(b.blob("a"))
		b.outFile(b.blob("a"))
		b.outFile(b.blob("b"))
		b.outFile(nil)
		b.cs.AR.StdoutDigest = b.blob("a")
		b.cs.AR.StderrDigest = b.blob("b")
	}},
	{"dir-noroot", remoteexecution.DigestFunction_SHA256, "inst", func(b *c13B) {
		child := b.dir(c13D(b.blob("z")), nil)
		root := b.dir(c13D(b.blob("x"), b.blob("y")), c13D(b.dirRef(child)))
		_, t := b.addTree(root, child)
		b.outDir(t, nil)
		b.outFile(b.blob("w"))
	}},
	{"dir-root", remoteexecution.DigestFunction_SHA256, "inst", func(b *c13B) {
		child := b.dir(c13D(b.blob("z")), nil)
		root := b.dir(c13D(b.blob("x")), c13D(b.dirRef(child)))
		_, t := b.addTree(root, child)
		b.outDir(t, b.dirRef(root))
		b.cs.AR.StdoutDigest = b.blob("o")
	}},
	{"two-dirs", remoteexecution.DigestFunction_BLAKE3, "inst", func(b *c13B) {
		r1 := b.dir(c13D(b.blob("x")), nil)
		_, t1 := b.addTree(r1)
		b.outDir(t1, b.dirRef(r1))
		r2 := b.dir(c13D(b.blob("y")), nil)
		_, t2 := b.addTree(r2)
		b.outDir(t2, nil)
	}},
	{"empty-tree", remoteexecution.DigestFunction_SHA256, "", func(b *c13B) {
		_, t := b.addTree(nil)
		b.outDir(t, b.blob("r"))
		b.outFile(b.blob("a"))
	}},
	{"nested", remoteexecution.DigestFunction_SHA256, "inst", func(b *c13B) {
		c2 := b.dir(c13D(b.blob("y")), nil)
		c1 := b.dir(nil, c13D(b.dirRef(c2)))
		root := b.dir(c13D(b.blob("x")), c13D(b.dirRef(c1)))
		_, t := b.addTree(root, c1, c2)
		b.outDir(t, b.dirRef(root))
	}},
	{"shared-tree", remoteexecution.DigestFunction_SHA256, "inst", func(b *c13B) {
		child := b.dir(nil, nil)
		root := b.dir(c13D(b.blob("x")), c13D(b.dirRef(child)))
		_, t := b.addTree(root, child)
		b.outDir(t, nil)
		_, t = b.addTree(root, child)
		b.outDir(t, b.dirRef(root))
	}},
}

func (sh *c13Shape) build(mut func(i int, d *remoteexecution.Digest) *remoteexecution.Digest) (*c13Case, int) {
	b := c13NewBuilder(sh.Fn, sh.Inst)
	b.mut = mut
	sh.Build(b)
	b.cs.Notes = append(b.cs.Notes, "shape="+sh.Name)
	return b.cs, b.n
}

func c13SetTreeKind(cs *c13Case, kind int) {
	for _, k := range cs.TreeOrder {
		o := cs.Trees[k]
		o.Kind = kind
		o.Cuts = nil
		if (kind == c13TreeReader || kind == c13TreeChunk) && len(o.Served) > 1 {
			o.Cuts = []int{len(o.Served) / 2}
		}
	}
}

func c13Exhaustive(c *sim.RunCtx) {
	n := 0
	run := func(cs *c13Case) (*c13CAS, bool) {
		cas := runC13Case(c, cs)
		n++
		if c.Failed() {
			c.Sample["cases"] = n
			return cas, false
		}
		return cas, true
	}
	batches := []int{1, 2, 3, 4, 5, 7}

	// (1) every subset of the referenced objects missing, every batch size
	subsets := 0
	for si := range c13Shapes {
		sh := &c13Shapes[si]
		proto, _ := sh.build(nil)
		refs := c13Reference(proto, proto.AR).Refs
		if len(refs) > 6 {
			panic(sim.HarnessError{Msg: fmt.Sprintf("shape %s has %d references", sh.Name, len(refs))})
		}
		for _, batch := range batches {
			for _, kind := range []int{c13TreeSlice, c13TreeChunk} {
				if kind == c13TreeChunk && len(proto.TreeOrder) == 0 {
					continue
				}
				for mask := 0; mask < 1<<uint(len(refs)); mask++ {
					cs, _ := sh.build(nil)
					cs.Batch = batch
					c13SetTreeKind(cs, kind)
					// with streamed Trees the CAS also serves objects it reports
					// missing: FindMissing is then the only line of defence
					cs.GetIgnoresMissing = kind == c13TreeChunk
					for i, r := range refs {
						if mask>>uint(i)&1 == 1 {
							cs.Missing[r.Key] = 0
							cs.MissingOrder = append(cs.MissingOrder, r.Key)
							cs.fault("missing")
						}
					}
					cs.Consume = mask & 1
					cs.Composite = mask%5 == 4
					if _, ok := run(cs); !ok {
						return
					}
					subsets++
				}
			}
		}
	}
	c.Stats["exhaustive_missing_subsets"] = subsets

	// (2) failure / cancellation at every CAS call
	for si := range c13Shapes {
		sh := &c13Shapes[si]
		for _, batch := range []int{1, 2, 7} {
			cs, _ := sh.build(nil)
			cs.Batch = batch
			c13SetTreeKind(cs, c13TreeReader)
			cas, ok := run(cs)
			if !ok {
				return
			}
			calls := cas.calls
			for k := 0; k < calls; k++ {
				for variant := 0; variant < 3; variant++ {
					cs, _ := sh.build(nil)
					cs.Batch = batch
					c13SetTreeKind(cs, c13TreeReader)
					switch variant {
					case 0:
						cs.CASErrAt, cs.CASErrCode = k, codes.Unavailable
						cs.fault("cas-error")
					case 1:
						cs.CASErrAt, cs.CASErrCode = k, codes.NotFound
						cs.fault("cas-error")
					case 2:
						cs.CancelAt = k
						cs.fault("cancel")
					}
					if _, ok := run(cs); !ok {
						return
					}
				}
			}
		}
	}

	// (3) a Tree truncated at / flipped at / read error at every byte, and its
	// encoding cut at every byte under a matching digest
	for _, name := range []string{"dir-root", "nested"} {
		var sh *c13Shape
		for si := range c13Shapes {
			if c13Shapes[si].Name == name {
				sh = &c13Shapes[si]
			}
		}
		proto, _ := sh.build(nil)
		size := len(proto.Trees[proto.TreeOrder[0]].Orig)
		for _, batch := range []int{1, 7} {
			for k := 0; k < size; k++ {
				for variant := 0; variant < 5; variant++ {
					cs, _ := sh.build(nil)
					cs.Batch = batch
					o := cs.Trees[cs.TreeOrder[0]]
					switch variant {
					case 0, 1:
						o.Served = append([]byte{}, o.Orig[:k]...)
						o.Corrupt = fmt.Sprintf("trunc@%d", k)
						cs.fault("tree-corrupt")
					case 2, 3:
						o.Served = append([]byte{}, o.Orig...)
						o.Served[k] ^= 0x01
						o.Corrupt = fmt.Sprintf("flip@%d", k)
						cs.fault("tree-corrupt")
					case 4:
						// stream error after k bytes
						o.Kind = c13TreeReader
						if k > 0 {
							o.Cuts = []int{k}
							o.ErrAt = 1
						} else {
							o.ErrAt = 0
						}
						cs.fault("tree-read-error")
					}
					if variant == 0 || variant == 2 {
						o.Kind = c13TreeSlice
					} else if variant == 1 || variant == 3 {
						o.Kind = c13TreeReader
						if batch == 7 {
							o.Kind = c13TreeReaderAt
						} else if k > 0 && k < len(o.Served) {
							o.Cuts = []int{k}
						}
					}
					if _, ok := run(cs); !ok {
						return
					}
				}
				// the encoding itself cut at k, stored under the digest of the cut bytes
				b := c13NewBuilder(sh.Fn, sh.Inst)
				sh.Build(b)
				orig := b.cs.Trees[b.cs.TreeOrder[0]].Orig
				b2 := c13NewBuilder(sh.Fn, sh.Inst)
				_, t := b2.addTreeBytes(append([]byte{}, orig[:k]...), fmt.Sprintf("%s encoding-cut@%d", sh.Name, k))
				b2.outDir(t, b2.blob("r"))
				b2.cs.Batch = batch
				b2.cs.fault("tree-malformed")
				if _, ok := run(b2.cs); !ok {
					return
				}
			}
		}
	}

	// (4) a malformed digest at every position, every kind of malformation
	for _, name := range []string{"3files+stdout+stderr", "dir-noroot", "dir-root", "nested"} {
		var sh *c13Shape
		for si := range c13Shapes {
			if c13Shapes[si].Name == name {
				sh = &c13Shapes[si]
			}
		}
		_, positions := sh.build(nil)
		for pos := 0; pos < positions; pos++ {
			for kind := 0; kind < c13NMalform; kind++ {
				for _, batch := range []int{1, 7} {
					var cs *c13Case
					cs, _ = sh.build(func(i int, d *remoteexecution.Digest) *remoteexecution.Digest {
						if i == pos {
							return c13Malform(d, kind)
						}
						return d
					})
					cs.Batch = batch
					cs.fault("malformed-digest")
					cs.Notes = append(cs.Notes, fmt.Sprintf("malformed(pos=%d,kind=%d)", pos, kind))
					if _, ok := run(cs); !ok {
						return
					}
				}
			}
		}
	}

	// (5) the total-tree-size limit at every interesting value
	for _, name := range []string{"two-dirs", "shared-tree", "dir-root", "empty-tree"} {
		var sh *c13Shape
		for si := range c13Shapes {
			if c13Shapes[si].Name == name {
				sh = &c13Shapes[si]
			}
		}
		proto, _ := sh.build(nil)
		ri := c13Reference(proto, proto.AR)
		limits := map[int64]bool{0: true, 1: true}
		for _, k := range proto.TreeOrder {
			s := int64(len(proto.Trees[k].Orig))
			for _, v := range []int64{s - 1, s, s + 1} {
				limits[v] = true
			}
		}
		for _, s := range []int64{ri.TreeBytes, ri.TreeBytesDup} {
			for _, v := range []int64{s - 1, s, s + 1} {
				limits[v] = true
			}
		}
		for lim := int64(0); lim <= ri.TreeBytesDup+1; lim++ {
			if !limits[lim] {
				continue
			}
			cs, _ := sh.build(nil)
			cs.Batch = 3
			cs.MaxTree = lim
			cs.fault("tree-limit")
			if _, ok := run(cs); !ok {
				return
			}
		}
	}

	c.Stats["exhaustive_cases"] = n
	c.Sample["exhaustive_cases"] = n
	c.Nontrivial = true
}
