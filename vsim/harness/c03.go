package harness

import (
	"time"

	pb_local "github.com/buildbarn/bb-storage/pkg/proto/blobstore/local"
	"google.golang.org/protobuf/proto"

	"vsim/sim"

	rt "verifsimrt"
)

// ---- C03: acknowledged uploads survive graceful shutdown and committed epochs ----

// ackedUploads lists uploads acknowledged before seq limit (0 = all).
func ackedUploads(m *storeModel, limit int) []*upload {
	var out []*upload
	for _, u := range m.uploads {
		if u.Status == upSucceeded && u.Valid && (limit == 0 || u.Return < limit) {
			out = append(out, u)
		}
	}
	return out
}

// checkAckedReadable restarts over media m and requires every upload in
// acked that is certainly not evicted (allocation count at the probe <=
// count at its invocation + old_blocks) to be readable with identical bytes.
//
// Drawn from the crash tape: before that, zero to two further lifetimes that
// start up, stay idle (or only let time pass) and shut down gracefully - the
// state they write must still describe the restored blocks - and, in the
// probing lifetime, a few fresh uploads before the reads: they must go to
// free space (an overwritten object shows as an integrity error on a medium
// that lost nothing, as wrong bytes, or as NOT_FOUND within the bound).
func checkAckedReadable(c *sim.RunCtx, pp *persistPlan, m *media, model *storeModel, acked []*upload, baseAllocs int, class, what string, discards func() bool) {
	O := pp.cfg.Old
	ct := c.T.Crash
	for cycles := []int{0, 0, 1, 2}[ct.Choose(4)]; cycles > 0 && !c.Failed(); cycles-- {
		wait := ct.Chance(1, 2)
		lt := runLifetime(c, pp, m, &lifetimeOpts{proc: 8, baseAllocs: baseAllocs, model: model,
			script: func(lt *lifetime) {
				e := lt.w.e
				if wait {
					_, ch := e.clock.NewTimer(2*pp.cfg.MinEpoch + time.Second)
					rt.Recv(ch)
				}
				e.shutdownSeq = lt.w.s.Steps
				e.group.cancel()
				lt.w.s.WaitUntil("syncer routine returned", func() bool { return e.routineReturned })
			}})
		if c.Failed() || lt.w == nil || lt.final == nil {
			return
		}
		c.Count("probe_idle_lifetime_before_probe", 1)
		m = crashMedia(c, pp.cfg, lt.final, sim.CrashKeepAll, sim.CrashKeepAll, sim.CrashKeepAll)
		baseAllocs = lt.final.Allocs
	}
	fresh := ct.Choose(4)
	runLifetime(c, pp, m, &lifetimeOpts{proc: 9, baseAllocs: baseAllocs, model: model,
		script: func(lt *lifetime) {
			w := lt.w
			for i := 0; i < fresh && !c.Failed(); i++ {
				oi := pp.canon[ct.Choose(len(pp.objs))]
				w.exec(&storeOp{Kind: opPut, Obj: oi, Inst: pp.insts[ct.Choose(len(pp.insts))], Ctor: ctorSlice, Pad: ct.Choose(max(pp.cfg.BlockSize()-24, 1))})
				c.Count("probe_fresh_upload_before_probe", 1)
			}
			seen := map[string]bool{}
			// newest first: probing refreshes old objects, which rotates blocks
			for i := len(acked) - 1; i >= 0; i-- {
				u := acked[i]
				key := string(rune(u.Obj)) + "/" + u.Inst
				if seen[key] || c.Failed() {
					continue
				}
				seen[key] = true
				op := &storeOp{Kind: opGet, Obj: u.Obj, Inst: u.Inst, Cons: consByteSlice}
				if w.cfg.AC {
					op.Cons = consProto
				}
				res := -1
				w.onGetDone = func(op *storeOp, r int, a int) { res = r }
				w.exec(op)
				w.onGetDone = nil
				if c.Failed() {
					return
				}
				now := w.allocs()
				if res == getFoundWhole {
					c.Count("probe_acked_readable_after_restart", 1)
					continue
				}
				if now > u.AllocAt+O {
					c.Count("acked_possibly_evicted", 1)
					continue
				}
				if res == getOtherErr {
					c.Count("acked_probe_other_error", 1)
					continue
				}
				if discards() {
					c.Count("runs_excluded_index_discard", 1)
					return
				}
				c.Fail(class, "%s: upload of o%d under %q was acknowledged (allocations then: %d, now: %d, old_blocks=%d) but is not readable after the restart", what, u.Obj, u.Inst, u.AllocAt, now, O)
				return
			}
		}})
}

func c03Profile(variant string) func(c *sim.RunCtx) {
	return func(c *sim.RunCtx) {
		orig := c.T
		type setupOut struct {
			pp    *persistPlan
			model *storeModel
			m     *media
		}
		setup := func() setupOut {
			pp := drawPersistPlan(c.T.Plan, variant, false, true)
			if wconfigPossible(pp.cfg) && c.T.Plan.Chance(1, 2) {
				// wired by new_blob_access.go itself: the termination group routine,
				// the final sync, blockDevice.Sync as data syncer
				pp.cfg.WConfig = true
				if !pp.cfg.Hier {
					if !pp.cfg.AC {
						pp.cfg.KeyFormat = 0
					}
				}
			}
			m := newMedia(pp.cfg)
			if c.T.Plan.Chance(1, 3) {
				// a temporary state file left behind by a crash of an earlier
				// incarnation between creating and renaming it: a plausible state
				// message of another life, or garbage
				left, _ := proto.Marshal(&pb_local.PersistentState{OldestEpochId: 7, KeyLocationMapHashInitialization: 0x1234,
					Blocks: []*pb_local.BlockState{{BlockLocation: &pb_local.BlockLocation{OffsetBytes: 0, SizeBytes: int64(pp.cfg.BlockSize())}, WriteOffsetBytes: 3, EpochHashSeeds: []uint64{11, 12}}}})
				if c.T.Plan.Chance(1, 2) {
					left = []byte("\xff\xfe garbage left by a crash")
				}
				m.dir.Preload("state.new", left)
				c.Count("probe_leftover_temporary_state_file", 1)
			}
			return setupOut{pp, &storeModel{cfg: pp.cfg, objs: pp.objs, byTag: map[int]*upload{}}, m}
		}
		before := indexDiscardCount()
		discards := func() bool { return indexDiscardCount() != before }

		// reference forward run: learns the step count and yields the
		// quiescent committed points of part B
		s0 := setup()
		c.Sample["config"] = s0.pp.cfg.String()
		c.Note("cfg %s", s0.pp.cfg)
		fwd := runLifetime(c, s0.pp, s0.m, &lifetimeOpts{proc: 1, model: s0.model, snapshots: true, drain: true,
			script: func(lt *lifetime) { lt.runClients(s0.pp.clients, 1) }})
		if c.Failed() || fwd.w == nil {
			return
		}
		K := fwd.steps
		planVals := append([]uint32{}, c.T.Plan.Used()...)
		schedVals := append([]uint32{}, c.T.Sched.Used()...)
		faultVals := append([]uint32{}, c.T.Fault.Used()...)
		c.Count("forward_runs", 1)
		c.Count("puts_ok", fwd.w.putsOK)
		c.Count("state_writes", fwd.w.e.stateDone)
		maxPoints, _, _ := tierCaps(c)

		// Part B: process crash at a quiescent point after a completed commit
		var clean []*crashPoint
		for _, cp := range append(fwd.points, fwd.final) {
			if cp.CleanCommit {
				clean = append(clean, cp)
			}
		}
		clean = selectPoints(c, clean, maxPoints/2+1)
		for _, cp := range clean {
			acked := ackedUploads(s0.model, cp.CommitStartSeq)
			if len(acked) == 0 {
				continue
			}
			c.Count("probe_crash_after_commit", 1)
			m := crashMedia(c, s0.pp.cfg, cp, sim.CrashKeepAll, sim.CrashKeepAll, sim.CrashKeepAll)
			checkAckedReadable(c, s0.pp, m, modelAt(s0.model, cp.Step), acked, cp.Allocs, "acked-lost-after-committed-crash", "process crash after a completed commit", discards)
			if c.Failed() {
				return
			}
		}

		// Part A: graceful shutdown requested at step k of the same execution
		var ks []int
		if K <= maxPoints {
			for k := 1; k <= K; k++ {
				ks = append(ks, k)
			}
		} else {
			seen := map[int]bool{}
			for i := 0; i < 2*maxPoints && len(ks) < maxPoints; i++ {
				k := 1 + orig.Crash.Choose(K)
				if !seen[k] {
					seen[k] = true
					ks = append(ks, k)
				}
			}
			for i := 0; i < maxPoints && len(ks) < maxPoints; i++ {
				k := 1 + (i*K)/maxPoints
				if !seen[k] {
					seen[k] = true
					ks = append(ks, k)
				}
			}
		}
		for _, k := range ks {
			c.T = &sim.Tapes{Plan: sim.ReplayTape("plan", planVals), Sched: sim.ReplayTape("sched", schedVals), Fault: sim.ReplayTape("fault", faultVals), Crash: orig.Crash}
			sk := setup()
			// a third of the shutdowns meet transient failures of the data sync
			// and/or of the state write inside the commit they perform
			sf, df := 0, 0
			if orig.Crash.Chance(1, 3) {
				sf, df = orig.Crash.Choose(3), []int{0, 1, 2, 5}[orig.Crash.Choose(4)]
			}
			c.Note("shutdown at step %d (forced failures: %d syncs, %d directory operations)", k, sf, df)
			lt := runLifetime(c, sk.pp, sk.m, &lifetimeOpts{proc: 1, model: sk.model, shutdownAt: k, shutdownSyncFails: sf, shutdownDirFails: df,
				script: func(lt *lifetime) {
					lt.runClients(sk.pp.clients, 1)
					e := lt.w.e
					if e.shutdownSeq == 0 {
						// all clients finished before step k: request it now
						e.shutdownSeq = lt.w.s.Steps
						c.Count("fault_graceful_shutdown", 1)
						lt.armShutdownFaults(sk.m)
						e.group.cancel()
					}
					lt.w.s.WaitUntil("syncer routine returned", func() bool { return e.routineReturned })
				}})
			c.T = orig
			if c.Failed() || lt.w == nil {
				return
			}
			c.Count("shutdown_points", 1)
			for _, u := range sk.model.uploads {
				if u.Status == upFailed && u.Valid && u.Invoke >= lt.w.e.shutdownSeq {
					c.Count("probe_upload_refused_during_shutdown", 1)
				}
			}
			acked := ackedUploads(sk.model, 0)
			if len(acked) == 0 {
				continue
			}
			// graceful exit: every issued write is on the medium
			m := crashMedia(c, sk.pp.cfg, lt.final, sim.CrashKeepAll, sim.CrashKeepAll, sim.CrashKeepAll)
			checkAckedReadable(c, sk.pp, m, modelAt(sk.model, lt.final.Step), acked, lt.final.Allocs, "acked-lost-after-graceful-shutdown", "graceful shutdown", discards)
			if c.Failed() {
				return
			}
		}
		c.Sample["shutdown_points"] = len(ks)
		c.Sample["steps"] = K
		c.Nontrivial = fwd.w.putsOK > 0 && len(ks) > 2
	}
}

func init() {
	sim.Register(&sim.Check{
		Prop:  "C03",
		Level: "fault_enumeration",
		Profiles: []sim.Profile{
			{Name: "flat-cas", Weight: 4, Fn: c03Profile("flat")},
			{Name: "hier-cas", Weight: 2, Fn: c03Profile("hier")},
			{Name: "flat-ac", Weight: 2, Fn: c03Profile("ac")},
		},
		Components: map[string][]string{
			"real": {"pkg/blobstore/configuration new_blob_access.go (W-config runs: the store is assembled by the unmodified NewBlobAccessFromConfiguration; top-level decorators, metrics wrappers, allocator collectors)", "pkg/blobstore/local: periodic syncer (both routines), persistent block list, state store, allocator, record array, old/current/new map (restart promotion), flat/hierarchical blob access"},
			"stub": {"block devices (simdisk)", "state directory (simdir)", "clock", "program.Group (harness-owned shutdown context)", "scheduling (verifsimrt)"},
		},
		Rule:           "a reference forward run is recorded; for every step k (sampled beyond the tier's cap) the same execution is replayed with a graceful shutdown requested at step k, run until the syncer routine returns, restarted with the same configuration and every acknowledged, certainly-not-evicted upload (allocations at the probe <= allocations at its invocation + old_blocks) must be readable; in addition every quiescent point after a completed commit is crashed (process crash) and everything acknowledged before the commit started must be readable; non-trivial = uploads acknowledged and more than two shutdown points",
		RequiredProbes: []string{"shutdown_points", "probe_acked_readable_after_restart", "probe_crash_after_commit", "probe_upload_refused_during_shutdown"},
		Assumptions:    []string{"index sized generously; runs in which the index's discard collectors move are excluded (counted)"},
	})
}
