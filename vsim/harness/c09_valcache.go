package harness

import (
	"bytes"
	"fmt"
	"io"
	"time"

	remoteexecution "github.com/bazelbuild/remote-apis/build/bazel/remote/execution/v2"
	"github.com/buildbarn/bb-storage/pkg/blobstore"
	"github.com/buildbarn/bb-storage/pkg/blobstore/buffer"
	"github.com/buildbarn/bb-storage/pkg/digest"
	"github.com/buildbarn/bb-storage/pkg/eviction"
	"vsim/sim"

	rt "verifsimrt"
)

// ---- C09, "however a CAS buffer is created": through the validation
// caching read buffer factory (what block-device-backed stores use to allow
// random access). The factory hands out unvalidated buffers for digests that
// were validated recently, so the statement becomes: a read of content that
// mismatches digest d completes only if exactly d - same function, hash, size
// and, for instance-aware keys, instance name - received a positive verdict
// within the cache duration; matching content always completes; the verdicts
// passed on are never positive for mismatching content. ----

type vcDigest struct {
	D     digest.Digest
	Fn    remoteexecution.DigestFunction_Value
	Inst  string
	Hash  string
	Size  int
	Truth int // index of the content this digest truly describes, -1 if none
}

type vcByteReaderAt struct {
	data   []byte
	closes *int
}

func (r *vcByteReaderAt) ReadAt(p []byte, off int64) (int, error) {
	rt.Yield("src.ReadAt")
	if off >= int64(len(r.data)) {
		return 0, io.EOF
	}
	n := copy(p, r.data[off:])
	if n < len(p) {
		return n, io.EOF
	}
	return n, nil
}

func (r *vcByteReaderAt) Close() error { *r.closes++; return nil }

func c09ValidationCache(c *sim.RunCtx) {
	t := c.T.Plan
	kf := []digest.KeyFormat{digest.KeyWithoutInstance, digest.KeyWithInstance}[t.Choose(2)]
	duration := time.Duration(1+t.Choose(5)) * time.Second
	cacheSize := 1 + t.Choose(6)
	// contents: a few small objects of two sizes, so that digests collide in size
	var contents [][]byte
	for i, n := 0, 2+t.Choose(3); i < n; i++ {
		sz := []int{4, 4, 9}[t.Choose(3)]
		data := make([]byte, sz)
		for j := range data {
			data[j] = byte(0x30 + i*7 + j)
		}
		contents = append(contents, data)
	}
	// digests: true ones under several functions and instance names, and
	// "cross" ones: the hash one function computes, announced under another
	// function of the same hash length (never true for any content here)
	groups := [][]remoteexecution.DigestFunction_Value{
		{remoteexecution.DigestFunction_SHA256, remoteexecution.DigestFunction_BLAKE3, remoteexecution.DigestFunction_SHA256TREE},
		{remoteexecution.DigestFunction_SHA1, remoteexecution.DigestFunction_GITSHA1},
	}
	insts := []string{"", "a"}
	var ds []vcDigest
	add := func(fn remoteexecution.DigestFunction_Value, inst, hash string, size int) {
		for _, x := range ds {
			if x.Fn == fn && x.Inst == inst && x.Hash == hash && x.Size == size {
				return
			}
		}
		truth := -1
		for ci, data := range contents {
			if len(data) == size && RefHash(fn, data) == hash {
				truth = ci
			}
		}
		ds = append(ds, vcDigest{digest.MustNewDigest(inst, fn, hash, int64(size)), fn, inst, hash, size, truth})
	}
	for _, data := range contents {
		g := groups[t.Choose(len(groups))]
		for _, fn := range g {
			h := RefHash(fn, data)
			for _, in := range insts {
				add(fn, in, h, len(data))
				for _, fn2 := range g {
					add(fn2, in, h, len(data)) // cross digest when fn2 != fn (a true one if the functions agree on this input)
				}
			}
		}
	}
	type vop struct {
		Kind    int // 0 read 1 advance clock
		D       int
		Content int
		Ctor    int // 0 byte slice 1 reader-at 2 reader
		Cons    int // 0 ToByteSlice 1 ReadAt at 0 2 chunk reader 3 Discard
		Dt      time.Duration
	}
	var ops []vop
	var usedDigests []int
	for i, n := 0, 4+t.Choose(16); i < n; i++ {
		if t.Chance(1, 5) {
			ops = append(ops, vop{Kind: 1, Dt: time.Duration(1+t.Choose(8)) * duration / 4})
			continue
		}
		o := vop{D: t.Choose(len(ds)), Ctor: t.Choose(3), Cons: t.Pick(4, 2, 2, 1)}
		// half of the reads return to a digest that was read before: cached
		// verdicts only matter on a digest's second and later reads
		if len(usedDigests) > 0 && t.Chance(1, 2) {
			o.D = usedDigests[t.Choose(len(usedDigests))]
		}
		usedDigests = append(usedDigests, o.D)
		// mostly the content the digest describes (or would describe under another function), sometimes another one of the same size
		o.Content = t.Choose(len(contents))
		d := ds[o.D]
		if t.Chance(3, 4) {
			for ci, data := range contents {
				if len(data) == d.Size {
					for _, g := range groups {
						for _, fn := range g {
							if RefHash(fn, data) == d.Hash {
								o.Content = ci
							}
						}
					}
				}
			}
		}
		ops = append(ops, o)
	}
	desc := fmt.Sprintf("validation-cache keyformat=%v duration=%v size=%d contents=%d digests=%d ops=%d", kf, duration, cacheSize, len(contents), len(ds), len(ops))
	c.Sample["case"] = desc
	c.Note("case %s", desc)
	c.Sim(sim.SimOpts{MaxSteps: 100000, DeadlockClass: "deadlock"}, func(s *rt.Sched) {
		clk := sim.NewClock(s)
		f := blobstore.NewValidationCachingReadBufferFactory(blobstore.CASReadBufferFactory, digest.NewExistenceCache(clk, kf, cacheSize, duration, eviction.NewLRUSet[string]()))
		// reference: time of the last positive verdict per exact digest (instance included iff the key format includes it)
		type refKey struct {
			Fn   remoteexecution.DigestFunction_Value
			Hash string
			Size int
			Inst string
		}
		rk := func(d vcDigest) refKey {
			k := refKey{d.Fn, d.Hash, d.Size, ""}
			if kf == digest.KeyWithInstance {
				k.Inst = d.Inst
			}
			return k
		}
		validatedAt := map[refKey]time.Duration{}
		for i, o := range ops {
			if c.Failed() {
				return
			}
			if o.Kind == 1 {
				_, ch := clk.NewTimer(o.Dt)
				rt.Recv(ch)
				continue
			}
			d := ds[o.D]
			data := contents[o.Content]
			matches := len(data) == d.Size && RefHash(d.Fn, data) == d.Hash
			var verdicts []bool
			cb := func(ok bool) { verdicts = append(verdicts, ok) }
			closes := 0
			var b buffer.Buffer
			switch o.Ctor {
			case 0:
				b = f.NewBufferFromByteSlice(d.D, append([]byte{}, data...), cb)
			case 1:
				b = f.NewBufferFromReaderAt(d.D, &vcByteReaderAt{data: data, closes: &closes}, int64(len(data)), cb)
			default:
				src := sim.NewReaderSource("src", &sim.SrcScript{Data: data, Cuts: []int{len(data) / 2}, ErrAt: -1})
				b = f.NewBufferFromReader(d.D, src, cb)
			}
			var got []byte
			var err error
			complete := true
			switch o.Cons {
			case 0:
				got, err = b.ToByteSlice(1 << 20)
			case 1:
				p := make([]byte, d.Size)
				var n int
				n, err = b.ReadAt(p, 0)
				if err == io.EOF && n == d.Size {
					err = nil
				}
				got = p[:n]
			case 2:
				r := b.ToChunkReader(0, 3)
				for {
					chunk, rerr := r.Read()
					if rerr == io.EOF {
						break
					}
					if rerr != nil {
						err = rerr
						break
					}
					got = append(got, chunk...)
				}
				r.Close()
			default:
				b.Discard()
				complete = false
			}
			now := s.Now()
			last, was := validatedAt[rk(d)]
			recentlyValidated := was && now-last <= duration
			c.Logf("op%d digest=%s content=%d ctor=%d cons=%d matches=%v recentlyValidated=%v -> err=%v verdicts=%v", i, d.D, o.Content, o.Ctor, o.Cons, matches, recentlyValidated, err, verdicts)
			for _, v := range verdicts {
				if v && !matches {
					c.Fail("positive-verdict-on-mismatch", "the integrity callback received a positive verdict for digest %s although the content mismatches it [%s]", d.D, desc)
					return
				}
				if !v && matches {
					c.Fail("negative-verdict-on-match", "the integrity callback received a negative verdict for digest %s although the content matches it [%s]", d.D, desc)
					return
				}
				if v {
					validatedAt[rk(d)] = now
				}
			}
			if !complete {
				continue
			}
			if err == nil {
				if !matches && !recentlyValidated {
					c.Fail("completed-mismatch", "a read of content that mismatches digest %s (function %v) completed although this digest received no positive verdict within the cache duration %v (last: %v, now %v) [%s]", d.D, d.Fn, duration, last, now, desc)
					return
				}
				if o.Cons == 1 && len(got) <= len(data) && bytes.Equal(got, data[:len(got)]) {
					// ReadAt asked for as many bytes as the digest announces
				} else if !bytes.Equal(got, data) {
					c.Fail("wrong-bytes", "read returned %s, source held %s [%s]", short(got), short(data), desc)
					return
				}
				if !matches {
					c.Count("probe_valcache_unvalidated_mismatch_served", 1)
				} else if len(verdicts) == 0 {
					c.Count("probe_valcache_hit", 1)
				}
				c.Count("probe_valcache_read_ok", 1)
			} else {
				if matches {
					c.Fail("spurious-error", "a read of content matching digest %s failed with %v [%s]", d.D, err, desc)
					return
				}
				c.Count("probe_valcache_mismatch_rejected", 1)
			}
			if d.Truth < 0 {
				c.Count("probe_valcache_cross_function_digest", 1)
			}
		}
	})
	c.Nontrivial = true
}
