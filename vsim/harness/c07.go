package harness

import (
	"time"

	"vsim/sim"

	rt "verifsimrt"
)

// ---- C07: persistence never stalls ----

func chanClosedNoBlock(ch <-chan struct{}) bool {
	select {
	case <-ch:
		return true
	default:
		return false
	}
}

func c07Profile(variant string, faultsProfile bool, early bool, slow bool) func(c *sim.RunCtx) {
	return func(c *sim.RunCtx) {
		// (a copy per run: the judgement below switches it on for the profiles
		// whose timed clauses do not apply, which must not leak into the
		// profile's next run)
		faults := faultsProfile
		t := c.T.Plan
		pp := drawPersistPlan(t, variant, faults, true)
		cfg := pp.cfg
		if wconfigPossible(cfg) && cfg.Disk && t.Chance(1, 3) {
			// the wiring of new_blob_access.go itself: both syncer routines, the
			// data syncer, the minimum epoch interval taken from the
			// configuration message, the 10 s error retry interval. Observed at
			// the media (device Sync calls, state directory operations), the
			// clock (timers) and the termination group.
			cfg.WConfig = true
			if !cfg.Hier {
				if !cfg.AC {
					cfg.KeyFormat = 0
				}
			}
			cfg.RetryIvl = 10 * time.Second
		}
		c.Sample["config"] = cfg.String()
		c.Note("cfg %s faults=%v", cfg, faults)
		// media-level log (both modes): Sync calls of the data device and
		// operations on the state directory
		type mediaSync struct {
			StartSeq, DoneSeq int
			StartT, DoneT     time.Duration
		}
		type mediaEv struct {
			Seq int
			T   time.Duration
		}
		var msyncs []*mediaSync
		var mcreates, mcommits []mediaEv
		model := &storeModel{cfg: cfg, objs: pp.objs, byTag: map[int]*upload{}}
		m := newMedia(cfg)
		before := indexDiscardCount()
		discards := func() bool { return indexDiscardCount() != before }
		shutdown := t.Chance(1, 4)
		type relEvent struct {
			Seq int
			T   time.Duration
		}
		var releases []relEvent
		type ack struct {
			u    *upload
			fSeq int
			fT   time.Duration
		}
		var acks []ack
		var lt *lifetime
		var quiescent *crashPoint // media at the first quiescence, before the rotation probe
		lt = runLifetime(c, pp, m, &lifetimeOpts{proc: 1, model: model, snapshots: false, drain: true, faults: faults, noEarly: !faults && !early, deadlockCls: "stalled",
			script: func(l *lifetime) {
				w := l.w
				e := w.e
				m.data.OnSyncStart = func() {
					msyncs = append(msyncs, &mediaSync{StartSeq: w.s.Steps, StartT: w.s.Now()})
				}
				if slow {
					// a slow device: half of the Sync calls take between half and
					// three minimum epoch intervals of simulated time
					ft := c.T.Fault
					m.data.SyncDelay = func() time.Duration {
						if !ft.Chance(1, 2) {
							return 0
						}
						c.Count("fault_slow_sync", 1)
						return cfg.MinEpoch * time.Duration(1+ft.Choose(6)) / 2
					}
				}
				m.data.OnSyncDone = func() {
					if n := len(msyncs); n > 0 && msyncs[n-1].DoneSeq == 0 {
						msyncs[n-1].DoneSeq, msyncs[n-1].DoneT = w.s.Steps, w.s.Now()
					}
				}
				m.dir.OnOp = func(kind string) {
					switch kind {
					case "create":
						mcreates = append(mcreates, mediaEv{w.s.Steps, w.s.Now()})
					case "dirsync":
						mcommits = append(mcommits, mediaEv{w.s.Steps, w.s.Now()})
					}
				}
				if e.pbl != nil {
					// observe block-release wake-ups: the channel handed out by the
					// block list becomes closed when a block awaits release
					wasClosed := false
					prevHook := w.s.StepHook
					w.s.StepHook = func() {
						if prevHook != nil {
							prevHook()
						}
						cl := chanClosedNoBlock(e.pbl.GetBlockReleaseWakeup())
						if cl && !wasClosed {
							releases = append(releases, relEvent{w.s.Steps, w.s.Now()})
						}
						wasClosed = cl
					}
				}
				w.onPutDone = func(op *storeOp, u *upload, err error) {
					if err == nil {
						g := w.s.Cur().ID
						if cfg.WConfig {
							// (black box: the upload returned now; in the timed
							// profiles no simulated time passes inside an upload)
							acks = append(acks, ack{u, w.s.Steps, w.s.Now()})
						} else {
							acks = append(acks, ack{u, e.finalizeSeq[g], e.finalizeTime[g]})
						}
					}
				}
				l.runClients(pp.clients, 1)
				if shutdown && !c.Failed() {
					e.shutdownSeq = w.s.Steps
					e.shutdownT = w.s.Now()
					c.Count("fault_graceful_shutdown", 1)
					e.group.cancel()
				}
			},
			afterDrain: func(l *lifetime) {
				w := l.w
				e := w.e
				quiescent = l.snap("first-quiescence")
				if shutdown {
					if !e.routineReturned {
						c.Fail("shutdown-stalled", "the system is quiescent after a shutdown request but the syncer routine has not returned: %v", w.s.Blocked())
					}
					return
				}
				// (1) rotation probe: released blocks must become allocatable
				// again. With at least one spare block every full-block upload
				// must be accepted once the system is quiescent.
				n := cfg.BlockCount() + 1
				for i := 0; i < n && !c.Failed(); i++ {
					data := make([]byte, cfg.BlockSize())
					for j := range data {
						data[j] = byte(200 + i + j)
					}
					o := &object{Idx: len(w.m.objs), Content: data}
					o.Hash = RefHash(1, data)
					if cfg.AC {
						o.Hash = RefHash(1, []byte{byte(i), 0xAC})
					}
					w.m.objs = append(w.m.objs, o)
					l.pp.canon[o.Idx] = o.Idx
					op := &storeOp{Kind: opPut, Obj: o.Idx, Inst: "", Ctor: ctorSlice, Pad: max(cfg.BlockSize()-24, 1)}
					// One upload may need several rotations in a row while only
					// `spare` blocks can be in limbo per state write: a refusal is
					// legitimate, but every refusal releases a block, so a retry
					// after the system went quiet again must eventually succeed.
					accepted := false
					var perr error
					// In the strictly timed profiles (no injected failures, time only
					// moves when nothing is runnable) released blocks must come back
					// without any timer: "after any block release the state file is
					// rewritten without waiting for that interval". There the retries
					// only wait until every goroutine is blocked, never for a timer.
					strict := !faults && !early && !slow
					if strict {
						for attempt := 0; attempt <= cfg.BlockCount()+1 && !c.Failed(); attempt++ {
							w.onPutDone = func(op *storeOp, u *upload, err error) { perr = err }
							w.exec(op)
							w.onPutDone = nil
							w.s.WaitUntil("settle", func() bool { return w.s.Quiescent(1) })
							if perr == nil || Code(perr).String() != "Unavailable" {
								accepted = true
								break
							}
							c.Count("probe_rotation_retry", 1)
						}
						if accepted {
							c.Count("probe_release_without_timer", 1)
						}
					}
					waited := !accepted && strict
					for attempt := 0; !accepted && attempt <= cfg.BlockCount()+1 && !c.Failed(); attempt++ {
						w.onPutDone = func(op *storeOp, u *upload, err error) { perr = err }
						w.exec(op)
						w.onPutDone = nil
						l.drain(w.s, l.opts)
						if perr == nil || Code(perr).String() != "Unavailable" {
							accepted = true
							break
						}
						c.Count("probe_rotation_retry", 1)
					}
					if accepted && waited && !c.Failed() {
						c.Fail("release-write-waited", "upload %d of the rotation probe was refused %d times in a row with every goroutine blocked in between, and only accepted once timers were allowed to fire: releasing blocks waited for a timer", i, cfg.BlockCount()+2)
						return
					}
					if !accepted && !c.Failed() {
						c.Fail("released-blocks-not-reusable", "upload %d of the rotation probe keeps being refused (%v) although the system went quiescent after every attempt: blocks awaiting release never became allocatable", i, perr)
						return
					}
					c.Count("probe_rotation_after_drain", 1)
				}
			}})
		if c.Failed() || lt.w == nil {
			return
		}
		e := lt.w.e
		m.data.OnSyncStart, m.data.OnSyncDone, m.dir.OnOp = nil, nil, nil
		m.data.SyncDelay = nil
		if cfg.WConfig {
			e.routineG = e.group.firstG
			c.Count("wconfig_runs", 1)
		}
		c.Count("puts_ok", lt.w.putsOK)
		c.Count("data_syncs", e.syncDone)
		c.Count("state_writes", e.stateDone)
		c.Count("media_syncs", len(msyncs))
		c.Count("media_state_commits", len(mcommits))
		c.Count("block_release_wakeups", len(releases))
		c.Count("fault_sync_error", m.data.SyncErrs)
		c.Count("fault_state_dir_error", m.dir.OpErrs)
		retried := 0
		for _, r := range e.rounds {
			retried += r.DataSyncFailures
		}
		if cfg.WConfig {
			for i, r := range msyncs {
				if r.DoneSeq == 0 && i+1 < len(msyncs) {
					retried++ // a failed Sync call followed by another one
				}
			}
		}
		c.Count("probe_sync_retried", retried)

		// (2') timer-based form of the minimum interval, valid under any
		// schedule: every timer the syncer routine arms before a sync round is
		// due no earlier than one minimum epoch interval after the previous
		// one fired (the round can only start after its timer). Judged in the
		// profiles without injected failures (no error-retry timers).
		if !faults {
			var prev *sim.TimerRec
			for _, tr := range e.clock.Timers {
				if tr.G != e.routineG {
					continue
				}
				if e.shutdownT > 0 && tr.Created >= e.shutdownT {
					break
				}
				if prev != nil && prev.Fired {
					c.Count("probe_timer_interval_checked", 1)
					if tr.Deadline < prev.FireT+cfg.MinEpoch {
						c.Fail("syncs-too-close", "the syncer armed a timer due at %v although its previous timer fired at %v: the next data synchronisation may start only %v after the previous one, minimum epoch interval is %v", tr.Deadline, prev.FireT, tr.Deadline-prev.FireT, cfg.MinEpoch)
						return
					}
				}
				prev = tr
			}
		}
		if slow {
			// With a slow device only the spacing survives of the timed
			// statements ("plus the I/O time"): two data synchronisations never
			// start closer together than the minimum epoch interval, however
			// long the previous one took.
			var prev *mediaSync
			for _, r := range msyncs {
				if e.shutdownSeq > 0 && r.StartSeq >= e.shutdownSeq {
					break
				}
				if prev != nil {
					c.Count("probe_media_interval_checked_slow_device", 1)
					if r.StartT-prev.StartT < cfg.MinEpoch {
						c.Fail("syncs-too-close", "two Sync calls on the (slow) data device started %v apart (at %v and %v, the earlier one took until %v), minimum epoch interval is %v", r.StartT-prev.StartT, prev.StartT, r.StartT, prev.DoneT, cfg.MinEpoch)
						return
					}
					if prev.DoneT-prev.StartT >= cfg.MinEpoch {
						c.Count("probe_sync_after_overrun_spaced", 1)
					}
				}
				prev = r
			}
			faults = true
		}
		if early {
			// the remaining timed checks need time to stand still while
			// anything is runnable
			faults = true
		}
		// (2m/3m) the same two timed statements judged from the media alone
		// (device Sync calls, state directory operations): this is what the
		// W-config runs have, and in W-parts it cross-checks the recorder
		if !faults {
			var prev *mediaSync
			for _, r := range msyncs {
				if e.shutdownSeq > 0 && r.StartSeq >= e.shutdownSeq {
					break
				}
				if prev != nil {
					c.Count("probe_media_interval_checked", 1)
					if r.StartT-prev.StartT < cfg.MinEpoch {
						c.Fail("syncs-too-close", "two Sync calls on the data device started %v apart (at %v and %v), minimum epoch interval is %v", r.StartT-prev.StartT, prev.StartT, r.StartT, cfg.MinEpoch)
						return
					}
				}
				prev = r
			}
			for _, a := range acks {
				if !cfg.WConfig {
					break
				}
				if e.shutdownSeq > 0 && a.u.Return >= e.shutdownSeq {
					continue
				}
				if len(model.objs[a.u.Obj].Content) == 0 {
					continue // (the empty blob is never stored by a configured store)
				}
				// a Sync call that started while the upload was in progress may
				// or may not cover it: not judged
				ambiguous := false
				var cover *mediaSync
				for _, r := range msyncs {
					if r.StartSeq > a.u.Invoke && r.StartSeq <= a.u.Return {
						ambiguous = true
						break
					}
					if r.StartSeq > a.u.Return {
						cover = r
						break
					}
				}
				if ambiguous {
					c.Count("timed_bound_skipped_sync_during_upload", 1)
					continue
				}
				// certainly not evicted: fewer than old_blocks+1 further
				// allocations up to now (the collector only has the total)
				if quiescent == nil || quiescent.Allocs-a.u.AllocAt > cfg.Old {
					c.Count("timed_bound_skipped_possibly_evicted", 1)
					continue
				}
				if cover == nil {
					c.Fail("upload-never-synced", "upload of o%d acknowledged at step %d was never followed by a Sync of the data device", a.u.Obj, a.u.Return)
					return
				}
				c.Count("probe_timed_bound_checked", 1)
				c.Count("probe_timed_bound_checked_wconfig", 1)
				if cover.StartT > a.fT+cfg.MinEpoch {
					c.Fail("sync-too-late", "upload of o%d returned at %v; the next Sync of the data device started at %v, more than the minimum epoch interval %v later", a.u.Obj, a.fT, cover.StartT, cfg.MinEpoch)
					return
				}
				ok := false
				for _, sw := range mcommits {
					if cover.DoneSeq > 0 && sw.Seq >= cover.DoneSeq {
						ok = true
						if sw.T > cover.DoneT {
							c.Fail("state-write-delayed", "state file covering o%d became durable at %v although the data device was synchronised at %v and I/O takes no simulated time", a.u.Obj, sw.T, cover.DoneT)
							return
						}
						break
					}
				}
				if !ok {
					c.Fail("state-write-missing", "upload of o%d was synchronised but no state file was committed afterwards", a.u.Obj)
					return
				}
			}
		}
		// (2) two sync rounds are never closer than the minimum epoch interval
		// while the store is running (fault-free profile: time only moves when
		// nothing is runnable, so the round starts when its timer fired)
		if !faults && !cfg.WConfig {
			var prev *syncRound
			for _, r := range e.rounds {
				if r.Final || (e.shutdownSeq > 0 && r.StartSeq >= e.shutdownSeq) {
					break
				}
				if prev != nil {
					c.Count("probe_round_interval_checked", 1)
					if r.StartT-prev.StartT < cfg.MinEpoch {
						c.Fail("syncs-too-close", "two data synchronisations started %v apart (at %v and %v), minimum epoch interval is %v", r.StartT-prev.StartT, prev.StartT, r.StartT, cfg.MinEpoch)
						return
					}
				}
				prev = r
			}
			// (3) timed liveness: the round covering an upload starts within one
			// interval of the upload, and a state write follows it
			for _, a := range acks {
				if e.shutdownSeq > 0 && a.u.Return >= e.shutdownSeq {
					continue
				}
				var cover *syncRound
				for _, r := range e.rounds {
					if r.StartSeq > a.fSeq {
						cover = r
						break
					}
				}
				// an upload whose block may have been rotated out before the
				// covering sync has nothing left to commit: only uploads that
				// are certainly not evicted (fewer than old_blocks+1 further
				// allocations) are judged
				evictSeq := int(^uint(0) >> 1)
				if k := a.u.AllocAt + cfg.Old; k < len(e.alloc.AllocSeqs) {
					evictSeq = e.alloc.AllocSeqs[k]
				}
				if (cover == nil && evictSeq != int(^uint(0)>>1)) || (cover != nil && cover.StartSeq >= evictSeq) {
					c.Count("timed_bound_skipped_possibly_evicted", 1)
					continue
				}
				if cover == nil {
					c.Fail("upload-never-synced", "upload of o%d acknowledged at step %d was never followed by a data synchronisation", a.u.Obj, a.u.Return)
					return
				}
				c.Count("probe_timed_bound_checked", 1)
				if cover.StartT > a.fT+cfg.MinEpoch {
					c.Fail("sync-too-late", "upload of o%d stored at %v; covering data synchronisation started at %v, more than the minimum epoch interval %v later", a.u.Obj, a.fT, cover.StartT, cfg.MinEpoch)
					return
				}
				ok := false
				for _, sw := range e.swrites {
					if sw.OK && cover.DoneSeq > 0 && sw.GetSeq >= cover.DoneSeq {
						ok = true
						if sw.DoneT > cover.DoneT {
							c.Fail("state-write-delayed", "state write covering o%d completed at %v although its data synchronisation completed at %v and I/O takes no simulated time", a.u.Obj, sw.DoneT, cover.DoneT)
							return
						}
						break
					}
				}
				if !ok {
					c.Fail("state-write-missing", "upload of o%d was synchronised but no state write followed", a.u.Obj)
					return
				}
			}
			// (4) after a block release the state file is rewritten at once
			for _, rel := range releases {
				if e.shutdownSeq > 0 && rel.Seq >= e.shutdownSeq {
					continue
				}
				ok := false
				for _, sw := range e.swrites {
					if sw.GetSeq >= rel.Seq && sw.OK {
						ok = true
						c.Count("probe_release_write_checked", 1)
						if sw.GetT > rel.T {
							c.Fail("release-write-waited", "a block was released at %v but the state write that drops it only started at %v", rel.T, sw.GetT)
							return
						}
						break
					}
				}
				if !ok {
					c.Fail("release-write-missing", "a block was released at step %d but no state write followed", rel.Seq)
					return
				}
			}
		}
		// (5) end-to-end: at quiescence nothing is outstanding. A power loss
		// right now (unsynced data lost, never-synced index records kept) loses
		// no acknowledged upload that is certainly not evicted.
		acked := ackedUploads(model, 0)
		if e.shutdownSeq > 0 {
			acked = ackedUploads(model, e.shutdownSeq)
		}
		if quiescent == nil {
			quiescent = lt.final
		}
		// only uploads acknowledged before that quiescence are judged (the
		// rotation probe that follows uploads more)
		var judged []*upload
		for _, u := range acked {
			if u.Return <= quiescent.Step {
				judged = append(judged, u)
			}
		}
		if len(judged) > 0 {
			cm := crashMedia(c, cfg, quiescent, sim.CrashLoseAll, sim.CrashKeepAll, sim.CrashLoseAll)
			checkAckedReadable(c, pp, cm, modelAt(model, quiescent.Step), judged, quiescent.Allocs, "acked-not-committed-at-quiescence", "power loss at the first quiescence", discards)
		}
		c.Nontrivial = lt.w.putsOK > 0 && (retried > 0 || len(releases) > 0 || c.Switches > 0)
	}
}

var _ = rt.Yield

func init() {
	sim.Register(&sim.Check{
		Prop:  "C07",
		Level: "exploration",
		Profiles: []sim.Profile{
			{Name: "timed-flat", Weight: 3, Fn: c07Profile("flat", false, false, false)},
			{Name: "timed-ac", Weight: 1, Fn: c07Profile("ac", false, false, false)},
			{Name: "early-timers-flat", Weight: 3, Fn: c07Profile("flat", false, true, false)},
			{Name: "faults-flat", Weight: 3, Fn: c07Profile("flat", true, false, false)},
			{Name: "faults-hier", Weight: 1, Fn: c07Profile("hier", true, false, false)},
			{Name: "slow-device-flat", Weight: 2, Fn: c07Profile("flat", false, false, true)},
		},
		Components: map[string][]string{
			"real": {"pkg/blobstore/configuration new_blob_access.go (W-config runs: the store is assembled by the unmodified NewBlobAccessFromConfiguration; top-level decorators, metrics wrappers, allocator collectors)", "pkg/blobstore/local: periodic syncer (both routines), persistent block list (wake-up channels, epochs, deferred releases), directory-backed state store, allocator, the store above them"},
			"stub": {"block devices with failing Sync (simdisk)", "state directory with failing operations (simdir)", "clock (simulated, discrete-event)", "program.Group", "scheduling (verifsimrt)"},
		},
		Rule:           "a run = persistent store x 1-3 clients (uploads, reads, sleeps) x both syncer routines under a drawn schedule, optionally with transient sync/state-write failures and a shutdown; then a drain phase (faults stop, fair scheduling, clock jumps) that must reach quiescence; oracles: no panic, state writers never overlap, sync rounds >= one minimum epoch interval apart, the covering sync starts within one interval of each upload and a state write follows at once, a block release is followed by a state write with no timer wait, a rotation probe of block_count+1 full-block uploads is never refused, and a power loss at quiescence loses no acknowledged upload; non-trivial = uploads acknowledged and (a retry, a block release or an interleaving) happened",
		RequiredProbes: []string{"probe_sync_retried", "probe_round_interval_checked", "probe_timed_bound_checked", "probe_release_write_checked", "probe_rotation_after_drain", "probe_acked_readable_after_restart"},
	})
}
