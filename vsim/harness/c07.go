package harness

import (
	"time"

	"vsim/sim"

	rt "verifsimrt"
)

// ---- C07: persistence never stalls ----

func chanClosedNoBlock(ch <-chan struct{}) bool {
	select {
	case <-ch:
		return true
	default:
		return false
	}
}

func c07Profile(variant string, faults bool, early bool) func(c *sim.RunCtx) {
	return func(c *sim.RunCtx) {
		t := c.T.Plan
		pp := drawPersistPlan(t, variant, faults, true)
		cfg := pp.cfg
		c.Sample["config"] = cfg.String()
		c.Note("cfg %s faults=%v", cfg, faults)
		model := &storeModel{cfg: cfg, objs: pp.objs, byTag: map[int]*upload{}}
		m := newMedia(cfg)
		before := gatherMetrics().indexDiscards("sim")
		discards := func() bool { return gatherMetrics().indexDiscards("sim") != before }
		shutdown := t.Chance(1, 4)
		type relEvent struct {
			Seq int
			T   time.Duration
		}
		var releases []relEvent
		type ack struct {
			u    *upload
			fSeq int
			fT   time.Duration
		}
		var acks []ack
		var lt *lifetime
		var quiescent *crashPoint // media at the first quiescence, before the rotation probe
		lt = runLifetime(c, pp, m, &lifetimeOpts{proc: 1, model: model, snapshots: false, drain: true, faults: faults, noEarly: !faults && !early, deadlockCls: "stalled",
			script: func(l *lifetime) {
				w := l.w
				e := w.e
				// observe block-release wake-ups: the channel handed out by the
				// block list becomes closed when a block awaits release
				wasClosed := false
				prevHook := w.s.StepHook
				w.s.StepHook = func() {
					if prevHook != nil {
						prevHook()
					}
					cl := chanClosedNoBlock(e.pbl.GetBlockReleaseWakeup())
					if cl && !wasClosed {
						releases = append(releases, relEvent{w.s.Steps, w.s.Now()})
					}
					wasClosed = cl
				}
				w.onPutDone = func(op *storeOp, u *upload, err error) {
					if err == nil {
						g := w.s.Cur().ID
						acks = append(acks, ack{u, e.finalizeSeq[g], e.finalizeTime[g]})
					}
				}
				l.runClients(pp.clients, 1)
				if shutdown && !c.Failed() {
					e.shutdownSeq = w.s.Steps
					e.shutdownT = w.s.Now()
					c.Count("fault_graceful_shutdown", 1)
					e.group.cancel()
				}
			},
			afterDrain: func(l *lifetime) {
				w := l.w
				e := w.e
				quiescent = l.snap("first-quiescence")
				if shutdown {
					if !e.routineReturned {
						c.Fail("shutdown-stalled", "the system is quiescent after a shutdown request but the syncer routine has not returned: %v", w.s.Blocked())
					}
					return
				}
				// (1) rotation probe: released blocks must become allocatable
				// again. With at least one spare block every full-block upload
				// must be accepted once the system is quiescent.
				n := cfg.BlockCount() + 1
				for i := 0; i < n && !c.Failed(); i++ {
					data := make([]byte, cfg.BlockSize())
					for j := range data {
						data[j] = byte(200 + i + j)
					}
					o := &object{Idx: len(w.m.objs), Content: data}
					o.Hash = RefHash(1, data)
					if cfg.AC {
						o.Hash = RefHash(1, []byte{byte(i), 0xAC})
					}
					w.m.objs = append(w.m.objs, o)
					l.pp.canon[o.Idx] = o.Idx
					op := &storeOp{Kind: opPut, Obj: o.Idx, Inst: "", Ctor: ctorSlice, Pad: max(cfg.BlockSize()-24, 1)}
					// One upload may need several rotations in a row while only
					// `spare` blocks can be in limbo per state write: a refusal is
					// legitimate, but every refusal releases a block, so a retry
					// after the system went quiet again must eventually succeed.
					accepted := false
					var perr error
					for attempt := 0; attempt <= cfg.BlockCount()+1 && !c.Failed(); attempt++ {
						w.onPutDone = func(op *storeOp, u *upload, err error) { perr = err }
						w.exec(op)
						w.onPutDone = nil
						c.Picker.Fair = true
						w.s.WaitUntil("drain", func() bool { return w.s.Quiescent(1) && w.s.PendingTimers() == 0 })
						c.Picker.Fair = false
						if perr == nil || Code(perr).String() != "Unavailable" {
							accepted = true
							break
						}
						c.Count("probe_rotation_retry", 1)
					}
					if !accepted && !c.Failed() {
						c.Fail("released-blocks-not-reusable", "upload %d of the rotation probe keeps being refused (%v) although the system went quiescent after every attempt: blocks awaiting release never became allocatable", i, perr)
						return
					}
					c.Count("probe_rotation_after_drain", 1)
				}
			}})
		if c.Failed() || lt.w == nil {
			return
		}
		e := lt.w.e
		c.Count("puts_ok", lt.w.putsOK)
		c.Count("data_syncs", e.syncDone)
		c.Count("state_writes", e.stateDone)
		c.Count("block_release_wakeups", len(releases))
		c.Count("fault_sync_error", m.data.SyncErrs)
		c.Count("fault_state_dir_error", m.dir.OpErrs)
		retried := 0
		for _, r := range e.rounds {
			retried += r.DataSyncFailures
		}
		c.Count("probe_sync_retried", retried)

		// (2') timer-based form of the minimum interval, valid under any
		// schedule: every timer the syncer routine arms before a sync round is
		// due no earlier than one minimum epoch interval after the previous
		// one fired (the round can only start after its timer). Judged in the
		// profiles without injected failures (no error-retry timers).
		if !faults {
			var prev *sim.TimerRec
			for _, tr := range e.clock.Timers {
				if tr.G != e.routineG {
					continue
				}
				if e.shutdownT > 0 && tr.Created >= e.shutdownT {
					break
				}
				if prev != nil && prev.Fired {
					c.Count("probe_timer_interval_checked", 1)
					if tr.Deadline < prev.FireT+cfg.MinEpoch {
						c.Fail("syncs-too-close", "the syncer armed a timer due at %v although its previous timer fired at %v: the next data synchronisation may start only %v after the previous one, minimum epoch interval is %v", tr.Deadline, prev.FireT, tr.Deadline-prev.FireT, cfg.MinEpoch)
						return
					}
				}
				prev = tr
			}
		}
		if early {
			// the remaining timed checks need time to stand still while
			// anything is runnable
			faults = true
		}
		// (2) two sync rounds are never closer than the minimum epoch interval
		// while the store is running (fault-free profile: time only moves when
		// nothing is runnable, so the round starts when its timer fired)
		if !faults {
			var prev *syncRound
			for _, r := range e.rounds {
				if r.Final || (e.shutdownSeq > 0 && r.StartSeq >= e.shutdownSeq) {
					break
				}
				if prev != nil {
					c.Count("probe_round_interval_checked", 1)
					if r.StartT-prev.StartT < cfg.MinEpoch {
						c.Fail("syncs-too-close", "two data synchronisations started %v apart (at %v and %v), minimum epoch interval is %v", r.StartT-prev.StartT, prev.StartT, r.StartT, cfg.MinEpoch)
						return
					}
				}
				prev = r
			}
			// (3) timed liveness: the round covering an upload starts within one
			// interval of the upload, and a state write follows it
			for _, a := range acks {
				if e.shutdownSeq > 0 && a.u.Return >= e.shutdownSeq {
					continue
				}
				var cover *syncRound
				for _, r := range e.rounds {
					if r.StartSeq > a.fSeq {
						cover = r
						break
					}
				}
				// an upload whose block may have been rotated out before the
				// covering sync has nothing left to commit: only uploads that
				// are certainly not evicted (fewer than old_blocks+1 further
				// allocations) are judged
				evictSeq := int(^uint(0) >> 1)
				if k := a.u.AllocAt + cfg.Old; k < len(e.alloc.AllocSeqs) {
					evictSeq = e.alloc.AllocSeqs[k]
				}
				if (cover == nil && evictSeq != int(^uint(0)>>1)) || (cover != nil && cover.StartSeq >= evictSeq) {
					c.Count("timed_bound_skipped_possibly_evicted", 1)
					continue
				}
				if cover == nil {
					c.Fail("upload-never-synced", "upload of o%d acknowledged at step %d was never followed by a data synchronisation", a.u.Obj, a.u.Return)
					return
				}
				c.Count("probe_timed_bound_checked", 1)
				if cover.StartT > a.fT+cfg.MinEpoch {
					c.Fail("sync-too-late", "upload of o%d stored at %v; covering data synchronisation started at %v, more than the minimum epoch interval %v later", a.u.Obj, a.fT, cover.StartT, cfg.MinEpoch)
					return
				}
				ok := false
				for _, sw := range e.swrites {
					if sw.OK && cover.DoneSeq > 0 && sw.GetSeq >= cover.DoneSeq {
						ok = true
						if sw.DoneT > cover.DoneT {
							c.Fail("state-write-delayed", "state write covering o%d completed at %v although its data synchronisation completed at %v and I/O takes no simulated time", a.u.Obj, sw.DoneT, cover.DoneT)
							return
						}
						break
					}
				}
				if !ok {
					c.Fail("state-write-missing", "upload of o%d was synchronised but no state write followed", a.u.Obj)
					return
				}
			}
			// (4) after a block release the state file is rewritten at once
			for _, rel := range releases {
				if e.shutdownSeq > 0 && rel.Seq >= e.shutdownSeq {
					continue
				}
				ok := false
				for _, sw := range e.swrites {
					if sw.GetSeq >= rel.Seq && sw.OK {
						ok = true
						c.Count("probe_release_write_checked", 1)
						if sw.GetT > rel.T {
							c.Fail("release-write-waited", "a block was released at %v but the state write that drops it only started at %v", rel.T, sw.GetT)
							return
						}
						break
					}
				}
				if !ok {
					c.Fail("release-write-missing", "a block was released at step %d but no state write followed", rel.Seq)
					return
				}
			}
		}
		// (5) end-to-end: at quiescence nothing is outstanding. A power loss
		// right now (unsynced data lost, never-synced index records kept) loses
		// no acknowledged upload that is certainly not evicted.
		acked := ackedUploads(model, 0)
		if e.shutdownSeq > 0 {
			acked = ackedUploads(model, e.shutdownSeq)
		}
		if quiescent == nil {
			quiescent = lt.final
		}
		// only uploads acknowledged before that quiescence are judged (the
		// rotation probe that follows uploads more)
		var judged []*upload
		for _, u := range acked {
			if u.Return <= quiescent.Step {
				judged = append(judged, u)
			}
		}
		if len(judged) > 0 {
			cm := crashMedia(c, cfg, quiescent, sim.CrashLoseAll, sim.CrashKeepAll, sim.CrashLoseAll)
			checkAckedReadable(c, pp, cm, modelAt(model, quiescent.Step), judged, quiescent.Allocs, "acked-not-committed-at-quiescence", "power loss at the first quiescence", discards)
		}
		c.Nontrivial = lt.w.putsOK > 0 && (retried > 0 || len(releases) > 0 || c.Switches > 0)
	}
}

var _ = rt.Yield

func init() {
	sim.Register(&sim.Check{
		Prop:  "C07",
		Level: "exploration",
		Profiles: []sim.Profile{
			{Name: "timed-flat", Weight: 3, Fn: c07Profile("flat", false, false)},
			{Name: "timed-ac", Weight: 1, Fn: c07Profile("ac", false, false)},
			{Name: "early-timers-flat", Weight: 3, Fn: c07Profile("flat", false, true)},
			{Name: "faults-flat", Weight: 3, Fn: c07Profile("flat", true, false)},
			{Name: "faults-hier", Weight: 1, Fn: c07Profile("hier", true, false)},
		},
		Components: map[string][]string{
			"real": {"pkg/blobstore/local: periodic syncer (both routines), persistent block list (wake-up channels, epochs, deferred releases), directory-backed state store, allocator, the store above them"},
			"stub": {"block devices with failing Sync (simdisk)", "state directory with failing operations (simdir)", "clock (simulated, discrete-event)", "program.Group", "scheduling (verifsimrt)"},
		},
		Rule:           "a run = persistent store x 1-3 clients (uploads, reads, sleeps) x both syncer routines under a drawn schedule, optionally with transient sync/state-write failures and a shutdown; then a drain phase (faults stop, fair scheduling, clock jumps) that must reach quiescence; oracles: no panic, state writers never overlap, sync rounds >= one minimum epoch interval apart, the covering sync starts within one interval of each upload and a state write follows at once, a block release is followed by a state write with no timer wait, a rotation probe of block_count+1 full-block uploads is never refused, and a power loss at quiescence loses no acknowledged upload; non-trivial = uploads acknowledged and (a retry, a block release or an interleaving) happened",
		RequiredProbes: []string{"probe_sync_retried", "probe_round_interval_checked", "probe_timed_bound_checked", "probe_release_write_checked", "probe_rotation_after_drain", "probe_acked_readable_after_restart"},
	})
}
