package harness

import (
	"google.golang.org/protobuf/types/known/timestamppb"
	"bytes"
	"context"
	"fmt"
	"io"
	"strings"
	"time"

	remoteexecution "github.com/bazelbuild/remote-apis/build/bazel/remote/execution/v2"
	"github.com/buildbarn/bb-storage/pkg/blobstore"
	"github.com/buildbarn/bb-storage/pkg/blobstore/buffer"
	"github.com/buildbarn/bb-storage/pkg/blobstore/slicing"
	"github.com/buildbarn/bb-storage/pkg/digest"
	"vsim/sim"

	"google.golang.org/grpc/codes"
	"google.golang.org/grpc/status"
	"google.golang.org/protobuf/proto"
	rt "verifsimrt"
)

func statusUnavailable(msg string) error { return status.Error(codes.Unavailable, msg) }

// ---- objects and the reference model ----

type childRef struct {
	Obj  int
	Off  int
	Size int
}

type object struct {
	Idx      int
	Content  []byte // CAS content (AC: unused)
	Hash     string
	Children []childRef // non-empty: composite parent
}

const (
	upInflight = iota
	upSucceeded
	upFailed
)

type upload struct {
	Obj     int
	Inst    string
	Valid   bool // the source delivers complete, valid data
	Status  int
	Tag     int // AC: unique payload tag
	Payload []byte
	Invoke  int
	Return  int
	AllocAt int // allocation count at invocation
	// at the instant the store's Put returned (before the harness waits for
	// siblings): allocation count, detections
	// detections at the instant the upload's source was closed by its
	// consumer (at invocation for byte slices and stream clones): what was
	// detected before the body had been consumed
	BodyDetections           int
	RetAllocs, RetDetections int
}

type storeModel struct {
	cfg     *storeCfg
	objs    []*object
	uploads []*upload
	byTag   map[int]*upload
	nextTag int
}

func isComponentPrefix(a, b string) bool {
	if a == "" {
		return true
	}
	if a == b {
		return true
	}
	return strings.HasPrefix(b, a+"/")
}

// nameSees: may an upload under name up be seen under name j?
func (m *storeModel) nameSees(up, j string) bool {
	if m.cfg.Hier {
		return isComponentPrefix(up, j)
	}
	if m.cfg.KeyFormat == digest.KeyWithoutInstance {
		return true
	}
	return up == j
}

// mayBeVisible: some upload of obj that can be seen under inst succeeded or
// is still in flight with valid data.
func (m *storeModel) mayBeVisible(obj int, inst string) bool {
	if m.cfg.WConfig && !m.cfg.AC && len(m.objs[obj].Content) == 0 {
		// the CAS creator's top-level decorator makes the empty blob always present
		return true
	}
	for _, u := range m.uploads {
		if u.Obj == obj && u.Valid && u.Status != upFailed && m.nameSees(u.Inst, inst) {
			return true
		}
	}
	if !m.cfg.Hier && !m.cfg.AC {
		// Flat stores record the slices of a composite parent under the
		// children's own keys: a child is then legitimately readable as
		// "the slice of a successfully uploaded parent".
		h := m.objs[obj].Hash
		for _, p := range m.objs {
			for _, ch := range p.Children {
				if m.objs[ch.Obj].Hash != h {
					continue
				}
				for _, u := range m.uploads {
					if u.Obj == p.Idx && u.Valid && u.Status != upFailed && m.nameSees(u.Inst, inst) {
						return true
					}
				}
			}
		}
	}
	return false
}

func (m *storeModel) digestOf(o *object, inst string) digest.Digest {
	if m.cfg.AC {
		return digest.MustNewDigest(inst, remoteexecution.DigestFunction_SHA256, o.Hash, 100+int64(o.Idx))
	}
	return digest.MustNewDigest(inst, remoteexecution.DigestFunction_SHA256, o.Hash, int64(len(o.Content)))
}

// acPayload builds a unique ActionResult for an upload.
func acPayload(obj, tag, pad int) []byte {
	// (with a completion timestamp: the Action Cache's configured top-level
	// decorator then forwards the message unaltered)
	ar := &remoteexecution.ActionResult{ExitCode: int32(tag), StdoutRaw: bytes.Repeat([]byte{byte(0x30 + obj%10)}, pad), StderrRaw: []byte(fmt.Sprintf("k%d", obj)),
		ExecutionMetadata: &remoteexecution.ExecutedActionMetadata{WorkerCompletedTimestamp: &timestamppb.Timestamp{Seconds: 1700000000}}}
	b, err := proto.Marshal(ar)
	if err != nil {
		panic(err)
	}
	return b
}

// ---- operations ----

const (
	opPut = iota
	opGet
	opGetComposite
	opFind
	opRotate // filler upload of a fresh object to force allocation
	opSleep  // let simulated time pass
)

const (
	putValid = iota
	putShort
	putLong
	putFlip
	putIOErr
)

type storeOp struct {
	Kind    int
	Obj     int
	Child   int
	Inst    string
	PutMode int
	PutArg  int
	Cuts    []int
	Ctor    int
	Pad     int
	Cons    int
	Off     int
	MaxChunk int
	ReadBuf int
	Holds   int
	Set     []int
	SetInst []string

	InvokeSeq int // set when the operation is invoked
	Dur       time.Duration
}

func consName(c int) string {
	if c >= 0 && c < len(consNames) {
		return consNames[c]
	}
	return "PartialReadThenClose"
}

func (o *storeOp) String() string {
	switch o.Kind {
	case opPut:
		return fmt.Sprintf("Put(o%d@%q mode=%d arg=%d ctor=%d cuts=%v)", o.Obj, o.Inst, o.PutMode, o.PutArg, o.Ctor, o.Cuts)
	case opGet:
		return fmt.Sprintf("Get(o%d@%q cons=%s holds=%d)", o.Obj, o.Inst, consName(o.Cons), o.Holds)
	case opGetComposite:
		return fmt.Sprintf("GetFromComposite(o%d@%q child=%d cons=%s)", o.Obj, o.Inst, o.Child, consName(o.Cons))
	case opFind:
		return fmt.Sprintf("FindMissing(%v@%v)", o.Set, o.SetInst)
	case opSleep:
		return fmt.Sprintf("Sleep(%v)", o.Dur)
	}
	return "?"
}

// chunkOff: the offset at which a chunk-reader consumer opens the object.
func (o *storeOp) chunkOff() int {
	if o.ReadBuf%2 == 0 {
		return o.Off
	}
	return 0
}

// harnessSlicer carves a composite parent into its children.
type harnessSlicer struct {
	w      *storeWorld
	parent *object
	inst   string
}

func (sl *harnessSlicer) Slice(b buffer.Buffer, childDigest digest.Digest) (buffer.Buffer, []slicing.BlobSlice) {
	data, err := b.ToByteSlice(1 << 20)
	if err != nil {
		return buffer.NewBufferFromError(err), nil
	}
	var slices []slicing.BlobSlice
	var child buffer.Buffer
	for _, ch := range sl.parent.Children {
		cd := sl.w.m.digestOf(sl.w.m.objs[ch.Obj], sl.inst)
		slices = append(slices, slicing.BlobSlice{Digest: cd, OffsetBytes: int64(ch.Off), SizeBytes: int64(ch.Size)})
		if cd == childDigest && child == nil {
			if ch.Off+ch.Size <= len(data) {
				child = buffer.NewCASBufferFromByteSlice(cd, data[ch.Off:ch.Off+ch.Size], buffer.UserProvided)
			}
		}
	}
	if child == nil {
		child = buffer.NewBufferFromError(status.Error(codes.InvalidArgument, "child not part of parent"))
	}
	return child, slices
}

// storeWorld = store + model + bookkeeping for one forward run.
type storeWorld struct {
	c   *sim.RunCtx
	s   *rt.Sched
	cfg *storeCfg
	e   *storeEnv
	m   *storeModel
	ctx context.Context

	insts []string

	// allocation counter as seen by the oracle
	allocs func() int
	// discardsSeen, if set: has the index discarded an entry during this run
	discardsSeen func() bool

	readsOK, readsNotFound, readsOtherErr int
	putsOK, putsFailed                    int
	integritySignals                      int
	tolerateIntegrity                     bool // C08 runs corrupt the medium on purpose
	tolerateIOErrors                      bool // runs that inject device/allocation failures

	// hooks
	onGetDone  func(op *storeOp, res int, invokeAlloc int)
	onFindDone func(op *storeOp, present []bool, invokeAlloc int)
	onPutDone  func(op *storeOp, u *upload, err error)
	beforeOp   func(w *storeWorld, op *storeOp)
	srcStats   []*sim.SrcStats
	srcByteSlice int
}

func (w *storeWorld) seq() int { return w.s.Steps }

// classify a read/put error message: is it a data-integrity signal?
func integrityMessage(msg string) bool {
	return strings.Contains(msg, "Buffer has checksum") ||
		(strings.Contains(msg, "bytes in size, while") && strings.Contains(msg, "were expected")) ||
		strings.Contains(msg, "Failed to unmarshal message") ||
		strings.Contains(msg, "data integrity error")
}

func (w *storeWorld) checkReadError(op *storeOp, err error) {
	code := status.Code(err)
	msg := err.Error()
	if integrityMessage(msg) && !w.tolerateIntegrity {
		w.c.Fail("integrity-error-on-clean-medium", "%s failed with a data-integrity error on an uncorrupted medium: %v", op, err)
		return
	}
	switch code {
	case codes.NotFound:
		w.readsNotFound++
	default:
		w.readsOtherErr++
		w.c.Count("read_err_"+code.String(), 1)
		// On a medium without injected I/O errors or corruption a read fails
		// with NOT_FOUND, for lack of a free block to refresh into or during
		// shutdown (UNAVAILABLE), or because the caller asked for something
		// the object cannot give (INVALID_ARGUMENT: offset beyond the end,
		// size limit). Anything else - an I/O error, EOF from the index
		// device, INTERNAL - has no cause in the run.
		switch code {
		case codes.Unavailable, codes.InvalidArgument, codes.ResourceExhausted, codes.Canceled:
		default:
			if !w.tolerateIOErrors && !w.tolerateIntegrity && !(code == codes.Internal && (strings.Contains(msg, "already been released") || strings.Contains(msg, "disappeared"))) {
				w.c.Fail("unexpected-read-error", "%s failed with %v on a medium without injected errors", op, err)
			}
		}
	}
}

// doPut executes an upload operation.
func (w *storeWorld) doPut(op *storeOp) {
	m := w.m
	o := m.objs[op.Obj]
	d := m.digestOf(o, op.Inst)
	u := &upload{Obj: op.Obj, Inst: op.Inst, Invoke: w.seq(), AllocAt: w.allocs(), BodyDetections: len(w.e.detections)}
	var b buffer.Buffer
	var bodySrc *sim.SrcStats
	if m.cfg.AC {
		m.nextTag++
		u.Tag = m.nextTag
		u.Payload = acPayload(op.Obj, u.Tag, op.Pad)
		u.Valid = op.PutMode != putIOErr
		m.byTag[u.Tag] = u
		if op.PutMode == putIOErr {
			nchunks := len((&sim.SrcScript{Data: u.Payload, Cuts: op.Cuts}).Chunks())
			src := sim.NewReaderSource("put", &sim.SrcScript{Data: u.Payload, Cuts: op.Cuts, ErrAt: op.PutArg % max(nchunks, 1), Err: InjectedError(codes.Unavailable, "upload")})
			w.srcStats = append(w.srcStats, src.St)
			b = buffer.NewProtoBufferFromReader(&remoteexecution.ActionResult{}, src, buffer.UserProvided)
			w.c.Count("fault_upload_io_error", 1)
		} else {
			b = buffer.NewProtoBufferFromByteSlice(&remoteexecution.ActionResult{}, u.Payload, buffer.UserProvided)
		}
	} else {
		data := append([]byte{}, o.Content...)
		u.Valid = true
		errAt := -1
		switch op.PutMode {
		case putShort:
			if len(data) > 0 {
				k := 1 + op.PutArg%len(data)
				data = data[:len(data)-k]
				u.Valid = false
				w.c.Count("fault_upload_short", 1)
			}
		case putLong:
			for i := 0; i <= op.PutArg%3; i++ {
				data = append(data, byte(0xEE))
			}
			u.Valid = false
			w.c.Count("fault_upload_long", 1)
		case putFlip:
			if len(data) > 0 {
				data[op.PutArg%len(data)] ^= 0x80
				u.Valid = false
				w.c.Count("fault_upload_flip", 1)
			}
		case putIOErr:
			// fail one of the reads that must happen before the upload can
			// complete (a data chunk, or the EOF probe of an empty object)
			nchunks := len((&sim.SrcScript{Data: data, Cuts: op.Cuts}).Chunks())
			errAt = op.PutArg % max(nchunks, 1)
			u.Valid = false
			w.c.Count("fault_upload_io_error", 1)
		}
		script := &sim.SrcScript{Data: data, Cuts: op.Cuts, ErrAt: errAt, Err: InjectedError(codes.Unavailable, "upload")}
		ctor := op.Ctor
		if errAt >= 0 && ctor == ctorSlice {
			ctor = ctorChunk
		}
		switch ctor {
		case ctorSlice:
			b = buffer.NewCASBufferFromByteSlice(d, data, buffer.UserProvided)
			w.srcByteSlice++
		case ctorReader:
			src := sim.NewReaderSource("put", script)
			w.srcStats = append(w.srcStats, src.St)
			bodySrc = src.St
			b = buffer.NewCASBufferFromReader(d, src, buffer.UserProvided)
		default:
			src := sim.NewChunkSource("put", script)
			w.srcStats = append(w.srcStats, src.St)
			bodySrc = src.St
			b = buffer.NewCASBufferFromChunkReader(d, src, buffer.UserProvided)
		}
	}
	m.uploads = append(m.uploads, u)
	w.c.Logf("g%d invoke %s valid=%v", w.s.Cur().ID, op, u.Valid)
	// a fifth of the streamed uploads arrive as one half of a stream clone
	// whose other half is discarded or drained by a sibling goroutine (what
	// mirroring and replicating decorators hand to a backend)
	siblingDone := true
	if !m.cfg.AC && op.Ctor != ctorSlice && (op.PutArg+op.Pad)%5 == 0 {
		b1, b2 := b.CloneStream()
		b = b1
		siblingDone = false
		parks, drain := op.Pad%4, op.PutArg%2 == 0
		w.s.Go("upload-sibling", func() {
			defer func() { siblingDone = true }()
			for i := 0; i < parks; i++ {
				rt.Yield("sibling")
			}
			if drain {
				b2.IntoWriter(io.Discard)
			} else {
				b2.Discard()
			}
		})
		w.c.Count("probe_upload_via_stream_clone", 1)
	} else if bodySrc != nil {
		bodySrc.OnClose = func() { u.BodyDetections = len(w.e.detections) }
	}
	err := w.e.ba.Put(w.ctx, d, b)
	u.RetAllocs, u.RetDetections = w.allocs(), len(w.e.detections)
	w.s.WaitUntil("upload sibling", func() bool { return siblingDone })
	u.Return = w.seq()
	if err == nil {
		u.Status = upSucceeded
		w.putsOK++
		if !u.Valid {
			w.c.Fail("invalid-upload-acknowledged", "%s delivered invalid data but was acknowledged", op)
		}
	} else {
		u.Status = upFailed
		w.putsFailed++
		w.c.Count("put_err_"+status.Code(err).String(), 1)
		if u.Valid {
			// acceptable reasons for a valid upload to fail
			code := status.Code(err)
			msg := err.Error()
			ok := code == codes.Unavailable ||
				(code == codes.Internal && (strings.Contains(msg, "already been released") || strings.Contains(msg, "Existing object disappeared"))) ||
				(code == codes.InvalidArgument && strings.Contains(msg, "only capable of storing blobs"))
			if !ok && w.tolerateIOErrors && strings.Contains(msg, "injected") {
				ok = true
			}
			if !ok && !w.tolerateIntegrity {
				w.c.Fail("valid-upload-rejected", "%s with valid data failed with %v", op, err)
			}
			if code == codes.Internal && strings.Contains(msg, "already been released") {
				w.c.Count("probe_upload_block_rotated_away", 1)
			}
		}
	}
	w.c.Logf("g%d return %s err=%v", w.s.Cur().ID, op, err)
	if w.onPutDone != nil {
		w.onPutDone(op, u, err)
	}
}

// readBuffer consumes b by the op's method. Returns data and whether the
// whole object was obtained.
func (w *storeWorld) readBuffer(op *storeOp, b buffer.Buffer, size int) (got []byte, whole bool, err error) {
	hold := func() {
		for i := 0; i < op.Holds; i++ {
			rt.Yield("reader-hold")
		}
	}
	switch op.Cons {
	case consByteSlice, consCloneCopy, consCloneStream:
		hold()
		data, e := b.ToByteSlice(1 << 20)
		return data, e == nil, e
	case consReader:
		r := b.ToReader()
		p := make([]byte, max(op.ReadBuf, 1))
		for {
			n, e := r.Read(p)
			got = append(got, p[:n]...)
			if e == io.EOF {
				// Close() reports the error of an attached background task
				if cerr := r.Close(); cerr != nil {
					return got, false, cerr
				}
				return got, true, nil
			}
			if e != nil {
				r.Close()
				return got, false, e
			}
			hold()
		}
	case consChunkReader:
		// half of them at an offset inside, at or beyond the end of the object
		// (what a ByteStream Read with read_offset does)
		off := op.chunkOff()
		cr := b.ToChunkReader(int64(off), max(op.MaxChunk, 1))
		for {
			chunk, e := cr.Read()
			if e == io.EOF {
				cr.Close()
				return got, off == 0, nil
			}
			if e != nil {
				cr.Close()
				return got, false, e
			}
			got = append(got, chunk...)
			hold()
		}
	case consReadAt:
		p := make([]byte, op.ReadBuf)
		n, e := b.ReadAt(p, int64(op.Off))
		if e == io.EOF {
			e = nil
		}
		return p[:n], false, e
	case consIntoWriter:
		var buf bytes.Buffer
		hold()
		e := b.IntoWriter(&buf)
		return buf.Bytes(), e == nil, e
	case consProto:
		if w.cfg.AC {
			m, e := b.ToProto(&remoteexecution.ActionResult{}, 1<<20)
			if e != nil {
				return nil, false, e
			}
			data, _ := proto.Marshal(m)
			return data, true, nil
		}
		data, e := b.ToByteSlice(1 << 20)
		return data, e == nil, e
	case consDiscard:
		hold()
		b.Discard()
		return nil, false, nil
	}
	// partial read then close
	cr := b.ToChunkReader(0, 1)
	chunk, e := cr.Read()
	hold()
	cr.Close()
	if e != nil && e != io.EOF {
		return nil, false, e
	}
	return chunk, false, nil
}

func (w *storeWorld) doGet(op *storeOp) {
	m := w.m
	o := m.objs[op.Obj]
	d := m.digestOf(o, op.Inst)
	invokeAlloc := w.allocs()
	op.InvokeSeq = w.seq()
	w.c.Logf("g%d invoke %s", w.s.Cur().ID, op)
	var b buffer.Buffer
	expect := o.Content
	obj := op.Obj
	if op.Kind == opGetComposite {
		ch := o.Children[op.Child%len(o.Children)]
		co := m.objs[ch.Obj]
		cd := m.digestOf(co, op.Inst)
		b = w.e.ba.GetFromComposite(w.ctx, d, cd, &harnessSlicer{w: w, parent: o, inst: op.Inst})
		expect = o.Content[ch.Off : ch.Off+ch.Size]
	} else {
		b = w.e.ba.Get(w.ctx, d)
	}
	got, whole, err := w.readBuffer(op, b, len(expect))
	w.c.Logf("g%d return %s whole=%v err=%v got=%s", w.s.Cur().ID, op, whole, err, short(got))
	if err != nil {
		w.checkReadError(op, err)
		if w.onGetDone != nil {
			if status.Code(err) == codes.NotFound {
				w.onGetDone(op, getNotFound, invokeAlloc)
			} else {
				w.onGetDone(op, getOtherErr, invokeAlloc)
			}
		}
		return
	}
	if op.Cons == consDiscard {
		return
	}
	w.readsOK++
	// visibility (W-config: the CAS top-level decorator serves the empty blob
	// without consulting the store, also as the child of a composite)
	if op.Kind == opGetComposite && m.cfg.WConfig && len(expect) == 0 {
		return
	}
	if !m.mayBeVisible(obj, op.Inst) {
		w.c.Fail("read-of-never-uploaded", "%s succeeded although no successful or in-flight valid upload can be seen under %q", op, op.Inst)
		return
	}
	if m.cfg.AC {
		if whole {
			var ar remoteexecution.ActionResult
			if e := proto.Unmarshal(got, &ar); e != nil {
				w.c.Fail("wrong-bytes", "%s returned an unparsable payload", op)
				return
			}
			u := m.byTag[int(ar.ExitCode)]
			if u == nil || u.Obj != obj || !bytes.Equal(u.Payload, got) && !protoEqualBytes(u.Payload, got) {
				w.c.Fail("wrong-bytes", "%s returned a payload (tag %d) that was never uploaded for this key", op, ar.ExitCode)
				return
			}
			if u.Status == upFailed || !u.Valid {
				w.c.Fail("failed-upload-visible", "%s returned the payload of a failed upload (tag %d)", op, u.Tag)
				return
			}
			if !m.nameSees(u.Inst, op.Inst) {
				w.c.Fail("wrong-bytes", "%s returned a payload uploaded under %q", op, u.Inst)
				return
			}
		}
	} else if whole {
		if !bytes.Equal(got, expect) {
			w.c.Fail("wrong-bytes", "%s returned %s, expected %s", op, short(got), short(expect))
			return
		}
	} else if !w.tolerateIntegrity {
		// partial: must be the right range (when the medium is being
		// corrupted on purpose, a partial read may see wrong bytes before
		// validation gets a chance to fail)
		off := 0
		if op.Cons == consReadAt {
			off = op.Off
		}
		if op.Cons == consChunkReader {
			off = op.chunkOff()
			// (beyond the end: an error or no data, never bytes)
			if off > len(expect) && len(got) > 0 && !w.c.Failed() {
				w.c.Fail("wrong-bytes", "%s: a chunk reader opened at offset %d of a %d byte object delivered %s", op, off, len(expect), short(got))
				return
			}
		}
		if off <= len(expect) {
			end := off + len(got)
			if end > len(expect) || !bytes.Equal(got, expect[off:end]) {
				w.c.Fail("wrong-bytes", "%s returned partial data %s that is not the designated range of the object", op, short(got))
				return
			}
		}
	}
	if w.onGetDone != nil {
		if whole {
			w.onGetDone(op, getFoundWhole, invokeAlloc)
		} else {
			w.onGetDone(op, getFoundPartial, invokeAlloc)
		}
	}
}

const (
	getFoundWhole = iota
	getFoundPartial
	getNotFound
	getOtherErr
)

func protoEqualBytes(a, b []byte) bool {
	var x, y remoteexecution.ActionResult
	if proto.Unmarshal(a, &x) != nil || proto.Unmarshal(b, &y) != nil {
		return false
	}
	return proto.Equal(&x, &y)
}

func (w *storeWorld) doFind(op *storeOp) {
	m := w.m
	sb := digest.NewSetBuilder(len(op.Set))
	ds := make([]digest.Digest, len(op.Set))
	for i, oi := range op.Set {
		ds[i] = m.digestOf(m.objs[oi], op.SetInst[i])
		sb.Add(ds[i])
	}
	invokeAlloc := w.allocs()
	op.InvokeSeq = w.seq()
	w.c.Logf("g%d invoke %s", w.s.Cur().ID, op)
	missing, err := w.e.ba.FindMissing(w.ctx, sb.Build())
	w.c.Logf("g%d return %s missing=%d err=%v", w.s.Cur().ID, op, missing.Length(), err)
	if err != nil {
		w.checkReadError(op, err)
		return
	}
	miss := map[digest.Digest]bool{}
	for _, d := range missing.Items() {
		miss[d] = true
	}
	present := make([]bool, len(op.Set))
	for i, oi := range op.Set {
		if miss[ds[i]] {
			continue
		}
		present[i] = true
		if !m.mayBeVisible(oi, op.SetInst[i]) {
			w.c.Fail("present-but-never-uploaded", "%s reports o%d present under %q although no successful or in-flight valid upload can be seen there", op, oi, op.SetInst[i])
			return
		}
	}
	if w.onFindDone != nil {
		w.onFindDone(op, present, invokeAlloc)
	}
}

func (w *storeWorld) exec(op *storeOp) {
	if w.beforeOp != nil {
		w.beforeOp(w, op)
	}
	switch op.Kind {
	case opPut, opRotate:
		w.doPut(op)
	case opGet, opGetComposite:
		w.doGet(op)
	case opFind:
		w.doFind(op)
	case opSleep:
		_, ch := w.e.clock.NewTimer(op.Dur)
		rt.Recv(ch)
	}
}

// ---- workload generation ----

type workloadOpts struct {
	Objects     int
	Clients     int
	OpsPerClient int
	Insts       []string
	FailedPuts  bool // generate invalid uploads
	Composite   bool
	MaxHolds    int
	PutWeight, GetWeight, FindWeight, CompWeight int
	SleepWeight int
	SleepMax    time.Duration
}

func drawObjects(t *sim.Tape, cfg *storeCfg, n int, composite bool) []*object {
	bs := cfg.BlockSize()
	var objs []*object
	sizes := []int{0, 1, cfg.SectorSize - 1, cfg.SectorSize, cfg.SectorSize + 1, bs / 2, bs - 1, bs, bs + 1, 2, 3}
	for i := 0; i < n; i++ {
		sz := sizes[t.Choose(len(sizes))]
		if sz < 0 {
			sz = 0
		}
		if t.Chance(1, 3) {
			sz = t.Choose(bs + 1)
		}
		content := make([]byte, sz)
		for j := range content {
			content[j] = byte(i*37 + j*11 + 1)
		}
		if sz >= 1 {
			content[0] = byte(i + 1)
		}
		if sz >= 2 {
			content[1] = byte(t.Choose(256))
		}
		o := &object{Idx: i, Content: content}
		objs = append(objs, o)
	}
	// make composite parents: concatenation of 2-3 earlier small objects
	if composite && n >= 4 {
		k := 1 + t.Choose(2)
		for j := 0; j < k; j++ {
			pi := n - 1 - j
			var content []byte
			var ch []childRef
			cnt := 2 + t.Choose(2)
			for q := 0; q < cnt; q++ {
				ci := t.Choose(n - k)
				co := objs[ci]
				if len(content)+len(co.Content) > bs {
					continue
				}
				ch = append(ch, childRef{Obj: ci, Off: len(content), Size: len(co.Content)})
				content = append(content, co.Content...)
			}
			if len(ch) == 0 {
				continue
			}
			objs[pi].Content = content
			objs[pi].Children = ch
		}
	}
	// unique contents are not guaranteed for tiny sizes (0, 1): equal
	// contents are the same CAS object; canonicalise by hash.
	seen := map[string]int{}
	for _, o := range objs {
		o.Hash = RefHash(remoteexecution.DigestFunction_SHA256, o.Content)
		if cfg.AC {
			o.Hash = RefHash(remoteexecution.DigestFunction_SHA256, []byte(fmt.Sprintf("action-%d", o.Idx)))
		}
		if j, ok := seen[o.Hash]; ok {
			_ = j
		}
		seen[o.Hash] = o.Idx
	}
	return objs
}

// canonical maps objects with identical content onto one model object.
func canonicalise(objs []*object) map[int]int {
	first := map[string]int{}
	canon := map[int]int{}
	for _, o := range objs {
		if j, ok := first[o.Hash]; ok {
			canon[o.Idx] = j
		} else {
			first[o.Hash] = o.Idx
			canon[o.Idx] = o.Idx
		}
	}
	return canon
}

func drawOps(t *sim.Tape, cfg *storeCfg, objs []*object, canon map[int]int, wo *workloadOpts) [][]*storeOp {
	pick := func() int { return canon[t.Choose(len(objs))] }
	inst := func() string { return wo.Insts[t.Choose(len(wo.Insts))] }
	var parents []int
	for _, o := range objs {
		if len(o.Children) > 0 && canon[o.Idx] == o.Idx {
			parents = append(parents, o.Idx)
		}
	}
	var clients [][]*storeOp
	for ci := 0; ci < wo.Clients; ci++ {
		var ops []*storeOp
		for k := 0; k < wo.OpsPerClient; k++ {
			cw := wo.CompWeight
			if len(parents) == 0 {
				cw = 0
			}
			op := &storeOp{}
			switch t.Pick(wo.PutWeight, wo.GetWeight, wo.FindWeight, cw, wo.SleepWeight) {
			case 4:
				op.Kind = opSleep
				op.Dur = time.Duration(1+t.Choose(20)) * wo.SleepMax / 20
			case 0:
				op.Kind = opPut
				op.Obj = pick()
				op.Inst = inst()
				if wo.FailedPuts && !cfg.AC {
					op.PutMode = t.Pick(6, 1, 1, 1, 1)
				} else if wo.FailedPuts {
					op.PutMode = t.Pick(6, 0, 0, 0, 1) * 1
					if op.PutMode != 0 {
						op.PutMode = putIOErr
					}
				}
				op.PutArg = t.Choose(64)
				n := len(objs[op.Obj].Content)
				op.Cuts = sim.DrawCuts(t, n+3, 3)
				op.Ctor = t.Pick(1, 1, 2)
				op.Pad = t.Choose(max(cfg.BlockSize()-24, 1))
			case 1:
				op.Kind = opGet
				op.Obj = pick()
				op.Inst = inst()
				op.Cons = []int{consByteSlice, consChunkReader, consReader, consReadAt, consIntoWriter, consDiscard, consProto, 99}[t.Choose(8)]
				n := len(objs[op.Obj].Content)
				op.Off = t.Choose(n + 3)
				op.ReadBuf = 1 + t.Choose(n+2)
				op.MaxChunk = []int{1 << 16, 1, 2, 7}[t.Choose(4)]
				if wo.MaxHolds > 0 {
					op.Holds = t.Choose(wo.MaxHolds + 1)
				}
			case 2:
				op.Kind = opFind
				cnt := 1 + t.Choose(4)
				seen := map[string]bool{}
				for q := 0; q < cnt; q++ {
					oi, in := pick(), inst()
					key := fmt.Sprintf("%d/%s", oi, in)
					if seen[key] {
						continue
					}
					seen[key] = true
					op.Set = append(op.Set, oi)
					op.SetInst = append(op.SetInst, in)
				}
			case 3:
				op.Kind = opGetComposite
				op.Obj = parents[t.Choose(len(parents))]
				op.Child = t.Choose(4)
				op.Inst = inst()
				op.Cons = []int{consByteSlice, consChunkReader, consReader}[t.Choose(3)]
				op.ReadBuf = 1 + t.Choose(8)
				op.MaxChunk = []int{1 << 16, 1, 3}[t.Choose(3)]
			}
			ops = append(ops, op)
		}
		clients = append(clients, ops)
	}
	return clients
}

var _ = blobstore.RecommendedFindMissingDigestsCount
