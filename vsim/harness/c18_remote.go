package harness

import (
	"context"
	"fmt"
	"time"

	remoteexecution "github.com/bazelbuild/remote-apis/build/bazel/remote/execution/v2"
	"github.com/buildbarn/bb-storage/pkg/auth"
	"github.com/buildbarn/bb-storage/pkg/blobstore"
	"github.com/buildbarn/bb-storage/pkg/digest"
	"github.com/buildbarn/bb-storage/pkg/eviction"
	auth_pb "github.com/buildbarn/bb-storage/pkg/proto/auth"

	"vsim/sim"

	"google.golang.org/grpc"
	"google.golang.org/grpc/codes"
	"google.golang.org/grpc/status"
	"google.golang.org/protobuf/types/known/emptypb"
	"google.golang.org/protobuf/types/known/structpb"
	"google.golang.org/protobuf/types/known/timestamppb"

	rt "verifsimrt"
)

// ---- C18, remote authorizer under concurrent callers ----
//
// The authorizing decorator over the repository's remote authorizer (request
// deduplication and response cache) whose authorization service is a stub
// with one fixed answer per instance name for the whole run: allow, deny,
// an answer that is neither, or a failing call. 2-4 simulated callers issue
// Gets for the same few names at the same time; the service call is a
// sequence of scheduling points, so callers pile up behind a pending request.
// Because the answer per name never changes, caching and deduplication must
// be invisible: a Get reaches the backend iff the service allows its name,
// and every other Get fails without the backend being contacted.

const (
	c18RAllow = iota
	c18RDeny
	c18RInvalid
	c18RFail
)

type c18RemoteConn struct {
	c       *sim.RunCtx
	s       *rt.Sched
	clk     *sim.Clock
	verdict map[string]int
	ttl     map[string]int // 0 none, 1 in the future, 2 already past
	ft      *sim.Tape
	calls   int
}

func (cn *c18RemoteConn) Invoke(ctx context.Context, method string, args, reply interface{}, opts ...grpc.CallOption) error {
	req := args.(*auth_pb.AuthorizeRequest)
	cn.calls++
	for i, n := 0, 1+cn.ft.Choose(4); i < n; i++ {
		rt.Yield("authz.Authorize")
	}
	out := reply.(*auth_pb.AuthorizeResponse)
	switch cn.ttl[req.InstanceName] {
	case 1:
		out.CacheExpirationTime = timestamppb.New(cn.clk.Now().Add(10 * time.Second))
	case 2:
		out.CacheExpirationTime = timestamppb.New(cn.clk.Now().Add(-time.Second))
	}
	switch cn.verdict[req.InstanceName] {
	case c18RAllow:
		out.Verdict = &auth_pb.AuthorizeResponse_Allow{Allow: &emptypb.Empty{}}
	case c18RDeny:
		out.Verdict = &auth_pb.AuthorizeResponse_Deny{Deny: "c18-remote: denied"}
	case c18RInvalid:
	default:
		cn.c.Count("fault_authorization_call_failed", 1)
		return status.Error(codes.Unavailable, "c18-remote: authorization service unreachable")
	}
	return nil
}

func (cn *c18RemoteConn) NewStream(ctx context.Context, desc *grpc.StreamDesc, method string, opts ...grpc.CallOption) (grpc.ClientStream, error) {
	return nil, status.Error(codes.Unimplemented, "c18-remote: no streams")
}

func c18Remote(c *sim.RunCtx) {
	t := c.T.Plan
	pool := []string{"", "a", "a/b", "t-x"}
	names := pool[:2+t.Choose(3)]
	verdict, ttl := map[string]int{}, map[string]int{}
	desc := ""
	for _, n := range names {
		verdict[n] = t.Pick(3, 2, 1, 3)
		ttl[n] = t.Choose(3)
		desc += fmt.Sprintf("%q:%d/%d ", n, verdict[n], ttl[n])
	}
	cacheSize := []int{0, 1, 2, 8}[t.Choose(4)]
	clients := 2 + t.Choose(3)
	var plans [][]int
	for i := 0; i < clients; i++ {
		var ops []int
		for j, n := 0, 2+t.Choose(6); j < n; j++ {
			ops = append(ops, t.Choose(len(names)))
		}
		plans = append(plans, ops)
	}
	desc = fmt.Sprintf("remote-authorizer names=%scache=%d plans=%v", desc, cacheSize, plans)
	c.Sample["case"] = desc
	c.Note("case %s", desc)
	c.Sim(sim.SimOpts{MaxSteps: 200000, DeadlockClass: "deadlock", PanicClass: "panic"}, func(s *rt.Sched) {
		clk := sim.NewClock(s)
		conn := &c18RemoteConn{c: c, s: s, clk: clk, verdict: verdict, ttl: ttl, ft: c.T.Fault}
		scope, _ := structpb.NewValue("c18")
		authz := auth.NewRemoteAuthorizer(conn, scope, clk, eviction.NewLRUSet[auth.RemoteAuthorizerCacheKey](), cacheSize)
		rec := &c18Rec{c: c, quiet: false}
		backend := &c18Backend{rec: rec, store: map[string][]byte{}}
		ds := map[string]digest.Digest{}
		for i, n := range names {
			d := RefDigest(n, remoteexecution.DigestFunction_SHA256, c18Content(i))
			ds[n] = d
			backend.store[c18Key(d)] = c18Content(i)
		}
		ba := blobstore.NewAuthorizingBlobAccess(backend, authz, authz, authz)
		md, err := auth.NewAuthenticationMetadataFromProto(&auth_pb.AuthenticationMetadata{Public: structpb.NewStringValue("c18-caller")})
		if err != nil {
			panic(sim.HarnessError{Msg: "c18 remote: " + err.Error()})
		}
		ctx := auth.NewContextWithAuthenticationMetadata(context.Background(), md)
		done := 0
		for ci, ops := range plans {
			ci, ops := ci, ops
			s.Go(fmt.Sprintf("caller%d", ci), func() {
				defer func() { done++ }()
				for _, o := range ops {
					if c.Failed() {
						return
					}
					n := names[o]
					data, err := ba.Get(ctx, ds[n]).ToByteSlice(1 << 20)
					c.Note("caller%d Get under %q -> %v", ci, n, status.Code(err))
					if verdict[n] == c18RAllow {
						if err != nil {
							c.Fail("granted-name-rejected", "Get under %q failed with %v although the authorization service allows that name [%s]", n, err, desc)
						} else if string(data) != string(c18Content(o)) {
							c.Fail("wrong-bytes", "Get under %q returned %q [%s]", n, data, desc)
						}
						c.Count("probe_remote_allowed", 1)
						continue
					}
					c.Count("probe_remote_refused", 1)
					if err == nil {
						c.Fail("backend-reached-without-grant", "Get under %q succeeded although the authorization service never allowed that name (its answer: %d) [%s]", n, verdict[n], desc)
						return
					}
					if status.Code(err) != codes.PermissionDenied {
						c.Fail("refusal-with-other-code", "Get under %q failed with %v, expected PERMISSION_DENIED [%s]", n, err, desc)
						return
					}
				}
			})
			if t.Chance(1, 3) {
				clk2 := time.Duration(1+t.Choose(12)) * time.Second
				s.Go("time", func() { s.Advance(clk2) })
			}
		}
		s.WaitUntil("callers", func() bool { return done == len(plans) })
		// the backend was contacted only for names the service allows
		for _, bc := range rec.backend {
			for _, n := range names {
				if len(bc.Digests) > 0 && bc.Digests[0] == c18Key(ds[n]) && verdict[n] != c18RAllow {
					c.Fail("backend-reached-without-grant", "the backend received %s for a digest under %q, which the authorization service never allowed [%s]", bc.Op, n, desc)
				}
			}
		}
		c.Count("probe_remote_authorizer_run", 1)
		c.Count("remote_authorization_calls", conn.calls)
	})
	c.Nontrivial = true
}
