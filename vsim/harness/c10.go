package harness

import (
	"github.com/buildbarn/bb-storage/pkg/digest"
	"vsim/sim"

	rt "verifsimrt"
)

// ---- C10: hierarchical CAS visibility ----

// (names with dashes: the digest string is dash-separated, and "t-" is a
// string prefix but not a component prefix of "t-a")
// (names with "." and ".." components: legal instance names, and plain
// strings - "x/../a/c" is not below "a", "a/../b" is below "a" and "a/..")
var c10Names = []string{"", "a", "a/b", "a/b/c", "ab", "b", "t-", "t-a", "t-a/b-c", "x/../a/c", "a/..", "a/../b", "."}

func c10Profile(noEviction bool) func(c *sim.RunCtx) {
	return func(c *sim.RunCtx) {
		t := c.T.Plan
		cfg := drawStoreCfg(t, false, noEviction)
		cfg.Hier = true
		cfg.KeyFormat = digest.KeyWithInstance
		wo := &workloadOpts{
			Objects:      3 + t.Choose(8),
			Clients:      1 + t.Choose(4),
			OpsPerClient: 6 + t.Choose(24),
			Insts:        c10Names,
			FailedPuts:   true,
			Composite:    false,
			MaxHolds:     []int{0, 2}[t.Choose(2)],
			PutWeight:    5, GetWeight: 5, FindWeight: 4, CompWeight: 0,
		}
		before := indexDiscardCount()
		if noEviction {
			// a store larger than everything that is uploaded: nothing rotates out
			if cfg.Disk {
				cfg.SectorSize, cfg.BlockSectors = 16, 16
			} else {
				cfg.BlockSectors = 256
			}
			cfg.Old, cfg.Cur, cfg.New, cfg.Spare = 3, 3, 3, 3
			wo.Objects = 3 + t.Choose(4)
			wo.OpsPerClient = 4 + t.Choose(10)
		}
		if wconfigPossible(cfg) && cfg.Disk && t.Chance(1, 3) {
			// assembled by NewBlobAccessFromConfiguration; half of these behind
			// an existence cache, which keys by the key format the hierarchical
			// backend announces: a cached "present" under one name must not
			// leak to an unrelated name
			cfg.WConfig = true
			cfg.ExistCache = t.Chance(1, 2)
			cfg.Demux = t.Chance(1, 3)
			if cfg.BlockCount() == 0 {
				cfg.Spare = 1
			}
			c.Count("probe_wconfig_run", 1)
		}
		opts := &storeRunOpts{cfg: cfg, wo: wo}
		opts.setup = func(w *storeWorld) {
			if !noEviction {
				return
			}
			// converse: once a valid upload under I has returned, the object is
			// readable under every J below I
			w.onGetDone = func(op *storeOp, res int, invokeAlloc int) {
				if res != getNotFound {
					return
				}
				for _, u := range w.m.uploads {
					if u.Obj == op.Obj && u.Valid && u.Status == upSucceeded && u.Return <= op.InvokeSeq && isComponentPrefix(u.Inst, op.Inst) {
						if indexDiscardCount() != before {
							c.Count("runs_excluded_index_discard", 1)
							return
						}
						if w.releases() > 0 {
							c.Count("runs_excluded_rotation", 1)
							return
						}
						c.Fail("uploaded-object-invisible", "%s: NOT_FOUND although a valid upload under %q returned before and nothing was evicted", op, u.Inst)
						return
					}
				}
			}
			w.onFindDone = func(op *storeOp, present []bool, invokeAlloc int) {
				for i, p := range present {
					if p {
						continue
					}
					for _, u := range w.m.uploads {
						if u.Obj == op.Set[i] && u.Valid && u.Status == upSucceeded && u.Return <= op.InvokeSeq && isComponentPrefix(u.Inst, op.SetInst[i]) {
							if indexDiscardCount() != before || w.releases() > 0 {
								c.Count("runs_excluded_index_discard", 1)
								return
							}
							c.Fail("uploaded-object-invisible", "%s: o%d reported missing under %q although a valid upload under %q returned before and nothing was evicted", op, op.Set[i], op.SetInst[i], u.Inst)
							return
						}
					}
				}
			}
		}
		// final sweep: probe every object under every name of the tree
		opts.after = func(w *storeWorld) {
			done := false
			w.s.GoProc("sweep", 1, false, func() {
				defer func() { done = true }()
				for oi := range w.m.objs {
					if canonicalise(w.m.objs)[oi] != oi {
						continue
					}
					for _, in := range c10Names {
						if c.Failed() {
							return
						}
						if (oi+len(in))%2 == 0 {
							w.exec(&storeOp{Kind: opFind, Set: []int{oi}, SetInst: []string{in}})
						} else {
							w.exec(&storeOp{Kind: opGet, Obj: oi, Inst: in, Cons: consByteSlice})
						}
						c.Count("probe_name_sweep", 1)
					}
				}
			})
			w.s.WaitUntil("sweep", func() bool { return done })
		}
		w := runStoreForward(c, opts)
		if w != nil && w.readsOK > 0 && (c.Switches > 0 || w.putsFailed > 0) {
			c.Nontrivial = true
		}
	}
}

var _ = rt.Yield

func init() {
	sim.Register(&sim.Check{
		Prop:  "C10",
		Level: "exploration",
		Profiles: []sim.Profile{
			{Name: "rotating", Weight: 3, Fn: c10Profile(false)},
			{Name: "no-eviction", Weight: 2, Fn: c10Profile(true)},
		},
		Components: map[string][]string{
			"real": {"pkg/blobstore/configuration new_blob_access.go (W-config runs: the store is assembled by the unmodified NewBlobAccessFromConfiguration; top-level decorators, metrics wrappers, allocator collectors)", "pkg/blobstore existence caching decorator (half of the W-config runs)", "pkg/blobstore/local: hierarchical CAS blob access, old/current/new map, volatile block list, allocators, hashing index", "pkg/digest (instance names, parent digests)", "pkg/blobstore/buffer"},
			"stub": {"block devices (simdisk)", "sources/sinks", "scheduling (verifsimrt)"},
		},
		Rule:           "a run = instance-name tree {\"\", a, a/b, a/b/c, ab, b} x 1-4 concurrent clients x 6-30 operations (uploads with valid, short, long, flipped and erroring content under any name, reads and existence checks under any name, rotations) followed by a sweep probing every object under every name; visibility oracle: present/readable under J requires a successful or in-flight valid upload under a component-wise prefix of J; the no-eviction profile also requires the converse; non-trivial = interleaved or failed uploads and at least one successful read",
		RequiredProbes: []string{"reads_ok", "puts_failed", "probe_name_sweep"},
	})
}
