package harness

import (
	"github.com/buildbarn/bb-storage/pkg/blobstore"
	"fmt"
	"strings"

	remoteexecution "github.com/bazelbuild/remote-apis/build/bazel/remote/execution/v2"
	"vsim/sim"

	"google.golang.org/grpc/codes"
	"google.golang.org/protobuf/encoding/protowire"
	"google.golang.org/protobuf/proto"
)

// ---------- builder shared by the random generator and the prologue ----------

// c13B builds a case. Every digest that ends up in a message passes through
// mut (with a running index), which lets the random generator and the
// exhaustive prologue place malformed digests at any position.
type c13B struct {
	cs  *c13Case
	mut func(i int, d *remoteexecution.Digest) *remoteexecution.Digest
	n   int
}

func c13NewBuilder(fn remoteexecution.DigestFunction_Value, inst string) *c13B {
	return &c13B{cs: &c13Case{
		Fn: fn, Inst: inst, AR: &remoteexecution.ActionResult{},
		ACErrAt: -1, CASErrAt: -1, CancelAt: -1,
		Trees: map[string]*c13TreeObj{}, Missing: map[string]int{},
		Batch: 1, MaxMsg: 1 << 20, MaxTree: 1 << 30,
		FaultFree: true, Pure: true,
	}}
}

func (b *c13B) pass(d *remoteexecution.Digest) *remoteexecution.Digest {
	i := b.n
	b.n++
	if b.mut != nil {
		return b.mut(i, d)
	}
	return d
}

// trueDigest is the digest that really describes data.
func (b *c13B) trueDigest(data []byte) *remoteexecution.Digest {
	return &remoteexecution.Digest{Hash: RefHash(b.cs.Fn, data), SizeBytes: int64(len(data))}
}

// blob returns (through mut) the digest of a small object named s.
func (b *c13B) blob(s string) *remoteexecution.Digest { return b.pass(b.trueDigest([]byte(s))) }

func c13MarshalDir(d *remoteexecution.Directory) []byte {
	data, err := proto.MarshalOptions{Deterministic: true}.Marshal(d)
	if err != nil {
		panic(sim.HarnessError{Msg: "cannot marshal Directory: " + err.Error()})
	}
	return data
}

// dirRef returns (through mut) the digest of a Directory message.
func (b *c13B) dirRef(d *remoteexecution.Directory) *remoteexecution.Digest {
	return b.pass(b.trueDigest(c13MarshalDir(d)))
}

func (b *c13B) dir(files []*remoteexecution.Digest, subdirs []*remoteexecution.Digest) *remoteexecution.Directory {
	d := &remoteexecution.Directory{}
	for i, f := range files {
		d.Files = append(d.Files, &remoteexecution.FileNode{Name: fmt.Sprintf("f%d", i), Digest: f})
	}
	for i, s := range subdirs {
		d.Directories = append(d.Directories, &remoteexecution.DirectoryNode{Name: fmt.Sprintf("d%d", i), Digest: s})
	}
	return d
}

// c13Item is one top-level field of an encoded Tree.
type c13Item struct {
	Num     protowire.Number
	Payload []byte
	Raw     []byte // emitted verbatim when non-nil
}

func c13AppendVarint(b []byte, v uint64, overlong bool) []byte {
	b = protowire.AppendVarint(b, v)
	if overlong && v < 1<<49 {
		b[len(b)-1] |= 0x80
		b = append(b, 0x00)
	}
	return b
}

func c13Encode(items []c13Item, overlong bool) []byte {
	var out []byte
	for _, it := range items {
		if it.Raw != nil {
			out = append(out, it.Raw...)
			continue
		}
		out = c13AppendVarint(out, protowire.EncodeTag(it.Num, protowire.BytesType), overlong)
		out = c13AppendVarint(out, uint64(len(it.Payload)), overlong)
		out = append(out, it.Payload...)
	}
	return out
}

// addTreeBytes registers a Tree object under its true digest and returns the
// digest (through mut) with which an OutputDirectory refers to it.
func (b *c13B) addTreeBytes(data []byte, desc string) (*c13TreeObj, *remoteexecution.Digest) {
	td := b.trueDigest(data)
	k := c13Key(b.cs.Inst, b.cs.Fn, td)
	o := b.cs.Trees[k]
	if o == nil {
		o = &c13TreeObj{Stated: td, Orig: data, Served: data, Kind: c13TreeSlice, ErrAt: -1, ErrCode: codes.Unavailable, Desc: desc}
		b.cs.Trees[k] = o
		b.cs.TreeOrder = append(b.cs.TreeOrder, k)
	}
	return o, b.pass(proto.Clone(td).(*remoteexecution.Digest))
}

func (b *c13B) treeItems(root *remoteexecution.Directory, children []*remoteexecution.Directory) []c13Item {
	var items []c13Item
	if root != nil {
		items = append(items, c13Item{Num: 1, Payload: c13MarshalDir(root)})
	}
	for _, ch := range children {
		items = append(items, c13Item{Num: 2, Payload: c13MarshalDir(ch)})
	}
	return items
}

func (b *c13B) addTree(root *remoteexecution.Directory, children ...*remoteexecution.Directory) (*c13TreeObj, *remoteexecution.Digest) {
	return b.addTreeBytes(c13Encode(b.treeItems(root, children), false), fmt.Sprintf("std(%d children)", len(children)))
}

func (b *c13B) outDir(tree, root *remoteexecution.Digest) {
	i := len(b.cs.AR.OutputDirectories)
	b.cs.AR.OutputDirectories = append(b.cs.AR.OutputDirectories, &remoteexecution.OutputDirectory{Path: fmt.Sprintf("out/d%d", i), TreeDigest: tree, RootDirectoryDigest: root})
}

func (b *c13B) outFile(d *remoteexecution.Digest) *remoteexecution.OutputFile {
	i := len(b.cs.AR.OutputFiles)
	f := &remoteexecution.OutputFile{Path: fmt.Sprintf("out/f%d", i), Digest: d}
	b.cs.AR.OutputFiles = append(b.cs.AR.OutputFiles, f)
	return f
}

func (cs *c13Case) fault(kind string) {
	cs.FaultFree = false
	if kind != "missing" {
		cs.Pure = false
	}
	for _, n := range cs.Notes {
		if n == kind {
			return
		}
	}
	cs.Notes = append(cs.Notes, kind)
}

// c13Malform returns a malformed variant of d.
func c13Malform(d *remoteexecution.Digest, kind int) *remoteexecution.Digest {
	d = proto.Clone(d).(*remoteexecution.Digest)
	switch kind % c13NMalform {
	case 0:
		if len(d.Hash) > 0 {
			d.Hash = d.Hash[:len(d.Hash)-1]
		}
	case 1:
		d.Hash += "0"
	case 2:
		d.SizeBytes = -1
	case 3:
		// an upper-case hexadecimal digit
		done := false
		hb := []byte(d.Hash)
		for i, ch := range hb {
			if ch >= 'a' && ch <= 'f' {
				hb[i] = ch - 'a' + 'A'
				done = true
				break
			}
		}
		if !done && len(hb) > 0 {
			hb[0] = 'A'
		}
		d.Hash = string(hb)
	case 4:
		if len(d.Hash) > 0 {
			d.Hash = d.Hash[:len(d.Hash)-1] + "g"
		}
	case 5:
		d.Hash = ""
	case 6:
		// the hash length of another digest function
		if len(d.Hash) == 64 {
			d.Hash = d.Hash[:40]
		} else {
			d.Hash = strings.Repeat("ab", 32)
		}
	case 7:
		d.SizeBytes = -1 << 63
	}
	return d
}

const c13NMalform = 8

// ---------- random generation ----------

type c13GenOpts struct {
	Missing, Malformed, TreeCorrupt, TreeMalformed, CASErr, Cancel, Limit, ACFault, SrcErr, GetAbsent bool
}

type c13Gen struct {
	t       *sim.Tape
	o       c13GenOpts
	b       *c13B
	pool    []*remoteexecution.Digest
	malLeft int
	maxDir  int // largest Directory message generated
}

func (g *c13Gen) poolDigest() *remoteexecution.Digest {
	return g.b.pass(proto.Clone(g.pool[g.t.Choose(len(g.pool))]).(*remoteexecution.Digest))
}

func (g *c13Gen) drawDir(files int, subdirs []*remoteexecution.Digest) *remoteexecution.Directory {
	t := g.t
	var fs []*remoteexecution.Digest
	for i := 0; i < files; i++ {
		fs = append(fs, g.poolDigest())
	}
	d := g.b.dir(fs, subdirs)
	if len(d.Files) > 0 && t.Chance(1, 10) {
		d.Files[0].Digest = nil // a file node without digest references nothing
	}
	if t.Chance(1, 8) {
		d.Symlinks = append(d.Symlinks, &remoteexecution.SymlinkNode{Name: "s", Target: "../x"})
	}
	if t.Chance(1, 10) {
		// long names make fields that span the 4096-byte read-ahead of the field visitor
		n := []int{100, 4000, 4090, 5000}[t.Choose(4)]
		d.Files = append(d.Files, &remoteexecution.FileNode{Name: strings.Repeat("n", n), Digest: g.poolDigest(), IsExecutable: true})
	}
	if n := len(c13MarshalDir(d)); n > g.maxDir {
		g.maxDir = n
	}
	return d
}

// drawTree generates one Tree object; returns the object, the reference to it
// and the true digest of its root directory (nil when it has none).
func (g *c13Gen) drawTree() (*c13TreeObj, *remoteexecution.Digest, *remoteexecution.Directory) {
	t := g.t
	b := g.b
	nChildren := t.Choose(5)
	children := make([]*remoteexecution.Directory, nChildren)
	for i := nChildren - 1; i >= 0; i-- {
		var subs []*remoteexecution.Digest
		if i+1 < nChildren && t.Chance(1, 2) {
			j := i + 1 + t.Choose(nChildren-i-1)
			subs = append(subs, b.dirRef(children[j]))
		}
		children[i] = g.drawDir(t.Choose(3), subs)
	}
	var root *remoteexecution.Directory
	if !t.Chance(1, 8) {
		var subs []*remoteexecution.Digest
		for i := 0; i < nChildren; i++ {
			if t.Chance(2, 3) {
				subs = append(subs, b.dirRef(children[i]))
			}
		}
		if t.Chance(1, 8) {
			subs = append(subs, g.poolDigest()) // a directory node that is not among the children
		}
		root = g.drawDir(t.Choose(3), subs)
	}
	items := b.treeItems(root, children)
	desc := fmt.Sprintf("std(%d children)", nChildren)
	overlong := false
	switch t.Pick(10, 2, 2, 2, 2) {
	case 1:
		if len(items) > 1 {
			items = append(items[1:], items[0])
			desc += "+root-last"
		}
	case 2:
		extra := g.drawDir(1, nil)
		items = append(items, c13Item{Num: 1, Payload: c13MarshalDir(extra)})
		desc += "+second-root"
	case 3:
		num := protowire.Number([]int{3, 15, 16, 1000, 536870911}[t.Choose(5)])
		items = append(items, c13Item{Num: num, Payload: t.Bytes(t.Choose(5))})
		if t.Chance(1, 2) && len(items) > 1 {
			items[0], items[len(items)-1] = items[len(items)-1], items[0]
		}
		desc += fmt.Sprintf("+unknown-bytes-field(%d)", num)
	case 4:
		overlong = true
		desc += "+overlong-varints"
	}
	data := c13Encode(items, overlong)
	if g.o.TreeMalformed && t.Chance(1, 2) {
		g.b.cs.fault("tree-malformed")
		switch t.Choose(9) {
		case 8:
			// a bytes field whose number lies beyond the protobuf maximum of
			// 2^29-1 but below 2^31 (which the wire-level tag parser tolerates
			// for MessageSet): no protobuf implementation can read this Tree
			num := uint64(protowire.MaxValidNumber) + 1 + uint64(t.Choose(1<<20))
			data = protowire.AppendVarint(data, num<<3|uint64(protowire.BytesType))
			data = protowire.AppendBytes(data, t.Bytes(t.Choose(4)))
			desc += "+field-number-out-of-range"
		case 0:
			// a varint field: valid protobuf, but not a bytes field
			data = append(data, protowire.AppendVarint(protowire.AppendTag(nil, 3, protowire.VarintType), 7)...)
			desc += "+varint-field"
		case 1:
			if len(data) > 0 {
				k := t.Choose(len(data))
				data = data[:k]
				desc += fmt.Sprintf("+encoding-cut@%d", k)
			} else {
				data = []byte{0x0a}
				desc += "+lone-tag"
			}
		case 2:
			data = t.Bytes(1 + t.Choose(12))
			desc = "garbage"
		case 3:
			data = c13Encode(append(items, c13Item{Num: protowire.Number(1 + t.Choose(2)), Payload: t.Bytes(1 + t.Choose(6))}), false)
			desc += "+garbage-directory"
		case 4:
			data = append(data, 0x0a)
			desc += "+trailing-tag"
		case 5:
			data = append(data, 0x12, byte(1+t.Choose(100)), 0x0a)
			desc += "+length-overrun"
		case 6:
			data = append(data, protowire.AppendTag(nil, 4, protowire.StartGroupType)...)
			data = append(data, protowire.AppendTag(nil, 4, protowire.EndGroupType)...)
			desc += "+group"
		case 7:
			data = append(data, 0x00, 0x00)
			desc += "+field-number-zero"
		}
	}
	o, ref := b.addTreeBytes(data, desc)
	return o, ref, root
}

func (g *c13Gen) configureTree(o *c13TreeObj) {
	t := g.t
	if g.o.TreeCorrupt && t.Chance(1, 2) {
		g.b.cs.fault("tree-corrupt")
		n := len(o.Orig)
		kind := t.Choose(3)
		if n == 0 {
			kind = 2
		}
		switch kind {
		case 0:
			k := t.Choose(n)
			o.Served = append([]byte{}, o.Orig[:k]...)
			o.Corrupt = fmt.Sprintf("trunc@%d", k)
		case 1:
			k := t.Choose(n)
			o.Served = append([]byte{}, o.Orig...)
			o.Served[k] ^= 1 << uint(t.Choose(8))
			o.Corrupt = fmt.Sprintf("flip@%d", k)
		case 2:
			o.Served = append(append([]byte{}, o.Orig...), byte(t.Choose(256)))
			o.Corrupt = "extended"
		}
	}
	if o.Corrupt == "" {
		o.Kind = t.Pick(3, 3, 3, 1, 2)
	} else {
		o.Kind = []int{c13TreeSlice, c13TreeReader, c13TreeChunk, c13TreeReaderAt}[t.Pick(3, 3, 3, 2)]
	}
	if o.Kind == c13TreeReaderAt && g.o.SrcErr && t.Chance(1, 2) {
		g.b.cs.fault("tree-read-error")
		o.ErrAt = t.Choose(1 + len(o.Served)/4096)
		o.ErrCode = []codes.Code{codes.Unavailable, codes.Internal, codes.NotFound, codes.DataLoss}[t.Choose(4)]
	}
	if o.Kind == c13TreeReader || o.Kind == c13TreeChunk {
		o.Cuts = sim.DrawCuts(t, len(o.Served), 3)
		if g.o.SrcErr && t.Chance(1, 2) {
			g.b.cs.fault("tree-read-error")
			nChunks := len((&sim.SrcScript{Data: o.Served, Cuts: o.Cuts}).Chunks())
			o.ErrAt = t.Choose(nChunks + 1)
			o.ErrCode = []codes.Code{codes.Unavailable, codes.Internal, codes.NotFound, codes.DataLoss}[t.Choose(4)]
		}
	}
	if g.o.GetAbsent && t.Chance(1, 2) {
		g.b.cs.fault("tree-get-absent")
		o.GetAbsent = true
	}
}

var c13Codes = []codes.Code{codes.Unavailable, codes.Internal, codes.NotFound, codes.PermissionDenied, codes.DeadlineExceeded, codes.ResourceExhausted}

// c13Draw draws one case; the all-zero tape gives the empty ActionResult
// without faults.
func c13Draw(t *sim.Tape, o c13GenOpts) *c13Case {
	fn := AllDigestFunctions[t.Pick(8, 1, 1, 1, 1, 1, 1, 1)]
	inst := []string{"", "inst", "a/b"}[t.Choose(3)]
	b := c13NewBuilder(fn, inst)
	cs := b.cs
	g := &c13Gen{t: t, o: o, b: b}
	cs.Batch = []int{1, 2, 3, 4, 5, 50}[t.Choose(6)]
	cs.EmptyInjecting = t.Chance(1, 3)
	if t.Chance(1, 4) {
		cs.Configured = true
		cs.Batch = blobstore.RecommendedFindMissingDigestsCount
		cs.Repeat = t.Chance(1, 2)
	}
	nPool := 3 + t.Choose(5)
	for i := 0; i < nPool; i++ {
		data := []byte{byte('A' + i), byte(t.Choose(256))}
		if i == 2 && t.Chance(1, 4) {
			data = nil // the empty blob
		}
		g.pool = append(g.pool, b.trueDigest(data))
	}
	if o.Malformed {
		g.malLeft = 1 + t.Choose(2)
		b.mut = func(i int, d *remoteexecution.Digest) *remoteexecution.Digest {
			if g.malLeft > 0 && t.Chance(1, 5) {
				g.malLeft--
				cs.fault("malformed-digest")
				return c13Malform(d, t.Choose(c13NMalform))
			}
			return d
		}
	}
	ar := cs.AR
	nFiles := t.Choose(7)
	for i := 0; i < nFiles; i++ {
		var d *remoteexecution.Digest
		if !t.Chance(1, 10) {
			d = g.poolDigest()
		}
		f := b.outFile(d)
		if t.Chance(1, 6) {
			f.Contents = t.Bytes(1 + t.Choose(3))
		}
		f.IsExecutable = t.Chance(1, 4)
	}
	switch t.Choose(4) {
	case 1:
		ar.StdoutDigest = g.poolDigest()
	case 2:
		ar.StdoutRaw = []byte("out")
	case 3:
		ar.StdoutDigest = g.poolDigest()
		ar.StdoutRaw = []byte("out")
	}
	switch t.Choose(4) {
	case 1:
		ar.StderrDigest = g.poolDigest()
	case 2:
		ar.StderrRaw = []byte("err")
	case 3:
		ar.StderrDigest = g.poolDigest()
		ar.StderrRaw = []byte("err")
	}
	nDirs := t.Choose(4)
	type tr struct {
		o    *c13TreeObj
		root *remoteexecution.Directory
	}
	var trees []tr
	for i := 0; i < nDirs; i++ {
		var cur tr
		var ref *remoteexecution.Digest
		if len(trees) > 0 && t.Chance(1, 4) {
			cur = trees[t.Choose(len(trees))]
			ref = b.pass(proto.Clone(cur.o.Stated).(*remoteexecution.Digest))
		} else {
			o, r, root := g.drawTree()
			cur = tr{o, root}
			ref = r
			trees = append(trees, cur)
		}
		var rootRef *remoteexecution.Digest
		switch t.Pick(2, 2, 1) {
		case 1:
			if cur.root != nil {
				rootRef = b.dirRef(cur.root)
			} else {
				rootRef = g.poolDigest()
			}
		case 2:
			rootRef = g.poolDigest()
		}
		if o.Malformed && t.Chance(1, 16) {
			cs.fault("tree-digest-absent")
			ref = nil
		}
		b.outDir(ref, rootRef)
		ar.OutputDirectories[i].IsTopologicallySorted = t.Chance(1, 4)
	}
	ar.ExitCode = int32(t.Choose(3))
	if t.Chance(1, 6) {
		ar.OutputSymlinks = append(ar.OutputSymlinks, &remoteexecution.OutputSymlink{Path: "out/l", Target: "f0"})
	}
	if t.Chance(1, 6) {
		ar.ExecutionMetadata = &remoteexecution.ExecutedActionMetadata{Worker: "worker-1"}
	}
	for _, k := range cs.TreeOrder {
		g.configureTree(cs.Trees[k])
	}

	// Action Cache entry
	cs.ACKind = t.Pick(2, 2, 2)
	if o.ACFault && t.Chance(1, 2) {
		cs.fault("ac-fault")
		switch t.Choose(3) {
		case 0:
			cs.ACKind = c13ACAbsent
		case 1:
			cs.ACKind = c13ACGarbage
			cs.ACBytes = t.Bytes(1 + t.Choose(8))
		case 2:
			cs.ACKind = c13ACReader
			cs.ACErrAt = t.Choose(3)
		}
	}
	arBytes, _ := proto.MarshalOptions{Deterministic: true}.Marshal(ar)
	if cs.ACKind == c13ACReader {
		cs.ACCuts = sim.DrawCuts(t, len(arBytes), 2)
	}

	ri := c13Reference(cs, ar)
	if o.Missing && len(ri.Refs) > 0 {
		n := 1 + t.Choose(min(3, len(ri.Refs)))
		for i := 0; i < n; i++ {
			k := ri.Refs[t.Choose(len(ri.Refs))].Key
			if _, dup := cs.Missing[k]; dup {
				continue
			}
			from := 0
			if t.Chance(1, 5) {
				from = 1 + t.Choose(4)
			}
			cs.Missing[k] = from
			cs.MissingOrder = append(cs.MissingOrder, k)
		}
		cs.fault("missing")
		cs.GetIgnoresMissing = t.Chance(1, 3)
	}
	if o.Missing && t.Chance(1, 8) {
		// an object nobody refers to is missing: harmless
		k := c13Key(cs.Inst, cs.Fn, b.trueDigest([]byte("unreferenced")))
		cs.Missing[k] = 0
		cs.MissingOrder = append(cs.MissingOrder, k)
	}
	if o.Limit {
		if ri.NTrees > 0 && t.Chance(2, 3) {
			base := []int64{ri.TreeBytes, ri.TreeBytesDup}[t.Choose(2)]
			delta := []int64{-1, 0, 1, -2, -base}[t.Choose(5)]
			cs.MaxTree = max(base+delta, 0)
			cs.fault("tree-limit")
		} else {
			base := []int{len(arBytes), g.maxDir}[t.Choose(2)]
			cs.MaxMsg = max(base+[]int{-1, 0, 1}[t.Choose(3)], 0)
			cs.fault("message-limit")
		}
	}
	if o.CASErr {
		cs.fault("cas-error")
		cs.CASErrAt = t.Choose(8)
		cs.CASErrCode = c13Codes[t.Choose(len(c13Codes))]
	}
	if o.Cancel {
		cs.fault("cancel")
		cs.CancelAt = t.Choose(8)
	}
	cs.Consume = t.Choose(2)
	cs.ACOverwrite = t.Chance(1, 3)
	cs.Composite = t.Chance(1, 6)
	return cs
}

func c13Sample(c *sim.RunCtx, cs *c13Case) {
	s := cs.String()
	if len(s) > 700 {
		s = s[:700] + "…"
	}
	c.Sample["case"] = s
}

// c13Complete: nothing missing, nothing malformed, no failures.
func c13Complete(c *sim.RunCtx) {
	cs := c13Draw(c.T.Plan, c13GenOpts{})
	c13Sample(c, cs)
	runC13Case(c, cs)
}

// c13MissingProfile: the only fault is a set of objects missing from the CAS.
func c13MissingProfile(c *sim.RunCtx) {
	cs := c13Draw(c.T.Plan, c13GenOpts{Missing: true})
	c13Sample(c, cs)
	runC13Case(c, cs)
}

// c13Faults: a drawn subset of all fault kinds (swarm), often a single one.
func c13Faults(c *sim.RunCtx) {
	t := c.T.Plan
	var o c13GenOpts
	flags := []*bool{&o.Malformed, &o.TreeCorrupt, &o.TreeMalformed, &o.CASErr, &o.Cancel, &o.Limit, &o.ACFault, &o.SrcErr, &o.GetAbsent, &o.Missing}
	// one kind for sure, every other kind with probability 1/5
	first := t.Choose(len(flags))
	for i, f := range flags {
		*f = i == first || t.Chance(1, 5)
	}
	cs := c13Draw(t, o)
	c13Sample(c, cs)
	runC13Case(c, cs)
}
