package harness

import (
	"bytes"

	"github.com/buildbarn/bb-storage/pkg/digest"

	"vsim/sim"

	"google.golang.org/grpc/codes"
)

// ---- C08: detected corruption is quarantined ----

func c08Profile(ac bool) func(c *sim.RunCtx) {
	return func(c *sim.RunCtx) {
		t := c.T.Plan
		cfg := drawStoreCfg(t, false, true)
		cfg.Disk = true
		if cfg.SectorSize == 1 && cfg.BlockSectors < 8 {
			cfg.BlockSectors = 16
		}
		cfg.ValCache = false
		cfg.Spare = 4
		if ac {
			cfg.AC = true
			cfg.Mutable = true
			cfg.New = 1
			if cfg.BlockSize() < 48 {
				cfg.BlockSectors = (48 + cfg.SectorSize - 1) / cfg.SectorSize
			}
		}
		wo := &workloadOpts{
			Objects:      4 + t.Choose(8),
			Clients:      1 + t.Choose(3),
			OpsPerClient: 8 + t.Choose(40),
			Insts:        []string{""},
			MaxHolds:     []int{0, 3}[t.Choose(2)],
			PutWeight:    5, GetWeight: 6, FindWeight: 3, CompWeight: 0,
		}
		if !ac && t.Chance(1, 3) {
			// the hierarchical CAS: an upload of an object that already exists
			// under another name is acknowledged by pointing at the existing
			// copy, whose block may be quarantined while the upload's body is
			// still being consumed
			cfg.Hier = true
			cfg.KeyFormat = digest.KeyWithInstance
			wo.Insts = []string{"", "a", "a/b"}
			c.Count("probe_hierarchical_run", 1)
		}
		corruptRate := []int{20, 60, 150}[t.Choose(3)] // per 10000 steps
		before := indexDiscardCount()
		discards := func() bool { return indexDiscardCount() != before }
		type corruption struct {
			Dev int64
			Seq int
		}
		var corruptions []corruption
		opInvoke := map[int]int{} // goroutine -> invoke seq of its current op
		opRecs := map[int]int{}   // goroutine -> number of block writes recorded when its current op was invoked
		opHist := map[int][]int{} // goroutine -> invoke seqs of all its operations

		// qmax returns the newest quarantined incarnation as of seq.
		qmax := func(w *storeWorld, seq int) int {
			q := -1
			for _, d := range w.e.detections {
				if d.Seq < seq && d.Block.ID > q {
					q = d.Block.ID
				}
			}
			return q
		}
		// copyNewerThan: does a complete, intact copy of obj exist in a block newer than q that is still in the list?
		copyNewerThan := func(w *storeWorld, obj int, q int) bool {
			content := w.m.objs[obj].Content
			img := w.e.data.Visible()
			for _, r := range w.e.putRecs {
				if !r.OK || r.Block.ID <= q || r.Block.Released || r.Block.Loc == nil || int(r.Size) != len(content) {
					continue
				}
				// attributed by what was written, not by what the range holds now: a
				// corruption may turn the copy of one small object into the bytes of another
				off := r.Block.Loc.OffsetBytes + r.Off
				if bytes.Equal(r.Data, content) && bytes.Equal(img[off:off+r.Size], content) {
					return true
				}
			}
			return false
		}
		inFlightOrLater := func(w *storeWorld, obj int, since int) bool {
			for _, u := range w.m.uploads {
				if u.Obj == obj && u.Valid && (u.Status == upInflight || u.Return >= since) {
					return true
				}
			}
			return false
		}
		opts := &storeRunOpts{cfg: cfg, wo: wo}
		opts.setup = func(w *storeWorld) {
			w.tolerateIntegrity = true
			w.discardsSeen = discards
			ft := c.T.Fault
			prev := w.s.StepHook
			w.s.StepHook = func() {
				if prev != nil {
					prev()
				}
				// (b) no block at or below the quarantine line is read by an operation invoked after the detection
				if n := len(w.e.blockGets); n > 0 {
					bg := w.e.blockGets[n-1]
					if bg.Seq == w.s.Steps-1 || bg.Seq == w.s.Steps {
						// the operation the read belongs to: the reader's latest
						// operation invoked before the read (its current operation may
						// already be the next one, invoked at the very step at which
						// the previous one read the block and returned)
						inv, ok := -1, false
						for _, x := range opHist[bg.G] {
							if x < bg.Seq {
								inv, ok = x, true
							}
						}
						if ok {
							if q := qmax(w, inv); bg.Block.ID <= q {
								c.Fail("served-from-quarantined-block", "an operation invoked at step %d read block incarnation #%d although corruption had been detected in incarnation #%d before", inv, bg.Block.ID, q)
								return
							}
						}
					}
				}
				if !ft.Chance(corruptRate, 10000) {
					return
				}
				// corrupt one byte of a completed copy
				var cands []*putRec
				for _, r := range w.e.putRecs {
					if r.OK && !r.Block.Released && r.Size > 0 && r.Block.Loc != nil {
						cands = append(cands, r)
					}
				}
				if len(cands) == 0 {
					return
				}
				r := cands[ft.Choose(len(cands))]
				pos := r.Block.Loc.OffsetBytes + r.Off
				if ac {
					// make the message unparsable for certain: invalid wire type in the first tag
					w.e.data.Visible()[pos] = 0x07
					w.e.data.Corrupt(pos, 0)
				} else {
					pos += int64(ft.Choose(int(r.Size)))
					w.e.data.Corrupt(pos, byte(1+ft.Choose(255)))
				}
				corruptions = append(corruptions, corruption{pos, w.s.Steps})
				c.Count("fault_medium_corruption", 1)
				c.Logf("CORRUPT device byte %d (block #%d)", pos, r.Block.ID)
			}
			w.onPutDone = func(op *storeOp, u *upload, err error) {
				g := w.s.Cur().ID
				if err != nil {
					return
				}
				// (f) an upload in flight into a quarantined block is not acknowledged
				for i := len(w.e.putRecs) - 1; i >= 0; i-- {
					r := w.e.putRecs[i]
					if r.G != g {
						continue
					}
					// (a write belongs to this upload only if it was recorded
					// after the upload was invoked: a refresh by the same
					// caller's previous FindMissing can be finalized at the very
					// step the upload starts)
					if i >= opRecs[g] && r.Seq >= u.Invoke {
						if q := qmax(w, r.Seq); r.Block.ID <= q {
							c.Fail("upload-into-quarantined-block-acked", "%s was acknowledged although it was written into block incarnation #%d and corruption had been detected in incarnation #%d before it was finalized", op, r.Block.ID, q)
						}
					}
					break
				}
				// (g) whichever way it was acknowledged (new copy, or a
				// reference to an existing one), the object is present right
				// afterwards, unless something happened in between
				if !ac && !c.Failed() {
					d := w.m.digestOf(w.m.objs[op.Obj], op.Inst)
					det0, alloc0 := u.RetDetections, u.RetAllocs
					missing, ferr := w.e.ba.FindMissing(w.ctx, d.ToSingletonSet())
					// (a detection is a lock-free event inside another
					// caller's read: one that lands after this upload's body
					// was consumed may fall between the upload's last look at
					// the index and its return, and either order is a valid
					// history; one that landed before must have been seen)
					if ferr == nil && !missing.Empty() && len(w.e.detections) == u.BodyDetections && det0 == u.BodyDetections && w.allocs() == alloc0 && !discards() {
						c.Fail("acknowledged-upload-not-present", "%s was acknowledged, yet the object is reported missing under the same name right afterwards, although every detection so far (%d) happened before the upload's body had been consumed, no block was allocated since it returned and the index never discarded an entry", op, det0)
						return
					}
					if len(w.e.detections) > 0 {
						c.Count("probe_acknowledged_upload_present_after_detection", 1)
					}
				}
			}
			w.onGetDone = func(op *storeOp, res int, invokeAlloc int) {
				if res != getNotFound || cfg.Hier {
					// (hierarchical: which names a copy is visible under is not recorded per block write)
					return
				}
				// (d) objects in newer blocks are unaffected
				q := qmax(w, op.InvokeSeq)
				if q < 0 {
					return
				}
				if copyNewerThan(w, op.Obj, qmax(w, w.s.Steps+1)) && !cfg.AC {
					if discards() {
						c.Count("runs_excluded_index_discard", 1)
						return
					}
					// the copy must have been complete before the read was invoked
					for _, r := range w.e.putRecs {
						if r.OK && r.Seq < op.InvokeSeq && r.Block.ID > qmax(w, w.s.Steps+1) && !r.Block.Released && int(r.Size) == len(w.m.objs[op.Obj].Content) {
							off := r.Block.Loc.OffsetBytes + r.Off
							if bytes.Equal(r.Data, w.m.objs[op.Obj].Content) && bytes.Equal(w.e.data.Visible()[off:off+r.Size], w.m.objs[op.Obj].Content) {
								// is it corrupted right now? (then NOT_FOUND after detection is fine)
								c.Fail("newer-object-lost", "%s: NOT_FOUND although an intact copy lies in block incarnation #%d, newer than the quarantined incarnation #%d", op, r.Block.ID, qmax(w, w.s.Steps+1))
								return
							}
						}
					}
				}
			}
			w.onFindDone = func(op *storeOp, present []bool, invokeAlloc int) {
				q := qmax(w, op.InvokeSeq)
				// detections this very call made itself (its refresh copies read the
				// objects) precede its answer as well: they are not concurrent with it
				own := false
				for _, d := range w.e.detections {
					if d.G == w.s.Cur().ID && d.Seq >= op.InvokeSeq && d.Block.ID > q {
						q, own = d.Block.ID, true
					}
				}
				if own {
					c.Count("probe_findmissing_detected_itself", 1)
				}
				if q < 0 || cfg.AC {
					return
				}
				for i, p := range present {
					if !p {
						continue
					}
					// (c) reported present => a copy exists outside the quarantined blocks
					obj := op.Set[i]
					if inFlightOrLater(w, obj, op.InvokeSeq) {
						continue
					}
					found := false
					for _, r := range w.e.putRecs {
						if r.OK && r.Block.ID > q && int(r.Size) == len(w.m.objs[obj].Content) {
							found = true // a copy was written to a newer block at some point
							break
						}
					}
					if !found {
						c.Fail("present-in-quarantined-block", "%s reports o%d present although every copy of it lies in block incarnations <= #%d, in which corruption was detected before the call", op, obj, q)
						return
					}
					c.Count("probe_present_after_detection", 1)
				}
			}
		}
		// wrap exec to track invocation per goroutine
		opts.perStep = nil
		w := runStoreForwardHook(c, opts, func(w *storeWorld, op *storeOp) {
			opInvoke[w.s.Cur().ID] = w.s.Steps
			opRecs[w.s.Cur().ID] = len(w.e.putRecs)
			opHist[w.s.Cur().ID] = append(opHist[w.s.Cur().ID], w.s.Steps)
		})
		if w == nil || c.Failed() {
			return
		}
		// integrity failures must come back as INTERNAL
		c.Count("detections", len(w.e.detections))
		if len(w.e.detections) > 0 {
			c.Count("probe_detection", 1)
			c.Nontrivial = true
		}
	}
}

// runStoreForwardHook is runStoreForward with a callback before each operation.
func runStoreForwardHook(c *sim.RunCtx, o *storeRunOpts, before func(w *storeWorld, op *storeOp)) *storeWorld {
	prevSetup := o.setup
	o.setup = func(w *storeWorld) {
		w.beforeOp = before
		if prevSetup != nil {
			prevSetup(w)
		}
	}
	// (e) the store keeps accepting uploads afterwards
	o.after = func(w *storeWorld) {
		done := false
		w.s.GoProc("final-uploads", 1, false, func() {
			defer func() { done = true }()
			w.s.StepHook = nil
			// A read-back may still trip over a corruption that nobody has
			// read yet (the index keeps pointing at a newer, corrupted copy):
			// that quarantines more blocks. Every such failure consumes one
			// undetected corruption, so a bounded number of retries must end
			// in an upload that can be read back.
			oi := 0
			for oi < len(w.m.objs) && len(w.m.objs[oi].Content) > w.cfg.BlockSize() {
				oi++
			}
			if oi == len(w.m.objs) {
				return
			}
			ok := false
			attempts := 0
			for ; attempts < 40 && !c.Failed(); attempts++ {
				var perr error
				w.onPutDone = func(op *storeOp, u *upload, err error) { perr = err }
				op := &storeOp{Kind: opPut, Obj: oi, Inst: "", Ctor: ctorSlice, Pad: 8}
				w.exec(op)
				if perr != nil && Code(perr) != codes.Unavailable && Code(perr) != codes.Internal {
					c.Fail("upload-refused-after-quarantine", "%s after the last corruption failed with %v", op, perr)
					return
				}
				if perr != nil {
					continue
				}
				res := -1
				w.onGetDone = func(op *storeOp, r int, a int) { res = r }
				gop := &storeOp{Kind: opGet, Obj: oi, Inst: "", Cons: consByteSlice}
				if w.cfg.AC {
					gop.Cons = consProto
				}
				w.exec(gop)
				if res == getFoundWhole {
					ok = true
					break
				}
			}
			if !ok && !c.Failed() && w.discardsSeen != nil && w.discardsSeen() {
				// the index itself dropped an entry (reported through its
				// metrics): that an acknowledged upload is not found then is
				// the index's documented behaviour, not the quarantine's
				c.Count("runs_excluded_index_discard", 1)
				return
			}
			if !ok && !c.Failed() {
				c.Fail("store-unusable-after-quarantine", "after the last corruption %d rounds of upload + read-back of o%d never produced a readable object", attempts, oi)
				return
			}
			c.Count("probe_upload_after_quarantine", 1)
		})
		w.s.WaitUntil("final uploads", func() bool { return done })
	}
	return runStoreForward(c, o)
}

func init() {
	sim.Register(&sim.Check{
		Prop:  "C08",
		Level: "exploration",
		Profiles: []sim.Profile{
			{Name: "cas", Weight: 4, Fn: c08Profile(false)},
			{Name: "ac", Weight: 1, Fn: c08Profile(true)},
			{Name: "cas-atomics", Weight: 2, Fn: withAtomicYields(c08Profile(false))},
			{Name: "configured-blackbox", Weight: 2, Fn: c08Configured},
		},
		Components: map[string][]string{
			"real": {"pkg/blobstore/local: old/current/new map (to-be-released counter, resolver), flat blob access, volatile block list, block-device-backed allocator, hashing index", "pkg/blobstore/buffer (validating readers, integrity callbacks)", "CAS/AC read buffer factories", "configured-blackbox profile: the store assembled by NewBlobAccessFromConfiguration (which map resolves the index's block references is part of that wiring)"},
			"stub": {"data device with medium corruption (simdisk byte flips in the range of acknowledged copies)", "sources/sinks", "scheduling (verifsimrt)"},
		},
		Rule:           "a run = disk-backed store x 1-3 clients x 8-48 operations; at seeded steps one byte inside a completed copy is flipped on the medium (several per run); oracles: a read never succeeds with bytes other than the uploaded ones; an operation invoked after a detection never reads a block at or below the newest quarantined incarnation; an object reported present after a detection has a copy outside the quarantined blocks; an intact copy in a newer block stays readable; an upload finalized into a quarantined block is not acknowledged; after the last corruption uploads are accepted and readable; non-trivial = at least one corruption was detected; configured-blackbox profile: one client on a store assembled from a configuration message, copies located on the device by their content: a read of a damaged copy fails with INTERNAL, afterwards the object is absent for every call until it is uploaded again, uploads keep working",
		RequiredProbes: []string{"fault_medium_corruption", "probe_detection", "probe_upload_after_quarantine", "probe_present_after_detection"},
		Assumptions:    []string{"validation cache off (a cached validation legitimately skips detection)", "AC payloads are corrupted so that they certainly fail to parse (a flipped byte that still parses is undetectable by design)"},
	})
}
