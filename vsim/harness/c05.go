package harness

import (
	"github.com/buildbarn/bb-storage/pkg/digest"
	"vsim/sim"
)

// ---- C05: an object just read or reported present survives O more rotations ----

type touchRec struct {
	Obj    int
	Inst   string
	A      int // allocation count at the invocation of the touch
	Return int // seq at which the touch completed
}

func c05Profile(variant string) func(c *sim.RunCtx) {
	return func(c *sim.RunCtx) {
		t := c.T.Plan
		// the persistent variant: the same guarantee with the persistent block
		// list and both syncer routines running (no restart takes place)
		cfg := drawStoreCfg(t, variant == "persistent", true)
		cfg.Spare = 6 // allocation never fails (<= 4 clients pin at most one block each)
		insts := []string{""}
		switch variant {
		case "hier":
			cfg.Hier = true
			cfg.KeyFormat = digest.KeyWithInstance
			insts = []string{"", "a", "a/b"}
		case "mutable":
			cfg.AC = true
			cfg.Mutable = true
			cfg.New = 1
			cfg.KeyFormat = digest.KeyWithInstance
			if cfg.BlockSize() < 48 {
				cfg.BlockSectors = (48 + cfg.SectorSize - 1) / cfg.SectorSize
			}
		}
		// write-fault variant: device writes fail now and then. A failed write
		// is a reported failure, not corruption, so the property's premise
		// holds; a refresh that fails must make the read fail (a read that
		// nevertheless reports success would be a touch that does not protect).
		writeFaults := variant == "flat-writefaults"
		if writeFaults {
			cfg.Disk = true
			if cfg.SectorSize == 1 && cfg.BlockSectors < 8 {
				cfg.BlockSectors = 16
			}
		}
		if variant != "mutable" && wconfigPossible(cfg) && cfg.Disk && t.Chance(1, 3) {
			// assembled by NewBlobAccessFromConfiguration (allocation counts from
			// the allocator's own collector)
			cfg.WConfig = true
			if !cfg.Hier {
				cfg.KeyFormat = digest.KeyWithoutInstance
			}
			c.Count("probe_wconfig_run", 1)
		}
		single := t.Chance(1, 3)
		wo := &workloadOpts{
			Objects:      4 + t.Choose(10),
			Clients:      1 + t.Choose(4),
			OpsPerClient: 10 + t.Choose(40),
			Insts:        insts,
			FailedPuts:   false,
			Composite:    false,
			MaxHolds:     []int{0, 3}[t.Choose(2)],
			PutWeight:    5, GetWeight: 6, FindWeight: 3, CompWeight: 0,
		}
		if single {
			wo.Clients = 1
		}
		before := indexDiscardCount()
		var touches []touchRec
		O := cfg.Old
		discarded := func() bool { return indexDiscardCount() != before }
		inRepeat := false
		opts := &storeRunOpts{cfg: cfg, wo: wo}
		opts.setup = func(w *storeWorld) {
			if writeFaults {
				w.tolerateIOErrors = true
				w.e.data.Faults = &sim.DiskFaults{WriteErr: []int{20, 60}[t.Choose(2)], T: c.T.Fault}
			}
			w.onGetDone = func(op *storeOp, res int, invokeAlloc int) {
				if op.Kind != opGet || inRepeat || res == getOtherErr {
					return
				}
				now := w.allocs()
				if res == getNotFound {
					// a probe that did not find the object: was it entitled to?
					for _, tr := range touches {
						if tr.Obj == op.Obj && tr.Inst == op.Inst && now <= tr.A+O && op.InvokeSeq >= tr.Return {
							if discarded() {
								c.Count("runs_excluded_index_discard", 1)
								return
							}
							c.Fail("touched-object-lost", "%s did not find the object although it was touched (read/reported present) when %d blocks had been allocated, old_blocks=%d and only %d have been allocated now", op, tr.A, O, now)
							return
						}
					}
					return
				}
				if res != getFoundWhole {
					// only a completely consumed read is a touch in the property's sense
					return
				}
				for _, tr := range touches {
					if tr.Obj == op.Obj && tr.Inst == op.Inst && op.InvokeSeq >= tr.Return {
						if now == tr.A+O {
							c.Count("probe_survived_exactly_O_rotations", 1)
						} else if now > tr.A {
							c.Count("probe_survived_some_rotations", 1)
						}
					}
				}
				touches = append(touches, touchRec{Obj: op.Obj, Inst: op.Inst, A: invokeAlloc, Return: w.seq()})
				if single && w.e.data != nil && now == invokeAlloc {
					// no-extra-write clause: immediately repeating the touch writes no data
					wr, al := w.e.data.Writes, w.allocs()
					inRepeat = true
					w.exec(op)
					inRepeat = false
					if w.e.data.Writes != wr || w.allocs() != al {
						c.Fail("repeat-touch-writes", "repeating %s immediately wrote data: device writes %d -> %d, allocations %d -> %d", op, wr, w.e.data.Writes, al, w.allocs())
					}
					c.Count("probe_repeat_touch", 1)
				}
			}
			w.onFindDone = func(op *storeOp, present []bool, invokeAlloc int) {
				if inRepeat {
					return
				}
				for i, p := range present {
					if p {
						touches = append(touches, touchRec{Obj: op.Set[i], Inst: op.SetInst[i], A: invokeAlloc, Return: w.seq()})
					} else {
						now := w.allocs()
						for _, tr := range touches {
							if tr.Obj == op.Set[i] && tr.Inst == op.SetInst[i] && now <= tr.A+O && op.InvokeSeq >= tr.Return {
								if discarded() {
									c.Count("runs_excluded_index_discard", 1)
									return
								}
								c.Fail("touched-object-lost", "%s reports o%d missing although it was touched when %d blocks had been allocated, old_blocks=%d and only %d have been allocated now", op, op.Set[i], tr.A, O, now)
								return
							}
						}
					}
				}
				if single && w.e.data != nil && w.allocs() == invokeAlloc {
					wr, al := w.e.data.Writes, w.allocs()
					inRepeat = true
					w.exec(op)
					inRepeat = false
					if w.e.data.Writes != wr || w.allocs() != al {
						c.Fail("repeat-touch-writes", "repeating %s immediately wrote data: device writes %d -> %d, allocations %d -> %d", op, wr, w.e.data.Writes, al, w.allocs())
					}
					c.Count("probe_repeat_touch", 1)
				}
			}
		}
		w := runStoreForward(c, opts)
		if w != nil && len(touches) > 0 && w.allocs() > cfg.New+cfg.Cur {
			c.Nontrivial = true
		}
	}
}

func init() {
	sim.Register(&sim.Check{
		Prop:  "C05",
		Level: "exploration",
		Profiles: []sim.Profile{
			{Name: "flat", Weight: 4, Fn: c05Profile("flat")},
			{Name: "hier", Weight: 3, Fn: c05Profile("hier")},
			{Name: "mutable", Weight: 2, Fn: c05Profile("mutable")},
			{Name: "flat-writefaults", Weight: 2, Fn: c05Profile("flat-writefaults")},
			{Name: "flat-atomics", Weight: 2, Fn: withAtomicYields(c05Profile("flat"))},
			{Name: "persistent", Weight: 2, Fn: c05Profile("persistent")},
		},
		Components: map[string][]string{
			"real": {"pkg/blobstore/configuration new_blob_access.go (W-config runs: the store is assembled by the unmodified NewBlobAccessFromConfiguration; top-level decorators, metrics wrappers, allocator collectors)", "pkg/blobstore/local: flat/hierarchical blob access, old/current/new map, both growth policies, volatile block list, allocators, hashing index", "pkg/blobstore/buffer"},
			"stub": {"block devices (simdisk)", "sources/sinks", "scheduling (verifsimrt)"},
		},
		Rule:           "a run = drawn geometry (all O,C,N in 0..3) x 1-4 clients x 10-50 operations; every successful Get / present FindMissing is a touch stamped with the allocation count at its invocation; every later probe completing with allocations <= a+O must find the object; single-client runs repeat every touch and compare device write and allocation counters; non-trivial = at least one touch and the store rotated past its initial fill; distinct = event-log hash",
		RequiredProbes: []string{"probe_survived_exactly_O_rotations", "probe_repeat_touch", "block_releases"},
		Assumptions:    []string{"runs in which the index's discard collectors move are excluded from the survival oracle (counted as runs_excluded_index_discard)"},
	})
}
