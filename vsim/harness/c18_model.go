package harness

import (
	jmespath_pb "github.com/buildbarn/bb-storage/pkg/proto/configuration/jmespath"
	"context"
	"fmt"
	"sort"
	"strings"

	remoteexecution "github.com/bazelbuild/remote-apis/build/bazel/remote/execution/v2"
	"github.com/buildbarn/bb-storage/pkg/auth"
	auth_configuration "github.com/buildbarn/bb-storage/pkg/auth/configuration"
	"github.com/buildbarn/bb-storage/pkg/blobstore/buffer"
	"github.com/buildbarn/bb-storage/pkg/blobstore/slicing"
	"github.com/buildbarn/bb-storage/pkg/digest"
	auth_pb "github.com/buildbarn/bb-storage/pkg/proto/configuration/auth"
	"vsim/sim"

	"google.golang.org/grpc/codes"
	"google.golang.org/grpc/status"
	"google.golang.org/protobuf/types/known/emptypb"
	rt "verifsimrt"
)

// ---- C18 building blocks: stub leaf authorizers, the reference decision,
// the recording stub backend ----

// Outcomes of a leaf authorizer for one instance name. 0 is the benign one.
const (
	c18Allow = iota
	c18Deny
	c18FailU // UNAVAILABLE: the injected failure of an external authorization service
	c18FailI // INTERNAL
	c18NOutcomes
)

var c18OutcomeNames = []string{"allow", "deny", "failU", "failI"}
var c18OutcomeLetters = "adUI"

// Bits of the set of admissible combined outcomes.
const (
	c18MGrant = 1 << c18Allow
	c18MDeny  = 1 << c18Deny
	c18MFailU = 1 << c18FailU
	c18MFailI = 1 << c18FailI
)

func c18MaskString(m int) string {
	var p []string
	for o := 0; o < c18NOutcomes; o++ {
		if m&(1<<o) != 0 {
			p = append(p, c18OutcomeNames[o])
		}
	}
	return "{" + strings.Join(p, ",") + "}"
}

// Leaf kinds.
const (
	c18KStub      = iota // harness authorizer: allow / deny / fail per name, tagged errors
	c18KStaticFn         // real auth.NewStaticAuthorizer over a harness matcher
	c18KCfgAllow         // real authorizer built by the configuration factory: allow
	c18KCfgDeny          // … deny
	c18KCfgPrefix        // … instanceNamePrefix
	c18KCfgJMES          // … jmespathExpression over the caller's authentication metadata
)

// What the caller's authentication metadata holds for (JMESPath leaf, name);
// only the boolean true grants.
var c18JMESValues = []interface{}{true, false, nil, "yes", float64(1), []interface{}{true}, map[string]interface{}{"granted": true}}
var c18JMESValueNames = []string{"true", "false", "null", `"yes"`, "1", "[true]", "{granted:true}"}

// c18Rec collects what the stubs observed during one run.
type c18Rec struct {
	c         *sim.RunCtx
	leafCalls []c18LeafCall
	backend   []c18BackendCall
	quiet     bool // exhaustive prologue: do not yield / count per call
	// failSeen[leaf id + "|" + instance name]: the leaf returned a non-denial
	// failure for that name since the last reset (start of an operation)
	failSeen map[string]bool
}

func (r *c18Rec) reset() {
	if r.failSeen == nil {
		r.failSeen = map[string]bool{}
	}
	clear(r.failSeen)
}

func (r *c18Rec) markFail(leaf, name string) {
	if r.failSeen == nil {
		r.failSeen = map[string]bool{}
	}
	r.failSeen[leaf+"|"+name] = true
}

// failObserved: a leaf of tree actually reported a non-denial failure for
// name during the current operation.
func (r *c18Rec) failObserved(tree *c18Node, name string) bool {
	if len(r.failSeen) == 0 {
		return false
	}
	for _, l := range tree.leaves(nil) {
		if r.failSeen[l.ID+"|"+name] {
			return true
		}
	}
	return false
}

type c18LeafCall struct {
	Leaf  string
	Names []string // sorted
}

// c18Node is a node of an authorizer tree: a leaf or an 'any' combination.
type c18Node struct {
	// leaf
	Leaf     bool
	ID       string
	Kind     int
	Out      map[string]int // stub / staticFn: outcome per instance name (missing = deny)
	Prefixes []string       // cfgPrefix
	Vals     map[string]int // cfgJMES: index into c18JMESValues per instance name (missing = field absent)
	// any
	Members []*c18Node
}

func (n *c18Node) String() string {
	if n.Leaf {
		switch n.Kind {
		case c18KCfgAllow:
			return n.ID + ":cfgAllow"
		case c18KCfgDeny:
			return n.ID + ":cfgDeny"
		case c18KCfgPrefix:
			return fmt.Sprintf("%s:cfgPrefix%q", n.ID, n.Prefixes)
		case c18KCfgJMES:
			var keys []string
			for k := range n.Vals {
				keys = append(keys, k)
			}
			sort.Strings(keys)
			var p []string
			for _, k := range keys {
				p = append(p, fmt.Sprintf("%q=%s", k, c18JMESValueNames[n.Vals[k]]))
			}
			return n.ID + ":cfgJMES(" + strings.Join(p, " ") + ")"
		}
		var keys []string
		for k := range n.Out {
			keys = append(keys, k)
		}
		sort.Strings(keys)
		var p []string
		for _, k := range keys {
			p = append(p, fmt.Sprintf("%q=%c", k, c18OutcomeLetters[n.Out[k]]))
		}
		kind := "stub"
		if n.Kind == c18KStaticFn {
			kind = "static"
		}
		return n.ID + ":" + kind + "(" + strings.Join(p, " ") + ")"
	}
	var p []string
	for _, m := range n.Members {
		p = append(p, m.String())
	}
	return "any[" + strings.Join(p, ", ") + "]"
}

func (n *c18Node) depth() int {
	if n.Leaf {
		return 0
	}
	d := 0
	for _, m := range n.Members {
		if x := m.depth(); x > d {
			d = x
		}
	}
	return d + 1
}

func (n *c18Node) leaves(out []*c18Node) []*c18Node {
	if n.Leaf {
		return append(out, n)
	}
	for _, m := range n.Members {
		out = m.leaves(out)
	}
	return out
}

// hasEmptyAny reports whether the tree contains an 'any' without members
// (which the real constructor turns into a static deny-all authorizer).
func (n *c18Node) hasEmptyAny() bool {
	if n.Leaf {
		return false
	}
	if len(n.Members) == 0 {
		return true
	}
	for _, m := range n.Members {
		if m.hasEmptyAny() {
			return true
		}
	}
	return false
}

// c18PrefixMatch is the reference for instanceNamePrefix: component-wise
// prefix, computed over plain strings.
func c18PrefixMatch(prefixes []string, name string) bool {
	split := func(s string) []string {
		if s == "" {
			return nil
		}
		return strings.Split(s, "/")
	}
	nc := split(name)
	for _, p := range prefixes {
		pc := split(p)
		if len(pc) > len(nc) {
			continue
		}
		ok := true
		for i := range pc {
			if pc[i] != nc[i] {
				ok = false
				break
			}
		}
		if ok {
			return true
		}
	}
	return false
}

// leafOutcome is the reference outcome of a leaf for a name.
func (n *c18Node) leafOutcome(name string) int {
	switch n.Kind {
	case c18KCfgAllow:
		return c18Allow
	case c18KCfgDeny:
		return c18Deny
	case c18KCfgPrefix:
		if c18PrefixMatch(n.Prefixes, name) {
			return c18Allow
		}
		return c18Deny
	case c18KCfgJMES:
		// the expression must evaluate to the boolean true, nothing else
		if v, ok := n.Vals[name]; ok && v == 0 {
			return c18Allow
		}
		return c18Deny
	}
	if o, ok := n.Out[name]; ok {
		return o
	}
	return c18Deny
}

// admissible is the reference decision: the set of combined outcomes the
// property admits for name.
//
//	leaf:  exactly its outcome;
//	any:   grant  is admissible iff some member may grant,
//	       deny   iff every member may deny (no members: deny),
//	       a non-denial failure iff some member may report that failure.
//
// Hence without failures the result is exact (grant iff some member
// grants); a failure beats denial; and where one member grants and another
// would fail, both "grant" and "report the failure" are admitted by this
// static decision, because the property fixes no evaluation order. The
// dynamic rule c18Rec.failObserved narrows that: once a member has actually
// reported a non-denial failure for a name, that name must not be granted
// ("reports a member's failure other than denial instead of granting").
func (n *c18Node) admissible(name string) int {
	if n.Leaf {
		return 1 << n.leafOutcome(name)
	}
	grant, fail := 0, 0
	deny := c18MDeny
	for _, m := range n.Members {
		mm := m.admissible(name)
		grant |= mm & c18MGrant
		fail |= mm & (c18MFailU | c18MFailI)
		if mm&c18MDeny == 0 {
			deny = 0
		}
	}
	return grant | fail | deny
}

func c18Tag(leaf, name string, outcome int) string {
	return fmt.Sprintf("c18-%s leaf=%s name=%q;", c18OutcomeNames[outcome], leaf, name)
}

// errorBelongs checks that err (as received by the caller, possibly wrapped
// with a message prefix) is an error some leaf of this tree produces for
// name: same status code and the leaf's message.
func (n *c18Node) errorBelongs(err error, name string) (outcome int, ok bool) {
	switch status.Code(err) {
	case codes.PermissionDenied:
		outcome = c18Deny
	case codes.Unavailable:
		outcome = c18FailU
	case codes.Internal:
		outcome = c18FailI
	default:
		return -1, false
	}
	msg := err.Error()
	for _, l := range n.leaves(nil) {
		if l.leafOutcome(name) != outcome {
			continue
		}
		if l.Kind == c18KStub {
			if strings.Contains(msg, c18Tag(l.ID, name, outcome)) {
				return outcome, true
			}
		} else if strings.Contains(msg, "Permission denied") {
			return outcome, true
		}
	}
	if outcome == c18Deny && n.hasEmptyAny() && strings.Contains(msg, "Permission denied") {
		return outcome, true
	}
	return outcome, false
}

// ---- real authorizers built from a tree ----

type c18StubAuthorizer struct {
	n   *c18Node
	rec *c18Rec
}

var c18FaultCounter = []string{"", "", "fault_authorizer_unavailable", "fault_authorizer_internal"}

func (a *c18StubAuthorizer) Authorize(ctx context.Context, instanceNames []digest.InstanceName) []error {
	if !a.rec.quiet {
		rt.Yield("authorizer.Authorize(" + a.n.ID + ")")
	}
	names := make([]string, 0, len(instanceNames))
	errs := make([]error, 0, len(instanceNames))
	for _, in := range instanceNames {
		name := in.String()
		names = append(names, name)
		o := a.n.leafOutcome(name)
		switch o {
		case c18Allow:
			errs = append(errs, nil)
		case c18Deny:
			errs = append(errs, status.Error(codes.PermissionDenied, c18Tag(a.n.ID, name, o)))
		case c18FailU:
			errs = append(errs, status.Error(codes.Unavailable, c18Tag(a.n.ID, name, o)))
			a.rec.c.Stats[c18FaultCounter[o]]++
			a.rec.markFail(a.n.ID, name)
		case c18FailI:
			errs = append(errs, status.Error(codes.Internal, c18Tag(a.n.ID, name, o)))
			a.rec.c.Stats[c18FaultCounter[o]]++
			a.rec.markFail(a.n.ID, name)
		}
	}
	if !a.rec.quiet {
		sort.Strings(names)
		a.rec.leafCalls = append(a.rec.leafCalls, c18LeafCall{Leaf: a.n.ID, Names: names})
	}
	return errs
}

// build turns the tree into real authorizers: real anyAuthorizer nestings
// (through auth.NewAnyAuthorizer, including its 0- and 1-member special
// cases) over stub leaves or real static authorizers.
func (n *c18Node) build(rec *c18Rec) auth.Authorizer {
	if !n.Leaf {
		members := make([]auth.Authorizer, 0, len(n.Members))
		for _, m := range n.Members {
			members = append(members, m.build(rec))
		}
		return auth.NewAnyAuthorizer(members)
	}
	var cfg *auth_pb.AuthorizerConfiguration
	switch n.Kind {
	case c18KStub:
		return &c18StubAuthorizer{n: n, rec: rec}
	case c18KStaticFn:
		return auth.NewStaticAuthorizer(func(in digest.InstanceName) bool {
			return n.leafOutcome(in.String()) == c18Allow
		})
	case c18KCfgAllow:
		cfg = &auth_pb.AuthorizerConfiguration{Policy: &auth_pb.AuthorizerConfiguration_Allow{Allow: &emptypb.Empty{}}}
	case c18KCfgDeny:
		cfg = &auth_pb.AuthorizerConfiguration{Policy: &auth_pb.AuthorizerConfiguration_Deny{Deny: &emptypb.Empty{}}}
	case c18KCfgPrefix:
		cfg = &auth_pb.AuthorizerConfiguration{Policy: &auth_pb.AuthorizerConfiguration_InstanceNamePrefix{
			InstanceNamePrefix: &auth_pb.InstanceNameAuthorizer{AllowedInstanceNamePrefixes: append([]string{}, n.Prefixes...)}}}
	case c18KCfgJMES:
		cfg = &auth_pb.AuthorizerConfiguration{Policy: &auth_pb.AuthorizerConfiguration_JmespathExpression{
			JmespathExpression: &jmespath_pb.Expression{Expression: n.jmesExpression()}}}
	}
	// The factory main.go uses (without the deduplicating cache, which is a
	// process-wide map).
	a, err := auth_configuration.BaseAuthorizerFactory{}.NewAuthorizerFromConfiguration(cfg, nil, nil)
	if err != nil {
		panic(sim.HarnessError{Msg: "authorizer factory: " + err.Error()})
	}
	return a
}

// ---- recording stub backend ----

type c18BackendCall struct {
	Op      string // Get | GetFromComposite | Put | FindMissing
	Digests []string
	// Put: what arrived
	PutData []byte
	PutErr  error
}

type c18Backend struct {
	rec   *c18Rec
	store map[string][]byte // digest.String() (with instance name) -> content
}

func c18Key(d digest.Digest) string { return d.String() }

func (b *c18Backend) yield(what string) {
	if !b.rec.quiet {
		rt.Yield(what)
	}
}

func (b *c18Backend) Get(ctx context.Context, d digest.Digest) buffer.Buffer {
	b.yield("backend.Get")
	b.rec.backend = append(b.rec.backend, c18BackendCall{Op: "Get", Digests: []string{c18Key(d)}})
	if data, ok := b.store[c18Key(d)]; ok {
		return buffer.NewValidatedBufferFromByteSlice(data)
	}
	return buffer.NewBufferFromError(status.Error(codes.NotFound, "c18-backend: no such object"))
}

func (b *c18Backend) GetFromComposite(ctx context.Context, parentDigest, childDigest digest.Digest, slicer slicing.BlobSlicer) buffer.Buffer {
	b.yield("backend.GetFromComposite")
	b.rec.backend = append(b.rec.backend, c18BackendCall{Op: "GetFromComposite", Digests: []string{c18Key(parentDigest), c18Key(childDigest)}})
	if data, ok := b.store[c18Key(childDigest)]; ok {
		return buffer.NewValidatedBufferFromByteSlice(data)
	}
	return buffer.NewBufferFromError(status.Error(codes.NotFound, "c18-backend: no such object"))
}

func (b *c18Backend) Put(ctx context.Context, d digest.Digest, buf buffer.Buffer) error {
	b.yield("backend.Put")
	data, err := buf.ToByteSlice(1 << 20)
	b.rec.backend = append(b.rec.backend, c18BackendCall{Op: "Put", Digests: []string{c18Key(d)}, PutData: data, PutErr: err})
	if err != nil {
		return err
	}
	b.store[c18Key(d)] = data
	return nil
}

func (b *c18Backend) FindMissing(ctx context.Context, digests digest.Set) (digest.Set, error) {
	b.yield("backend.FindMissing")
	call := c18BackendCall{Op: "FindMissing"}
	sb := digest.NewSetBuilder(0)
	for _, d := range digests.Items() {
		call.Digests = append(call.Digests, c18Key(d))
		if _, ok := b.store[c18Key(d)]; !ok {
			sb.Add(d)
		}
	}
	sort.Strings(call.Digests)
	b.rec.backend = append(b.rec.backend, call)
	return sb.Build(), nil
}

func (b *c18Backend) GetCapabilities(ctx context.Context, instanceName digest.InstanceName) (*remoteexecution.ServerCapabilities, error) {
	return &remoteexecution.ServerCapabilities{}, nil
}

type c18Slicer struct{}

func (c18Slicer) Slice(b buffer.Buffer, childDigest digest.Digest) (buffer.Buffer, []slicing.BlobSlice) {
	return b, nil
}

// jmesExpression: for every name of the universe one term
// (instanceName == '<name>' && authenticationMetadata.private.<leaf>.n<i>),
// joined by ||. JMESPath's && and || hand on operands, not booleans, so the
// result is whatever the metadata holds for the name when that is truth-like
// (true, a string, a number, an array, an object) and false or null
// otherwise.
func (n *c18Node) jmesExpression() string {
	var terms []string
	for i, name := range c18Universe {
		terms = append(terms, fmt.Sprintf("(instanceName == '%s' && authenticationMetadata.private.%s.n%d)", name, n.ID, i))
	}
	return strings.Join(terms, " || ")
}

// c18Metadata is the caller's authentication metadata: what every JMESPath
// leaf of the trees looks up.
func c18Metadata(trees [3]*c18Node) *auth.AuthenticationMetadata {
	private := map[string]interface{}{}
	for _, t := range trees {
		if t == nil {
			continue
		}
		for _, l := range t.leaves(nil) {
			if l.Kind != c18KCfgJMES {
				continue
			}
			m := map[string]interface{}{}
			for i, name := range c18Universe {
				if v, ok := l.Vals[name]; ok {
					m[fmt.Sprintf("n%d", i)] = c18JMESValues[v]
				}
			}
			private[l.ID] = m
		}
	}
	am, err := auth.NewAuthenticationMetadataFromRaw(map[string]interface{}{"private": private})
	if err != nil {
		panic(sim.HarnessError{Msg: "authentication metadata: " + err.Error()})
	}
	return am
}
