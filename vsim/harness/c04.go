package harness

import (
	"bytes"
	"fmt"

	"github.com/buildbarn/bb-storage/pkg/digest"
	pb_local "github.com/buildbarn/bb-storage/pkg/proto/blobstore/local"
	"vsim/sim"

	"google.golang.org/protobuf/proto"
)

// ---- C04: block space is never reused while referenced, and never leaked ----

// c04Monitors installs the step monitors on a freshly built store.
func c04Monitors(c *sim.RunCtx, w *storeWorld) {
	e := w.e
	// (1) bytes under an open reader never change
	e.data.OnWrite = func(off int64, old, new []byte) {
		for _, r := range e.rbf.Open {
			if r.Snap == nil {
				continue
			}
			lo, hi := max64(off, r.DevOff), min64(off+int64(len(new)), r.DevOff+r.Size)
			if lo >= hi {
				continue
			}
			if !bytes.Equal(new[lo-off:hi-off], r.Snap[lo-r.DevOff:hi-r.DevOff]) {
				c.Fail("write-under-open-reader", "device write [%d,%d) changes bytes that a reader opened at step %d on block incarnation #%d (range [%d,%d)) is still reading", off, off+int64(len(new)), r.OpenedAt, r.Block.ID, r.DevOff, r.DevOff+r.Size)
				return
			}
		}
	}
	// (2) a region is handed out only when no reader/writer of an earlier
	// incarnation is active and (persistent) the durable state file no longer
	// lists it
	e.alloc.OnNewBlock = func(b *blockRec) {
		if b.Loc == nil {
			return
		}
		for _, o := range e.alloc.Blocks {
			if o == b || o.Loc == nil || o.Loc.OffsetBytes != b.Loc.OffsetBytes {
				continue
			}
			if o.ActiveW > 0 {
				c.Fail("region-reused-while-written", "region at %d handed out as incarnation #%d while a writer of incarnation #%d is still copying", b.Loc.OffsetBytes, b.ID, o.ID)
				return
			}
			for _, r := range e.rbf.Open {
				if r.Block == o {
					c.Fail("region-reused-while-read", "region at %d handed out as incarnation #%d while a reader of incarnation #%d (opened at step %d) is still open", b.Loc.OffsetBytes, b.ID, o.ID, r.OpenedAt)
					return
				}
			}
		}
		if e.dir != nil {
			if data, ok := e.dir.DurableFile("state"); ok && len(data) > 0 {
				var ps pb_local.PersistentState
				if proto.Unmarshal(data, &ps) == nil {
					for _, bs := range ps.Blocks {
						if bs.BlockLocation != nil && bs.BlockLocation.OffsetBytes == b.Loc.OffsetBytes {
							c.Fail("region-reused-before-state-durable", "region at %d handed out as incarnation #%d while the durable state file still lists it", b.Loc.OffsetBytes, b.ID)
							return
						}
					}
				}
			}
		}
		c.Count("probe_region_reused", btoi(b.ID >= w.cfg.BlockCount()))
	}
}

func btoi(b bool) int {
	if b {
		return 1
	}
	return 0
}
func max64(a, b int64) int64 {
	if a > b {
		return a
	}
	return b
}
func min64(a, b int64) int64 {
	if a < b {
		return a
	}
	return b
}

// c04LeakChecks runs once every client has finished (and, for persistent
// stores, the system has gone quiet).
func c04LeakChecks(c *sim.RunCtx, w *storeWorld) {
	e := w.e
	if e.rbf.Double > 0 {
		c.Fail("reader-closed-twice", "%d block readers were closed more than once", e.rbf.Double)
		return
	}
	if e.rbf.Opened != e.rbf.Closed {
		r := e.rbf.Open[0]
		c.Fail("reader-leaked", "%d block readers were opened but only %d closed after every operation returned (first leaked: opened at step %d on block incarnation #%d)", e.rbf.Opened, e.rbf.Closed, r.OpenedAt, r.Block.ID)
		return
	}
	for _, st := range w.srcStats {
		if st.Closes != 1 {
			c.Fail("upload-source-close-count", "an upload source handed to Put was closed %d times (reads=%d)", st.Closes, st.Reads)
			return
		}
	}
	c.Count("probe_sources_checked", len(w.srcStats))
	// capacity: every block that is not in the list is allocatable
	free := 0
	var got []interface{ Release() }
	for {
		b, _, err := e.alloc.base.NewBlock()
		if err != nil {
			break
		}
		got = append(got, b)
		free++
		if free > w.cfg.BlockCount() {
			break
		}
	}
	for _, b := range got {
		b.Release()
	}
	live := e.alloc.Allocs + e.alloc.Restored - e.alloc.Releases
	if free+live != w.cfg.BlockCount() {
		c.Fail("block-leaked", "%d blocks configured, %d held by the block list (allocated %d, restored %d, released %d), but only %d are allocatable: %d blocks are permanently lost", w.cfg.BlockCount(), live, e.alloc.Allocs, e.alloc.Restored, e.alloc.Releases, free, w.cfg.BlockCount()-free-live)
		return
	}
	c.Count("probe_capacity_checked", 1)
}

func c04Profile(variant string) func(c *sim.RunCtx) {
	return func(c *sim.RunCtx) {
		t := c.T.Plan
		persistent := variant == "persistent"
		var cfg *storeCfg
		var pp *persistPlan
		insts := []string{""}
		if persistent {
			pp = drawPersistPlan(t, []string{"flat", "hier"}[t.Choose(2)], true, false)
			cfg = pp.cfg
			insts = pp.insts
		} else {
			cfg = drawStoreCfg(t, false, false)
			cfg.Disk = true
			if cfg.SectorSize == 1 && cfg.BlockSectors < 8 {
				cfg.BlockSectors = 8
			}
			if variant == "hier" {
				cfg.Hier = true
				cfg.KeyFormat = digest.KeyWithInstance
				insts = []string{"", "a", "a/b"}
			}
			if variant == "ac" {
				// Action Cache style: the read buffer factory reads entries eagerly,
				// so a refresh may start from a buffer that already is an error
				cfg.AC = true
				cfg.Mutable = true
				cfg.New = 1
				if cfg.BlockSize() < 48 {
					cfg.BlockSectors = (48 + cfg.SectorSize - 1) / cfg.SectorSize
				}
			}
		}
		cfg.Spare = t.Choose(3)
		if persistent && cfg.Spare == 0 {
			cfg.Spare = 1
		}
		cfg.ValCache = t.Chance(1, 2)
		allocFail := []int{0, 30, 100}[t.Choose(3)]
		writeErr := []int{0, 0, 20}[t.Choose(3)]
		readErr := []int{0, 0, 20}[t.Choose(3)]
		if variant == "ac" && readErr == 0 {
			readErr = 30
		}
		install := func(w *storeWorld) {
			w.tolerateIOErrors = true
			c04Monitors(c, w)
			ft := c.T.Fault
			if writeErr > 0 || readErr > 0 {
				w.e.data.Faults = &sim.DiskFaults{WriteErr: writeErr, ReadErr: readErr, T: ft}
			}
			if allocFail > 0 {
				orig := w.e.alloc.OnNewBlock
				_ = orig
				prev := w.s.StepHook
				w.s.StepHook = func() {
					if prev != nil {
						prev()
					}
					// arm an allocation failure now and then
					if w.e.alloc.FailNext == 0 && ft.Chance(allocFail, 10000) {
						w.e.alloc.FailNext = 1
					}
				}
			}
		}
		finish := func(w *storeWorld) {
			c.Count("fault_alloc_failure", w.e.alloc.AllocFail)
			c.Count("fault_device_write_error", w.e.data.WriteErrs)
			c.Count("fault_device_read_error", w.e.data.ReadErrs)
			w.e.data.Faults = nil
			w.e.alloc.FailNext = 0
			c04LeakChecks(c, w)
		}
		if persistent {
			pp.cfg = cfg
			model := &storeModel{cfg: cfg, objs: pp.objs, byTag: map[int]*upload{}}
			m := newMedia(cfg)
			lt := runLifetime(c, pp, m, &lifetimeOpts{proc: 1, model: model, drain: true, faults: true,
				script: func(lt *lifetime) {
					install(lt.w)
					lt.runClients(pp.clients, 1)
				},
				afterDrain: func(lt *lifetime) { finish(lt.w) }})
			if lt.w != nil {
				c.Sample["config"] = cfg.String()
				c.Nontrivial = lt.w.e.rbf.Opened > 0 && lt.w.e.alloc.Releases > 0
				c.Count("block_releases", lt.w.e.alloc.Releases)
				c.Count("readers_opened", lt.w.e.rbf.Opened)
			}
			return
		}
		wo := &workloadOpts{
			Objects:      4 + t.Choose(10),
			Clients:      1 + t.Choose(4),
			OpsPerClient: 10 + t.Choose(60),
			Insts:        insts,
			FailedPuts:   true,
			Composite:    variant == "flat",
			MaxHolds:     []int{2, 10, 40}[t.Choose(3)],
			PutWeight:    5, GetWeight: 6, FindWeight: 2, CompWeight: 2,
		}
		w := runStoreForward(c, &storeRunOpts{cfg: cfg, wo: wo, setup: install, after: finish})
		if w != nil {
			c.Nontrivial = w.e.rbf.Opened > 0 && w.e.alloc.Releases > 0
			c.Count("readers_opened", w.e.rbf.Opened)
		}
	}
}

var _ = fmt.Sprintf

func init() {
	sim.Register(&sim.Check{
		Prop:  "C04",
		Level: "exploration",
		Profiles: []sim.Profile{
			{Name: "flat", Weight: 3, Fn: c04Profile("flat")},
			{Name: "hier", Weight: 3, Fn: c04Profile("hier")},
			{Name: "persistent", Weight: 3, Fn: c04Profile("persistent")},
			{Name: "flat-ac", Weight: 2, Fn: c04Profile("ac")},
			{Name: "flat-atomics", Weight: 1, Fn: withAtomicYields(c04Profile("flat"))},
			{Name: "hier-atomics", Weight: 1, Fn: withAtomicYields(c04Profile("hier"))},
			{Name: "decorators", Weight: 3, Fn: c04Decorators},
			{Name: "grpc-streams", Weight: 2, Fn: c04GRPCStreams},
		},
		Components: map[string][]string{
			"real": {"pkg/blobstore/local: block-device-backed allocator (use counts, shared sectors), volatile and persistent block lists, flat and hierarchical blob access, periodic syncer", "pkg/blobstore/buffer (validated reader-at buffers, CAS reader buffers, clones, background tasks)", "validation caching read buffer factory", "decorators profile: pkg/blobstore mirrored, readcaching, readfallback, sharding, replication (all strategies), demultiplexing, hierarchical instance names, existence caching, authorizing, empty blob injecting, deadline enforcing, metrics, read canarying decorators (a third of the first three assembled by NewBlobAccessFromConfiguration)", "grpc-streams profile: pkg/blobstore/grpcclients CAS client and pkg/blobstore/grpcservers ByteStream/CAS servers over the simulated connection, pkg/zstd bounded pool (real) on both sides"},
			"stub": {"data device with failing writes/reads (simdisk)", "allocation failures (recording allocator)", "state directory (simdir)", "upload sources (simsource, close counting)", "scheduling (verifsimrt)"},
		},
		Rule:           "a run = disk-backed store (0-2 spare blocks, validation cache on/off, flat/hierarchical, volatile/persistent) x 1-4 clients x 10-70 operations with readers held open for up to 40 scheduling steps, invalid uploads, injected allocation failures and device write/read errors; step monitors: a device write never changes bytes under an open reader, a region is never handed out while a reader/writer of an earlier incarnation is active or while the durable state file lists it; after all operations returned: every block reader and upload source closed exactly once and allocatable blocks + blocks in the list = configured blocks; non-trivial = readers were opened and blocks were released; decorators profile: a run = one of 12 decorators/composites over three model leaves x 1-3 clients x 2-9 operations (uploads from close-counting chunk/reader sources: valid, mismatching, short, long, failing; reads consumed in ten ways incl. early close, stream clones in separate goroutines, too small limits; existence checks) with injected leaf call and stream failures; after quiescence every upload source and every stream a leaf handed out has been closed exactly once; grpc-streams profile: the repository's CAS client against its ByteStream/CAS servers over the simulated connection (zstd on either side per run, bounded real pools of 1-2 coders), 1-3 clients x 2-9 operations with failing/mismatching upload sources, reads consumed in ten ways incl. early close, backend call/stream/commit failures; after quiescence: no server handler running, every upload source and backend stream closed exactly once, every pooled encoder/decoder given back",
		RequiredProbes: []string{"probe_capacity_checked", "probe_region_reused", "fault_alloc_failure", "block_releases", "readers_opened"},
	})
}
