// Package harness contains the per-property harnesses (DESIGN.md section 4).
package harness

import (
	"crypto/md5"
	"crypto/sha1"
	"crypto/sha256"
	"crypto/sha512"
	"encoding/hex"
	"fmt"
	"strconv"

	remoteexecution "github.com/bazelbuild/remote-apis/build/bazel/remote/execution/v2"
	"github.com/buildbarn/bb-storage/pkg/digest"
	"github.com/buildbarn/go-sha256tree"
	"github.com/zeebo/blake3"

	"google.golang.org/grpc/codes"
	"google.golang.org/grpc/status"
)

// AllDigestFunctions lists the eight supported functions.
var AllDigestFunctions = []remoteexecution.DigestFunction_Value{
	remoteexecution.DigestFunction_SHA256,
	remoteexecution.DigestFunction_MD5,
	remoteexecution.DigestFunction_SHA1,
	remoteexecution.DigestFunction_SHA384,
	remoteexecution.DigestFunction_SHA512,
	remoteexecution.DigestFunction_GITSHA1,
	remoteexecution.DigestFunction_BLAKE3,
	remoteexecution.DigestFunction_SHA256TREE,
}

// RefHash computes the hash of data independently of pkg/digest: standard
// library for the classic functions, the upstream libraries for BLAKE3 and
// SHA256TREE.
func RefHash(fn remoteexecution.DigestFunction_Value, data []byte) string {
	switch fn {
	case remoteexecution.DigestFunction_MD5:
		h := md5.Sum(data)
		return hex.EncodeToString(h[:])
	case remoteexecution.DigestFunction_SHA1:
		h := sha1.Sum(data)
		return hex.EncodeToString(h[:])
	case remoteexecution.DigestFunction_SHA256:
		h := sha256.Sum256(data)
		return hex.EncodeToString(h[:])
	case remoteexecution.DigestFunction_SHA384:
		h := sha512.Sum384(data)
		return hex.EncodeToString(h[:])
	case remoteexecution.DigestFunction_SHA512:
		h := sha512.Sum512(data)
		return hex.EncodeToString(h[:])
	case remoteexecution.DigestFunction_GITSHA1:
		h := sha1.New()
		h.Write([]byte("blob " + strconv.Itoa(len(data)) + "\x00"))
		h.Write(data)
		return hex.EncodeToString(h.Sum(nil))
	case remoteexecution.DigestFunction_BLAKE3:
		h := blake3.Sum256(data)
		return hex.EncodeToString(h[:])
	case remoteexecution.DigestFunction_SHA256TREE:
		h := sha256tree.New(int64(len(data)))
		h.Write(data)
		return hex.EncodeToString(h.Sum(nil))
	}
	panic("unknown digest function")
}

// RefDigest builds the digest that truly describes data.
func RefDigest(instance string, fn remoteexecution.DigestFunction_Value, data []byte) digest.Digest {
	return digest.MustNewDigest(instance, fn, RefHash(fn, data), int64(len(data)))
}

// Code returns the gRPC status code of err.
func Code(err error) codes.Code { return status.Code(err) }

// InjectedError creates a uniquely tagged I/O error.
func InjectedError(code codes.Code, tag string) error {
	return status.Error(code, "injected-io-error-"+tag)
}

func short(b []byte) string {
	if len(b) <= 16 {
		return fmt.Sprintf("%x", b)
	}
	return fmt.Sprintf("%x…(%d)", b[:16], len(b))
}
