package harness

import (
	"context"
	"fmt"

	remoteexecution "github.com/bazelbuild/remote-apis/build/bazel/remote/execution/v2"
	"github.com/buildbarn/bb-storage/pkg/blobstore/buffer"
	"github.com/buildbarn/bb-storage/pkg/blobstore/slicing"
	"github.com/buildbarn/bb-storage/pkg/digest"
	"vsim/sim"

	"google.golang.org/grpc/codes"
	"google.golang.org/grpc/status"
	rt "verifsimrt"
)

// ---- C12 stub shard ---------------------------------------------------------
//
// A shard is a map from exact digest (instance name included) to bytes with a
// call log. Every call is attributed to the workload operation it belongs to
// through a context value, so that operations of concurrent clients can be
// judged independently. A stub outlives the composite: membership changes
// rebuild the composite over the same stubs, keyed by shard key.

type c12OpCtxKey struct{}

const (
	c12FaultNone     = iota
	c12FaultCall     // Get: error buffer; Put: error before consuming; FindMissing: error
	c12FaultStream   // Get: the returned buffer fails while being read
	c12FaultPutAfter // Put: the data is stored, the acknowledgement is lost
	c12NumFaultKinds
)

var c12FaultNames = []string{"none", "call-error", "stream-error", "put-error-after-store"}

var c12FaultCodes = []codes.Code{codes.Unavailable, codes.Internal, codes.ResourceExhausted, codes.PermissionDenied, codes.DeadlineExceeded, codes.DataLoss, codes.Unknown}

type c12Fault struct {
	Kind  int
	Code  codes.Code
	ErrAt int // stream faults: index of the failing read
}

type c12Call struct {
	Key     string
	Slot    int // index of the shard key in the run's key table (used in error tags instead of the key itself)
	Method  string
	Digests []digest.Digest
	Child   digest.Digest

	Err       error  // error the stub returned, or that the returned buffer will raise
	ErrTag    string // unique text inside Err's message
	Cancelled bool
	Data      []byte // Get: bytes the stub serves; Put: bytes the stub received
	Served    bool   // Get/GetFromComposite: the stub serves Data without error
	Stored    bool   // Put: the stub stored Data
	Missing   []digest.Digest
	Answered  bool // FindMissing: the stub returned Missing without error
}

type c12Stub struct {
	key  string
	slot int
	objs map[digest.Digest][]byte
}

// c12Backend is one stub as seen by one composite (epoch).
type c12Backend struct {
	w    *c12World
	stub *c12Stub
}

func (b *c12Backend) enter(ctx context.Context, method string, ds []digest.Digest, child digest.Digest) (*c12Op, *c12Call) {
	op, _ := ctx.Value(c12OpCtxKey{}).(*c12Op)
	if op == nil {
		panic(sim.HarnessError{Msg: "c12: backend call without operation context"})
	}
	call := &c12Call{Key: b.stub.key, Slot: b.stub.slot, Method: method, Digests: ds, Child: child}
	op.Calls = append(op.Calls, call)
	rt.Yield(fmt.Sprintf("shard#%d.%s(op%d,%d digests)", b.stub.slot, method, op.ID, len(ds)))
	// Routing observations are made here, at the seam.
	for _, d := range ds {
		b.w.observeCall(op, call, d)
	}
	return op, call
}

func (b *c12Backend) fail(op *c12Op, call *c12Call, code codes.Code, what string) error {
	call.ErrTag = fmt.Sprintf("c12-%s-op%d-slot%d", what, op.ID, call.Slot)
	call.Err = status.Error(code, call.ErrTag)
	if what == "fault" && code == codes.DeadlineExceeded && op.ID%2 == 1 {
		// what a backend returns that does "<-ctx.Done(); return ctx.Err()":
		// a plain Go error wrapping the context error, not a gRPC status
		call.Err = fmt.Errorf("%s: %w", call.ErrTag, context.DeadlineExceeded)
		b.w.c.Count("fault_bare_context_error", 1)
	}
	return call.Err
}

func (b *c12Backend) fault(op *c12Op) *c12Fault {
	if f := op.Faults[b.stub.slot]; f != nil {
		return f
	}
	return &c12Fault{}
}

func (b *c12Backend) serve(op *c12Op, call *c12Call, d digest.Digest, data []byte, present bool, real bool) buffer.Buffer {
	f := b.fault(op)
	if f.Kind == c12FaultCall {
		b.w.c.Count("fault_get_call_error", 1)
		return buffer.NewBufferFromError(b.fail(op, call, f.Code, "fault"))
	}
	if !present {
		b.w.c.Count("probe_get_not_found", 1)
		return buffer.NewBufferFromError(b.fail(op, call, codes.NotFound, "absent"))
	}
	call.Data = data
	if f.Kind == c12FaultStream {
		// The buffer fails at read f.ErrAt, which is at or before the read
		// that would have reported the end of the data, so the injected
		// error always precedes any checksum verdict.
		b.w.c.Count("fault_get_stream_error", 1)
		err := b.fail(op, call, f.Code, "stream")
		cuts := []int{}
		for i := 1; i < len(data); i++ {
			cuts = append(cuts, i)
		}
		errAt := f.ErrAt
		if errAt > len(data) {
			errAt = len(data)
		}
		if (op.ID+f.ErrAt)%2 == 1 {
			// an io.Reader-backed object whose failing Read hands out bytes
			// together with the error
			rsrc := sim.NewReaderSource(fmt.Sprintf("shard#%d.op%d", call.Slot, op.ID), &sim.SrcScript{Data: data, Cuts: cuts, ErrAt: errAt, Err: err, ErrWithData: true})
			b.w.c.Count("fault_get_stream_error_with_data", 1)
			return buffer.NewCASBufferFromReader(d, rsrc, buffer.BackendProvided(func(bool) {}))
		}
		src := sim.NewChunkSource(fmt.Sprintf("shard#%d.op%d", call.Slot, op.ID), &sim.SrcScript{Data: data, Cuts: cuts, ErrAt: errAt, Err: err})
		return buffer.NewCASBufferFromChunkReader(d, src, buffer.BackendProvided(func(bool) {}))
	}
	call.Served = true
	if real {
		// a genuine CAS object: stream it through the validating path
		var cuts []int
		if len(data) > 2 {
			cuts = []int{len(data) / 2}
		}
		src := sim.NewChunkSource(fmt.Sprintf("shard#%d.op%d", call.Slot, op.ID), &sim.SrcScript{Data: data, Cuts: cuts, ErrAt: -1})
		return buffer.NewCASBufferFromChunkReader(d, src, buffer.BackendProvided(func(bool) {}))
	}
	return buffer.NewValidatedBufferFromByteSlice(append([]byte{}, data...))
}

func (b *c12Backend) Get(ctx context.Context, d digest.Digest) buffer.Buffer {
	op, call := b.enter(ctx, "Get", []digest.Digest{d}, digest.BadDigest)
	data, ok := b.stub.objs[d]
	real := false
	if r, known := b.w.refs[d]; known {
		real = r.Obj.Real
	}
	return b.serve(op, call, d, data, ok, real)
}

func (b *c12Backend) GetFromComposite(ctx context.Context, parent, child digest.Digest, slicer slicing.BlobSlicer) buffer.Buffer {
	op, call := b.enter(ctx, "GetFromComposite", []digest.Digest{parent}, child)
	data, ok := b.stub.objs[parent]
	var part []byte
	if ok {
		// the child is the slice the operation asked for
		off, n := op.ChildOff, op.ChildLen
		if off+n <= len(data) {
			part = data[off : off+n]
		} else {
			ok = false
		}
	}
	return b.serve(op, call, child, part, ok, false)
}

func (b *c12Backend) Put(ctx context.Context, d digest.Digest, buf buffer.Buffer) error {
	op, call := b.enter(ctx, "Put", []digest.Digest{d}, digest.BadDigest)
	f := b.fault(op)
	if f.Kind == c12FaultCall {
		buf.Discard()
		b.w.c.Count("fault_put_error", 1)
		return b.fail(op, call, f.Code, "fault")
	}
	data, err := buf.ToByteSlice(1 << 20)
	if err != nil {
		// the harness only uploads well-formed buffers
		call.ErrTag = "c12-upload-unreadable"
		call.Err = err
		return err
	}
	call.Data = data
	call.Stored = true
	b.stub.objs[d] = data
	rt.Yield(fmt.Sprintf("shard#%d.Put.done(op%d)", call.Slot, op.ID))
	if f.Kind == c12FaultPutAfter {
		b.w.c.Count("fault_put_error_after_store", 1)
		return b.fail(op, call, f.Code, "fault")
	}
	return nil
}

func (b *c12Backend) FindMissing(ctx context.Context, ds digest.Set) (digest.Set, error) {
	items := append([]digest.Digest{}, ds.Items()...)
	op, call := b.enter(ctx, "FindMissing", items, digest.BadDigest)
	if ctx.Err() != nil {
		// a sibling shard failed first and the fan-out was cancelled
		call.Cancelled = true
		b.w.c.Count("probe_findmissing_cancelled_sibling", 1)
		return digest.EmptySet, b.fail(op, call, status.FromContextError(ctx.Err()).Code(), "cancelled")
	}
	f := b.fault(op)
	if f.Kind != c12FaultNone {
		b.w.c.Count("fault_findmissing_error", 1)
		return digest.EmptySet, b.fail(op, call, f.Code, "fault")
	}
	sb := digest.NewSetBuilder(len(items))
	for _, d := range items {
		if _, ok := b.stub.objs[d]; !ok {
			call.Missing = append(call.Missing, d)
			sb.Add(d)
		}
	}
	rt.Yield(fmt.Sprintf("shard#%d.FindMissing.done(op%d,%d missing)", call.Slot, op.ID, len(call.Missing)))
	call.Answered = true
	return sb.Build(), nil
}

func (b *c12Backend) GetCapabilities(ctx context.Context, instanceName digest.InstanceName) (*remoteexecution.ServerCapabilities, error) {
	rt.Yield(fmt.Sprintf("shard#%d.GetCapabilities", b.stub.slot))
	return &remoteexecution.ServerCapabilities{}, nil
}

// c12Slicer is handed to GetFromComposite; the stubs never call it.
type c12Slicer struct{}

func (c12Slicer) Slice(b buffer.Buffer, childDigest digest.Digest) (buffer.Buffer, []slicing.BlobSlice) {
	panic(sim.HarnessError{Msg: "c12: slicer called"})
}
