package harness

import (
	"io"
	"bytes"
	"context"
	"fmt"
	"sort"
	"strings"

	remoteexecution "github.com/bazelbuild/remote-apis/build/bazel/remote/execution/v2"
	"github.com/buildbarn/bb-storage/pkg/auth"
	"github.com/buildbarn/bb-storage/pkg/blobstore"
	"github.com/buildbarn/bb-storage/pkg/blobstore/buffer"
	"github.com/buildbarn/bb-storage/pkg/digest"
	"vsim/sim"

	"google.golang.org/grpc/codes"
	"google.golang.org/grpc/status"
	rt "verifsimrt"
)

// ---- C18: Authorization: no backend access for a denied instance name ----
//
// Real: blobstore.NewAuthorizingBlobAccess, auth.NewAnyAuthorizer nestings,
// auth.NewStaticAuthorizer, the authorizer configuration factory.
// Stub: leaf authorizers (allow / deny / fail per instance name, tagged
// errors), a recording backend, upload sources that count Close().
//
// Oracle (see c18Node.admissible for the reference decision):
//   * the backend call log grows during an operation only if the reference
//     decision of the authorizer guarding that operation kind admits "grant"
//     for the instance name of every digest involved;
//   * otherwise the caller gets an error that is, by status code and message,
//     the error a leaf of that authorizer produces for one of the names
//     involved, and that the reference decision admits for that name;
//   * a rejected Put released its buffer exactly once (Close count of the
//     upload source);
//   * 'any' authorizers called directly: per position of the batch, nil only
//     if grant is admissible, else an admissible member error.

const (
	c18OpGet = iota
	c18OpPut
	c18OpFindMissing
	c18OpComposite
	c18OpDirect
)

var c18OpNames = []string{"Get", "Put", "FindMissing", "GetFromComposite", "Authorize"}

const (
	c18TGet = iota
	c18TPut
	c18TFM
)

var c18TreeNames = []string{"get", "put", "findMissing"}

const (
	c18BufReader = iota
	c18BufChunk
	c18BufSlice
)

var c18BufNames = []string{"reader", "chunk_reader", "byte_slice"}

type c18Ref struct {
	Name string
	Blob int
}

func (r c18Ref) String() string { return fmt.Sprintf("%q#%d", r.Name, r.Blob) }

type c18Op struct {
	Kind    int
	Ref     c18Ref   // Get / Put / composite parent
	Child   c18Ref   // composite child
	Set     []c18Ref // FindMissing
	Tree    int      // Authorize
	Names   []string // Authorize
	BufKind int      // Put
	Cuts    []int    // Put
}

func (o *c18Op) String() string {
	switch o.Kind {
	case c18OpGet:
		return "Get(" + o.Ref.String() + ")"
	case c18OpPut:
		return fmt.Sprintf("Put(%s, %s cuts=%v)", o.Ref, c18BufNames[o.BufKind], o.Cuts)
	case c18OpComposite:
		return "GetFromComposite(" + o.Ref.String() + ", " + o.Child.String() + ")"
	case c18OpFindMissing:
		var p []string
		for _, r := range o.Set {
			p = append(p, r.String())
		}
		return "FindMissing{" + strings.Join(p, " ") + "}"
	default:
		return fmt.Sprintf("Authorize[%s](%q)", c18TreeNames[o.Tree], o.Names)
	}
}

type c18Env struct {
	c           *sim.RunCtx
	rec         *c18Rec
	trees       [3]*c18Node
	authz       [3]auth.Authorizer
	backend     *c18Backend
	ba          blobstore.BlobAccess
	stored      map[string]bool // the harness's own model of the backend contents
	digests     map[c18Ref]digest.Digest
	quiet       bool
	mute        bool
	ctx         context.Context
	lastVerdict string
	opIndex     int

	leaks     int
	firstLeak string
	evaluated int // operations whose decision involved a denial or failure
}

func c18Content(blob int) []byte { return []byte(fmt.Sprintf("c18 blob #%d", blob)) }

func (e *c18Env) digest(r c18Ref) digest.Digest {
	if d, ok := e.digests[r]; ok {
		return d
	}
	d := RefDigest(r.Name, remoteexecution.DigestFunction_SHA256, c18Content(r.Blob))
	e.digests[r] = d
	return d
}

func c18InstanceName(s string) digest.InstanceName {
	in, err := digest.NewInstanceName(s)
	if err != nil {
		panic(sim.HarnessError{Msg: "bad instance name " + s})
	}
	return in
}

// c18NewEnv wires the system: to be called inside the simulation.
func c18NewEnv(c *sim.RunCtx, trees [3]*c18Node, prestored []c18Ref, quiet bool) *c18Env {
	rec := &c18Rec{c: c, quiet: quiet}
	e := &c18Env{c: c, rec: rec, trees: trees, stored: map[string]bool{}, digests: map[c18Ref]digest.Digest{}, quiet: quiet, ctx: auth.NewContextWithAuthenticationMetadata(context.Background(), c18Metadata(trees))}
	for i, t := range trees {
		if t != nil {
			e.authz[i] = t.build(rec)
			for _, l := range t.leaves(nil) {
				if l.Kind == c18KCfgJMES && !quiet {
					c.Count("probe_jmespath_leaf", 1)
					for _, v := range l.Vals {
						if v >= 2 {
							c.Count("probe_jmespath_non_boolean_result", 1)
						}
					}
				}
			}
		}
	}
	e.backend = &c18Backend{rec: rec, store: map[string][]byte{}}
	for _, r := range prestored {
		k := c18Key(e.digest(r))
		e.backend.store[k] = c18Content(r.Blob)
		e.stored[k] = true
	}
	// exactly the call of cmd/bb_storage/main.go (newScannableBlobAccess;
	// newNonScannableBlobAccess passes nil as the third authorizer)
	e.ba = blobstore.NewAuthorizingBlobAccess(e.backend, e.authz[c18TGet], e.authz[c18TPut], e.authz[c18TFM])
	return e
}

func (e *c18Env) fail(class, desc, format string, a ...interface{}) {
	e.c.Fail(class, "%s: %s\n  case: %s", desc, fmt.Sprintf(format, a...), e.describe())
}

// note writes a verdict line into the hashed event log; while muted (the
// repeated multi-name FindMissing) it only remembers the line.
func (e *c18Env) note(format string, a ...interface{}) {
	if e.quiet {
		return
	}
	if e.mute {
		e.lastVerdict = fmt.Sprintf(format, a...)
		return
	}
	e.c.Note(format, a...)
}

func (e *c18Env) describe() string {
	var p []string
	for i, t := range e.trees {
		if t == nil {
			p = append(p, c18TreeNames[i]+"=<nil>")
		} else {
			p = append(p, c18TreeNames[i]+"="+t.String())
		}
	}
	return strings.Join(p, "; ")
}

// judge evaluates the central oracle for one operation through the
// decorator. calls is what the backend saw during the operation, err what the
// caller got. forwarded tells the caller to go on with the pass-through check.
func (e *c18Env) judge(desc string, treeIdx int, names []string, calls []c18BackendCall, wantOp string, wantDigests []string, err error) (forwarded bool) {
	tree := e.trees[treeIdx]
	allMayGrant, allMustGrant := true, true
	notGranted := 0
	var masks []string
	for _, n := range names {
		m := tree.admissible(n)
		if m&c18MGrant == 0 {
			allMayGrant = false
		}
		if m != c18MGrant {
			allMustGrant = false
			notGranted++
		}
		masks = append(masks, fmt.Sprintf("%q:%s", n, c18MaskString(m)))
	}
	if !allMustGrant {
		e.evaluated++
	}
	if len(calls) > 0 {
		if !allMayGrant {
			e.fail("backend-contacted-unauthorized", desc, "backend saw %d call(s) (%s %v) although the %s authorizer does not allow every instance name involved; reference decision %v; caller got err=%v",
				len(calls), calls[0].Op, calls[0].Digests, c18TreeNames[treeIdx], masks, err)
			return false
		}
		for _, n := range names {
			if e.rec.failObserved(tree, n) {
				e.fail("forwarded-despite-authorizer-failure", desc, "backend was contacted (%s) although a member of the %s authorizer reported a non-denial failure for instance name %q during this operation", c18Calls(calls), c18TreeNames[treeIdx], n)
				return false
			}
		}
		if len(calls) != 1 || calls[0].Op != wantOp || !c18SameStrings(calls[0].Digests, wantDigests) {
			e.fail("forwarded-call-differs", desc, "expected exactly one backend call %s %v, backend saw %s", wantOp, wantDigests, c18Calls(calls))
			return false
		}
		e.note("op%d %s -> forwarded", e.opIndex, desc)
		e.c.Stats["probe_"+wantOp+"_forwarded"]++
		return true
	}
	// backend not contacted
	if err == nil {
		e.fail("result-without-backend", desc, "the operation reported success although the backend was never contacted")
		return false
	}
	if allMustGrant {
		e.fail("allowed-not-forwarded", desc, "every instance name involved is allowed by the %s authorizer (%v), yet the backend was not contacted and the caller got %v", c18TreeNames[treeIdx], masks, err)
		return false
	}
	matched := false
	for _, n := range names {
		if o, ok := tree.errorBelongs(err, n); ok && tree.admissible(n)&(1<<o) != 0 {
			matched = true
			break
		}
	}
	if !matched {
		e.fail("wrong-authorization-error", desc, "rejected with %v, which is not an error the %s authorizer produces and the reference decision admits for one of the instance names involved (%v)", err, c18TreeNames[treeIdx], masks)
		return false
	}
	if notGranted >= 2 {
		// which of several failing names is reported depends on Go map order
		e.note("op%d %s -> rejected", e.opIndex, desc)
	} else {
		e.note("op%d %s -> rejected %v", e.opIndex, desc, status.Code(err))
	}
	e.c.Stats["probe_"+wantOp+"_rejected"]++
	if c := status.Code(err); c != codes.PermissionDenied && notGranted < 2 {
		// (with several refused names the reported one depends on map order;
		// counters must be reproducible as well)
		e.c.Stats["probe_rejected_with_authorizer_failure"]++
	}
	return false
}

func c18SameStrings(a, b []string) bool {
	if len(a) != len(b) {
		return false
	}
	for i := range a {
		if a[i] != b[i] {
			return false
		}
	}
	return true
}

func c18Calls(calls []c18BackendCall) string {
	var p []string
	for _, c := range calls {
		p = append(p, fmt.Sprintf("%s %v", c.Op, c.Digests))
	}
	return "[" + strings.Join(p, "; ") + "]"
}

// checkAuthorize evaluates an authorizer called directly with a batch.
func c18CheckAuthorize(ctx context.Context, c *sim.RunCtx, rec *c18Rec, tree *c18Node, a auth.Authorizer, names []string, in []digest.InstanceName, desc func() string) (nontrivial bool) {
	rec.reset()
	errs := a.Authorize(ctx, in)
	if len(errs) != len(names) {
		c.Fail("authorize-result-length", "%s: %d results for %d instance names", desc(), len(errs), len(names))
		return
	}
	for i, n := range names {
		m := tree.admissible(n)
		if m != c18MGrant {
			nontrivial = true
		}
		if errs[i] == nil {
			if m&c18MGrant == 0 {
				c.Fail("any-granted-unauthorized", "%s: position %d (%q) was granted, reference decision %s", desc(), i, n, c18MaskString(m))
				return
			}
			if rec.failObserved(tree, n) {
				c.Fail("any-granted-despite-member-failure", "%s: position %d (%q) was granted although a member reported a non-denial failure for it during this call", desc(), i, n)
				return
			}
			continue
		}
		if m == c18MGrant {
			c.Fail("any-denied-although-granted", "%s: position %d (%q) got %v although a member grants it and no member fails", desc(), i, n, errs[i])
			return
		}
		o, ok := tree.errorBelongs(errs[i], n)
		if !ok || m&(1<<o) == 0 {
			c.Fail("any-wrong-error", "%s: position %d (%q) got %v, reference decision %s (a member's non-denial failure must be reported instead of a denial; the error must be a member's error for this name)", desc(), i, n, errs[i], c18MaskString(m))
			return
		}
		if o != c18Deny && m&c18MDeny == 0 {
			hasDeny := false
			for _, l := range tree.leaves(nil) {
				if l.leafOutcome(n) == c18Deny {
					hasDeny = true
				}
			}
			if hasDeny {
				c.Stats["probe_failure_beats_denial"]++
			}
		}
	}
	return
}

// doOp executes one operation and evaluates the oracles.
func (e *c18Env) doOp(op *c18Op) {
	c := e.c
	rec := e.rec
	desc := op.String()
	nb := len(rec.backend)
	rec.reset()
	switch op.Kind {
	case c18OpGet, c18OpComposite:
		d := e.digest(op.Ref)
		var b buffer.Buffer
		wantOp, want, resultRef := "Get", []string{c18Key(d)}, op.Ref
		if op.Kind == c18OpGet {
			b = e.ba.Get(e.ctx, d)
		} else {
			cd := e.digest(op.Child)
			b = e.ba.GetFromComposite(e.ctx, d, cd, c18Slicer{})
			wantOp, want, resultRef = "GetFromComposite", []string{c18Key(d), c18Key(cd)}, op.Child
		}
		data, err := b.ToByteSlice(1 << 20)
		// Digests involved: the parent's instance name (by the convention of
		// every caller the child carries the same instance name; a deviating
		// child is recorded as an observation only).
		if !e.judge(desc, c18TGet, []string{op.Ref.Name}, rec.backend[nb:], wantOp, want, err) {
			return
		}
		if op.Kind == c18OpComposite && op.Child.Name != op.Ref.Name && e.trees[c18TGet].admissible(op.Child.Name)&c18MGrant == 0 {
			c.Stats["note_composite_child_instance_name_not_authorized"]++
		}
		if e.stored[c18Key(e.digest(resultRef))] {
			if err != nil || !bytes.Equal(data, c18Content(resultRef.Blob)) {
				e.fail("result-not-passed-through", desc, "backend holds the object but the caller got %q, %v", data, err)
			}
		} else if status.Code(err) != codes.NotFound {
			e.fail("result-not-passed-through", desc, "backend answered NOT_FOUND but the caller got %q, %v", data, err)
		}
	case c18OpPut:
		d := e.digest(op.Ref)
		content := c18Content(op.Ref.Blob)
		script := &sim.SrcScript{Data: content, Cuts: op.Cuts, ErrAt: -1}
		var st *sim.SrcStats
		var b buffer.Buffer
		switch op.BufKind {
		case c18BufReader:
			src := sim.NewReaderSource("upload", script)
			st = src.St
			b = buffer.NewCASBufferFromReader(d, src, buffer.UserProvided)
		case c18BufChunk:
			src := sim.NewChunkSource("upload", script)
			st = src.St
			b = buffer.NewCASBufferFromChunkReader(d, src, buffer.UserProvided)
		default:
			b = buffer.NewValidatedBufferFromByteSlice(content)
		}
		if st != nil && len(op.Cuts)%2 == 1 {
			// the shape replicating decorators hand down: one half of a stream
			// clone with a task attached that feeds the other half to a sink
			b1, b2 := b.CloneStream()
			b = b1.WithTask(func() error { return b2.IntoWriter(io.Discard) })
			c.Stats["probe_put_buffer_with_sibling_task"]++
		}
		err := e.ba.Put(e.ctx, d, b)
		calls := rec.backend[nb:]
		if e.judge(desc, c18TPut, []string{op.Ref.Name}, calls, "Put", []string{c18Key(d)}, err) {
			if calls[0].PutErr != nil || !bytes.Equal(calls[0].PutData, content) {
				e.fail("forwarded-call-differs", desc, "the backend could not read the upload it was handed: %q, %v", calls[0].PutData, calls[0].PutErr)
				return
			}
			if err != nil {
				e.fail("result-not-passed-through", desc, "backend stored the object but the caller got %v", err)
				return
			}
			e.stored[c18Key(d)] = true
			return
		}
		if c.Failed() || st == nil {
			return
		}
		// rejected upload: the buffer must have been released, exactly once
		switch {
		case st.Closes == 0:
			// Reported at the end of the run, after every other oracle, so
			// that this (expected, F4) class cannot mask another one.
			e.leaks++
			if e.firstLeak == "" {
				e.firstLeak = fmt.Sprintf("op%d %s rejected with %v; upload source: %d reads, %d closes", e.opIndex, desc, err, st.Reads, st.Closes)
			}
		case st.Closes > 1:
			e.fail("put-buffer-released-twice", desc, "rejected upload's source was closed %d times", st.Closes)
		default:
			c.Stats["probe_rejected_put_released"]++
		}
		c.Stats["probe_rejected_put_release_observable"]++
	case c18OpFindMissing:
		sb := digest.NewSetBuilder(len(op.Set))
		nameSet := map[string]bool{}
		keySet := map[string]bool{}
		var wantMissing []string
		for _, r := range op.Set {
			d := e.digest(r)
			sb.Add(d)
			nameSet[r.Name] = true
			if !keySet[c18Key(d)] {
				keySet[c18Key(d)] = true
				if !e.stored[c18Key(d)] {
					wantMissing = append(wantMissing, c18Key(d))
				}
			}
		}
		var names, keys []string
		for n := range nameSet {
			names = append(names, n)
		}
		for k := range keySet {
			keys = append(keys, k)
		}
		sort.Strings(names)
		sort.Strings(keys)
		sort.Strings(wantMissing)
		set := sb.Build()
		// The decorator collects the instance names through a Go map, so the
		// order in which the authorizer sees them is runtime-random. With
		// several names the call is issued 16 times (FindMissing is
		// idempotent) so that an order-dependent defect is likely to show in
		// every execution of the case, which keeps minimisation and replays
		// reasonably stable (a small Go map starts iterating at a random one
		// of its 8 slots, so two names swap places with probability 1/8 per
		// call only; replays of order-dependent defects stay best-effort).
		// The repetitions leave no trace in the hashed event log (stubs do
		// not yield, verdict lines are held back); one canonical verdict line
		// is written afterwards, so the hash does not depend on which
		// repetition exposes a defect.
		if len(names) < 2 || e.quiet {
			e.findMissingOnce(desc, set, names, keys, wantMissing, nb, true)
			return
		}
		e.mute, rec.quiet, e.lastVerdict = true, true, ""
		ok := true
		for rep := 0; rep < 16 && ok; rep++ {
			rec.reset()
			ok = e.findMissingOnce(desc, set, names, keys, wantMissing, len(rec.backend), rep == 0)
		}
		e.mute, rec.quiet = false, false
		if ok {
			c.Note("%s", e.lastVerdict)
		}
	case c18OpDirect:
		in := make([]digest.InstanceName, 0, len(op.Names))
		for _, n := range op.Names {
			in = append(in, c18InstanceName(n))
		}
		tree := e.trees[op.Tree]
		if c18CheckAuthorize(e.ctx, c, rec, tree, e.authz[op.Tree], op.Names, in, func() string { return desc + " on " + tree.String() }) {
			e.evaluated++
		}
		if len(rec.backend) != nb {
			e.fail("backend-contacted-unauthorized", desc, "an authorizer contacted the storage backend")
		}
		if !e.quiet && !c.Failed() {
			c.Note("op%d %s -> checked", e.opIndex, desc)
		}
	}
}

// findMissingOnce issues one FindMissing through the decorator and judges it.
func (e *c18Env) findMissingOnce(desc string, set digest.Set, names, keys, wantMissing []string, nb int, countProbes bool) bool {
	c := e.c
	rec := e.rec
	missing, err := e.ba.FindMissing(e.ctx, set)
	calls := rec.backend[nb:]
	if len(calls) == 0 && err == nil && set.Empty() && missing.Empty() {
		return true // nothing to authorize, nothing asked
	}
	if len(names) >= 2 && countProbes {
		granted := 0
		for _, n := range names {
			if e.trees[c18TFM].admissible(n) == c18MGrant {
				granted++
			}
		}
		if granted > 0 && granted < len(names) {
			c.Stats["probe_findmissing_mixed_allowed_and_denied"]++
		}
		if granted == len(names) {
			c.Stats["probe_findmissing_multi_name_allowed"]++
		}
	}
	if !e.judge(desc, c18TFM, names, calls, "FindMissing", keys, err) {
		return !c.Failed()
	}
	var got []string
	for _, d := range missing.Items() {
		got = append(got, c18Key(d))
	}
	sort.Strings(got)
	if err != nil || !c18SameStrings(got, wantMissing) {
		e.fail("result-not-passed-through", desc, "backend's answer is %v, caller got %v, %v", wantMissing, got, err)
	}
	return !c.Failed()
}

// finish reports the deferred class and sets the coverage flags.
func (e *c18Env) finish() {
	c := e.c
	if e.leaks > 0 {
		c.Fail("put-buffer-not-released", "a Put rejected by the put authorizer returned without releasing its buffer (%d time(s) in this run); first: %s\n  case: %s", e.leaks, e.firstLeak, e.describe())
	}
	if e.evaluated > 0 {
		c.Nontrivial = true
	}
}

// ---- random cases ----

// (names with dashes: the digest's internal representation is dash separated,
// so "x-a" must not be mistaken for "a", nor "a-b/c" for "b/c")
var c18Universe = []string{"", "a", "a/b", "b", "ab", "a/b/c", "x-a", "a-b/c", "b-"}

type c18Case struct {
	Names     []string
	Trees     [3]*c18Node
	Prestored []c18Ref
	Ops       []c18Op
}

func (cs *c18Case) String() string {
	var t []string
	for i, n := range cs.Trees {
		if n == nil {
			t = append(t, c18TreeNames[i]+"=<nil>")
		} else {
			t = append(t, c18TreeNames[i]+"="+n.String())
		}
	}
	var o []string
	for i := range cs.Ops {
		o = append(o, cs.Ops[i].String())
	}
	return fmt.Sprintf("names=%q %s stored=%v ops=[%s]", cs.Names, strings.Join(t, " "), cs.Prestored, strings.Join(o, "; "))
}

type c18Gen struct {
	t      *sim.Tape
	names  []string
	faults bool
	leaves int
	prefix string
}

func (g *c18Gen) leaf() *c18Node {
	g.leaves++
	n := &c18Node{Leaf: true, ID: fmt.Sprintf("%s%d", g.prefix, g.leaves)}
	switch g.t.Pick(6, 2, 1, 1, 2) {
	case 0:
		n.Kind = c18KStub
	case 1:
		n.Kind = c18KStaticFn
	case 2:
		n.Kind = c18KCfgPrefix
		n.Prefixes = c18DrawPrefixes(g.t)
		return n
	case 4:
		n.Kind = c18KCfgJMES
		n.Vals = map[string]int{}
		for _, name := range g.names {
			if g.t.Chance(1, 6) {
				continue // the field is absent from the metadata
			}
			n.Vals[name] = g.t.Pick(4, 2, 1, 1, 1, 1, 1)
		}
		return n
	default:
		n.Kind = c18KCfgDeny
		return n
	}
	n.Out = map[string]int{}
	for _, name := range g.names {
		if g.faults && n.Kind == c18KStub {
			n.Out[name] = g.t.Pick(3, 4, 1, 1)
		} else {
			n.Out[name] = g.t.Pick(3, 4)
		}
	}
	return n
}

func c18DrawPrefixes(t *sim.Tape) []string {
	k := t.Pick(2, 4, 3, 1) // number of prefixes 0..3
	var p []string
	for i := 0; i < k; i++ {
		p = append(p, c18Universe[t.Choose(len(c18Universe))])
	}
	return p
}

// node draws a tree; level = number of 'any' levels still allowed.
func (g *c18Gen) node(level int, root bool) *c18Node {
	isAny := false
	if level > 0 && g.leaves < 8 {
		if root {
			isAny = !g.t.Chance(1, 5)
		} else {
			isAny = g.t.Chance(1, 3)
		}
	}
	if !isAny {
		return g.leaf()
	}
	n := &c18Node{}
	k := []int{2, 3, 1, 0}[g.t.Pick(5, 4, 2, 1)]
	for i := 0; i < k; i++ {
		n.Members = append(n.Members, g.node(level-1, false))
	}
	return n
}

func c18DrawNames(t *sim.Tape, lo, hi int) []string {
	k := t.Range(lo, hi)
	pool := append([]string{}, c18Universe...)
	var names []string
	for i := 0; i < k && len(pool) > 0; i++ {
		j := t.Choose(len(pool))
		names = append(names, pool[j])
		pool = append(pool[:j], pool[j+1:]...)
	}
	return names
}

func c18DrawOps(t *sim.Tape, cs *c18Case, direct bool) {
	names := cs.Names
	ref := func() c18Ref { return c18Ref{Name: names[t.Choose(len(names))], Blob: t.Choose(3)} }
	n := t.Range(1, 8)
	for i := 0; i < n; i++ {
		var op c18Op
		w := []int{3, 3, 4, 2, 2}
		if !direct {
			w[c18OpDirect] = 0
		}
		if cs.Trees[c18TFM] == nil {
			w[c18OpFindMissing] = 0
		}
		op.Kind = t.Pick(w...)
		switch op.Kind {
		case c18OpGet:
			op.Ref = ref()
		case c18OpPut:
			op.Ref = ref()
			op.BufKind = t.Pick(3, 3, 1)
			op.Cuts = sim.DrawCuts(t, len(c18Content(op.Ref.Blob)), 2)
		case c18OpComposite:
			op.Ref = ref()
			op.Child = c18Ref{Name: op.Ref.Name, Blob: t.Choose(3)}
			if t.Chance(1, 8) {
				op.Child.Name = names[t.Choose(len(names))]
			}
		case c18OpFindMissing:
			k := t.Range(0, 6)
			for j := 0; j < k; j++ {
				op.Set = append(op.Set, ref())
			}
		case c18OpDirect:
			op.Tree = t.Choose(3)
			if cs.Trees[op.Tree] == nil {
				op.Tree = c18TGet
			}
			k := t.Range(0, 5)
			for j := 0; j < k; j++ {
				if t.Chance(1, 10) {
					op.Names = append(op.Names, c18Universe[t.Choose(len(c18Universe))])
				} else {
					op.Names = append(op.Names, names[t.Choose(len(names))])
				}
			}
		}
		cs.Ops = append(cs.Ops, op)
	}
}

func c18DrawPrestored(t *sim.Tape, cs *c18Case) {
	for _, n := range cs.Names {
		for b := 0; b < 3; b++ {
			if t.Chance(1, 2) {
				cs.Prestored = append(cs.Prestored, c18Ref{Name: n, Blob: b})
			}
		}
	}
}

func c18DrawCase(t *sim.Tape, faults bool) *c18Case {
	cs := &c18Case{}
	cs.Names = c18DrawNames(t, 1, 4)
	for i := 0; i < 3; i++ {
		g := &c18Gen{t: t, names: cs.Names, faults: faults, prefix: string("gpf"[i])}
		cs.Trees[i] = g.node(3, true)
	}
	c18DrawPrestored(t, cs)
	c18DrawOps(t, cs, true)
	return cs
}

// c18DrawWiringCase mirrors cmd/bb_storage/main.go: the three authorizers are
// built by the configuration factory from allow / deny / instanceNamePrefix
// configurations and handed to NewAuthorizingBlobAccess in the order
// (get, put, findMissing); the non-scannable variant (AC, ICAS, …) passes nil
// as the findMissing authorizer.
func c18DrawWiringCase(t *sim.Tape) *c18Case {
	cs := &c18Case{}
	cs.Names = c18DrawNames(t, 2, 5)
	nonScannable := t.Chance(1, 4)
	for i := 0; i < 3; i++ {
		if i == c18TFM && nonScannable {
			continue
		}
		n := &c18Node{Leaf: true, ID: fmt.Sprintf("%c1", "gpf"[i])}
		switch t.Pick(1, 6, 1) {
		case 0:
			n.Kind = c18KCfgAllow
		case 1:
			n.Kind = c18KCfgPrefix
			n.Prefixes = c18DrawPrefixes(t)
		default:
			n.Kind = c18KCfgDeny
		}
		cs.Trees[i] = n
	}
	c18DrawPrestored(t, cs)
	c18DrawOps(t, cs, true)
	return cs
}

func c18RunCase(c *sim.RunCtx, cs *c18Case) {
	c.Sample["case"] = cs.String()
	c.Note("case %s", cs)
	maxDepth := 0
	for _, t := range cs.Trees {
		if t != nil && t.depth() > maxDepth {
			maxDepth = t.depth()
		}
	}
	var e *c18Env
	c.Sim(sim.SimOpts{MaxSteps: 20000, DeadlockClass: "deadlock"}, func(s *rt.Sched) {
		e = c18NewEnv(c, cs.Trees, cs.Prestored, false)
		for i := range cs.Ops {
			e.opIndex = i
			e.doOp(&cs.Ops[i])
			if c.Failed() {
				return
			}
		}
	})
	if e == nil {
		return
	}
	if maxDepth >= 3 && e.evaluated > 0 {
		c.Stats["probe_any_nested_depth3"]++
	}
	e.finish()
}

func c18Random(c *sim.RunCtx) { c18RunCase(c, c18DrawCase(c.T.Plan, false)) }
func c18Faults(c *sim.RunCtx) { c18RunCase(c, c18DrawCase(c.T.Plan, true)) }
func c18Wiring(c *sim.RunCtx) { c18RunCase(c, c18DrawWiringCase(c.T.Plan)) }

// ---- exhaustive small cases ----

func c18StubLeaf(id string) *c18Node {
	return &c18Node{Leaf: true, ID: id, Kind: c18KStub, Out: map[string]int{}}
}

func c18Any(members ...*c18Node) *c18Node { return &c18Node{Members: members} }

// c18Assign decodes code (base `base`) into the outcome of every (leaf, name).
func c18Assign(leaves []*c18Node, names []string, code, base int) {
	for _, l := range leaves {
		for _, n := range names {
			l.Out[n] = code % base
			code /= base
		}
	}
}

func c18Pow(b, e int) int {
	r := 1
	for i := 0; i < e; i++ {
		r *= b
	}
	return r
}

// c18Exhaustive enumerates:
//
//	A  flat 'any' over 0..3 stub authorizers x 1..3 instance names, every
//	   assignment of allow/deny/UNAVAILABLE/INTERNAL (4^(m*n), up to 4^9);
//	A2 every nesting shape of 'any' (depth <= 3, incl. empty and one-member
//	   'any') over <= 3 leaves x <= 2 names, every assignment;
//	B  the decorator with one stub authorizer per operation kind x 2 names,
//	   every assignment (4^6) x {Get, GetFromComposite, Put on each name,
//	   FindMissing over 5 digest sets}; and 3 names x every assignment of the
//	   findMissing authorizer (4^3) x every subset of names;
//	C  the decorator guarded by a flat 'any' over 3 stub authorizers x 3 names,
//	   every assignment of allow/deny/UNAVAILABLE (3^9) x {Get per name,
//	   FindMissing over every non-empty subset of names}.
func c18Exhaustive(c *sim.RunCtx) {
	cases := 0
	rec := &c18Rec{c: c, quiet: true}
	allNames := []string{"a", "b", "a/b"}
	leakTotal := 0
	firstLeak := ""
	describe := ""

	// A + A2: authorizers called directly
	type shape struct {
		name   string
		leaves int
		mk     func(l []*c18Node) *c18Node
	}
	shapes := []shape{
		{"any[]", 0, func(l []*c18Node) *c18Node { return c18Any() }},
		{"any[L]", 1, func(l []*c18Node) *c18Node { return c18Any(l[0]) }},
		{"any[L,L]", 2, func(l []*c18Node) *c18Node { return c18Any(l[0], l[1]) }},
		{"any[L,L,L]", 3, func(l []*c18Node) *c18Node { return c18Any(l[0], l[1], l[2]) }},
	}
	nFlat := len(shapes)
	shapes = append(shapes,
		shape{"any[any[L,L],L]", 3, func(l []*c18Node) *c18Node { return c18Any(c18Any(l[0], l[1]), l[2]) }},
		shape{"any[L,any[L,L]]", 3, func(l []*c18Node) *c18Node { return c18Any(l[0], c18Any(l[1], l[2])) }},
		shape{"any[any[L],any[L],L]", 3, func(l []*c18Node) *c18Node { return c18Any(c18Any(l[0]), c18Any(l[1]), l[2]) }},
		shape{"any[any[any[L,L]],L]", 3, func(l []*c18Node) *c18Node { return c18Any(c18Any(c18Any(l[0], l[1])), l[2]) }},
		shape{"any[any[L,any[L,L]]]", 3, func(l []*c18Node) *c18Node { return c18Any(c18Any(l[0], c18Any(l[1], l[2]))) }},
		shape{"any[any[any[L,L],L]]", 3, func(l []*c18Node) *c18Node { return c18Any(c18Any(c18Any(l[0], l[1]), l[2])) }},
		shape{"any[any[L,L],any[L]]", 3, func(l []*c18Node) *c18Node { return c18Any(c18Any(l[0], l[1]), c18Any(l[2])) }},
		shape{"any[L,any[]]", 1, func(l []*c18Node) *c18Node { return c18Any(l[0], c18Any()) }},
		shape{"any[any[],L,L]", 2, func(l []*c18Node) *c18Node { return c18Any(c18Any(), l[0], l[1]) }},
		shape{"any[any[L,any[]],L]", 2, func(l []*c18Node) *c18Node { return c18Any(c18Any(l[0], c18Any()), l[1]) }},
		shape{"any[L,any[any[L],any[L]]]", 3, func(l []*c18Node) *c18Node { return c18Any(l[0], c18Any(c18Any(l[1]), c18Any(l[2]))) }},
	)
	c.Sim(sim.SimOpts{MaxSteps: 1 << 30, DeadlockClass: "deadlock"}, func(s *rt.Sched) {
		for si, sh := range shapes {
			maxNames := 2
			if si < nFlat {
				maxNames = 3
			}
			for n := 1; n <= maxNames; n++ {
				names := allNames[:n]
				in := make([]digest.InstanceName, n)
				for i := range names {
					in[i] = c18InstanceName(names[i])
				}
				leaves := make([]*c18Node, sh.leaves)
				for i := range leaves {
					leaves[i] = c18StubLeaf(fmt.Sprintf("x%d", i+1))
				}
				tree := sh.mk(leaves)
				a := tree.build(rec)
				total := c18Pow(c18NOutcomes, sh.leaves*n)
				for code := 0; code < total; code++ {
					c18Assign(leaves, names, code, c18NOutcomes)
					c18CheckAuthorize(context.Background(), c, rec, tree, a, names, in, func() string {
						return fmt.Sprintf("exhaustive %s Authorize(%q) on %s", sh.name, names, tree)
					})
					cases++
					if c.Failed() {
						return
					}
				}
			}
		}
		c.Stats["exhaustive_any_cases"] = cases
	})
	if c.Failed() {
		return
	}

	// B: one stub authorizer per operation kind
	decoratorOps := 0
	runOps := func(e *c18Env, ops []c18Op) bool {
		for i := range ops {
			e.opIndex = i
			e.doOp(&ops[i])
			decoratorOps++
			if c.Failed() {
				return false
			}
		}
		return true
	}
	collect := func(e *c18Env) {
		leakTotal += e.leaks
		if firstLeak == "" && e.firstLeak != "" {
			firstLeak, describe = e.firstLeak, e.describe()
		}
	}
	c.Sim(sim.SimOpts{MaxSteps: 1 << 30, DeadlockClass: "deadlock"}, func(s *rt.Sched) {
		names := allNames[:2]
		leaves := []*c18Node{c18StubLeaf("g1"), c18StubLeaf("p1"), c18StubLeaf("f1")}
		e := c18NewEnv(c, [3]*c18Node{leaves[0], leaves[1], leaves[2]}, []c18Ref{{"a", 0}, {"b", 1}}, true)
		ops := []c18Op{
			{Kind: c18OpGet, Ref: c18Ref{"a", 0}},
			{Kind: c18OpGet, Ref: c18Ref{"b", 0}},
			{Kind: c18OpComposite, Ref: c18Ref{"a", 0}, Child: c18Ref{"a", 1}},
			{Kind: c18OpComposite, Ref: c18Ref{"b", 1}, Child: c18Ref{"b", 1}},
			{Kind: c18OpPut, Ref: c18Ref{"a", 2}, BufKind: c18BufReader},
			{Kind: c18OpPut, Ref: c18Ref{"b", 2}, BufKind: c18BufChunk, Cuts: []int{3}},
			{Kind: c18OpFindMissing},
			{Kind: c18OpFindMissing, Set: []c18Ref{{"a", 0}}},
			{Kind: c18OpFindMissing, Set: []c18Ref{{"b", 0}}},
			{Kind: c18OpFindMissing, Set: []c18Ref{{"a", 0}, {"b", 0}}},
			{Kind: c18OpFindMissing, Set: []c18Ref{{"a", 0}, {"a", 1}, {"b", 1}}},
		}
		total := c18Pow(c18NOutcomes, 3*2)
		for code := 0; code < total; code++ {
			c18Assign(leaves, names, code, c18NOutcomes)
			if !runOps(e, ops) {
				return
			}
		}
		collect(e)

		// three names, every assignment of the findMissing authorizer, every subset
		allow := c18StubLeaf("g1")
		allowP := c18StubLeaf("p1")
		for _, n := range allNames {
			allow.Out[n], allowP.Out[n] = c18Allow, c18Allow
		}
		fm := c18StubLeaf("f1")
		e = c18NewEnv(c, [3]*c18Node{allow, allowP, fm}, []c18Ref{{"a", 0}, {"a/b", 0}}, true)
		var fmOps []c18Op
		for sub := 1; sub < 8; sub++ {
			var set []c18Ref
			for i, n := range allNames {
				if sub&(1<<i) != 0 {
					set = append(set, c18Ref{n, 0})
					if i == 0 {
						set = append(set, c18Ref{n, 1})
					}
				}
			}
			fmOps = append(fmOps, c18Op{Kind: c18OpFindMissing, Set: set})
		}
		total = c18Pow(c18NOutcomes, 3)
		for code := 0; code < total; code++ {
			c18Assign([]*c18Node{fm}, allNames, code, c18NOutcomes)
			if !runOps(e, fmOps) {
				return
			}
		}
		collect(e)

		// C: flat 'any' over three stub authorizers guards Get and FindMissing
		gl := []*c18Node{c18StubLeaf("g1"), c18StubLeaf("g2"), c18StubLeaf("g3")}
		fl := []*c18Node{c18StubLeaf("f1"), c18StubLeaf("f2"), c18StubLeaf("f3")}
		e = c18NewEnv(c, [3]*c18Node{c18Any(gl...), allowP, c18Any(fl...)}, []c18Ref{{"a", 0}, {"a/b", 0}}, true)
		getOps := []c18Op{
			{Kind: c18OpGet, Ref: c18Ref{"a", 0}},
			{Kind: c18OpGet, Ref: c18Ref{"b", 0}},
			{Kind: c18OpComposite, Ref: c18Ref{"a/b", 0}, Child: c18Ref{"a/b", 1}},
		}
		total = c18Pow(3, 9)
		for code := 0; code < total; code++ {
			c18Assign(gl, allNames, code, 3)
			c18Assign(fl, allNames, code, 3)
			if !runOps(e, getOps) || !runOps(e, fmOps) {
				return
			}
		}
		collect(e)
	})
	if c.Failed() {
		return
	}
	c.Stats["exhaustive_decorator_operations"] = decoratorOps
	c.Sample["exhaustive_any_cases"] = cases
	c.Sample["exhaustive_decorator_operations"] = decoratorOps
	c.Nontrivial = true
	if leakTotal > 0 {
		c.Fail("put-buffer-not-released", "a Put rejected by the put authorizer returned without releasing its buffer (%d of the enumerated rejected uploads); first: %s\n  case: %s", leakTotal, firstLeak, describe)
	}
}

func init() {
	sim.Register(&sim.Check{
		Prop:  "C18",
		Level: "exploration",
		Profiles: []sim.Profile{
			{Name: "random", Weight: 3, Fn: c18Random},
			{Name: "authorizer-failures", Weight: 3, Fn: c18Faults},
			{Name: "config-wiring", Weight: 2, Fn: c18Wiring},
			{Name: "remote-authorizer", Weight: 2, Fn: c18Remote},
			{Name: "exhaustive-small", Prologue: true, Fn: c18Exhaustive},
		},
		Components: map[string][]string{
			"real": {"pkg/blobstore authorizingBlobAccess", "pkg/auth anyAuthorizer (NewAnyAuthorizer incl. its 0/1-member special cases, nestings to depth 3)", "pkg/auth staticAuthorizer", "pkg/auth/configuration BaseAuthorizerFactory (allow, deny, instanceNamePrefix)", "pkg/digest InstanceNameTrie.ContainsPrefix, Set", "pkg/blobstore/buffer (upload buffers over counting sources)"},
			"stub": {"leaf authorizers (allow / PERMISSION_DENIED / UNAVAILABLE / INTERNAL per instance name, tagged errors)", "recording backend (map store + call log)", "upload sources (simsource, Close counted)", "blob slicer"},
		},
		Rule: "a case = (instance-name pool, one authorizer tree per operation kind: 'any' nestings over stub/static/configured leaves with an outcome per name, backend contents, 1-8 operations Get/GetFromComposite/Put/FindMissing over mixed-name digest sets or direct Authorize batches); non-trivial = at least one operation whose reference decision involved a denial or an authorizer failure; distinct = event-log hash (case description + per-operation verdict + seam calls)",
		RequiredProbes: []string{
			"probe_Get_rejected", "probe_Get_forwarded",
			"probe_GetFromComposite_rejected", "probe_GetFromComposite_forwarded",
			"probe_Put_rejected", "probe_Put_forwarded",
			"probe_FindMissing_rejected", "probe_FindMissing_forwarded",
			"probe_findmissing_mixed_allowed_and_denied", "probe_findmissing_multi_name_allowed",
			"probe_rejected_put_release_observable",
			"probe_rejected_with_authorizer_failure", "probe_failure_beats_denial",
			"probe_any_nested_depth3",
			"fault_authorizer_unavailable", "fault_authorizer_internal",
		},
		Assumptions: []string{
			"where one member of an 'any' grants an instance name and another member would fail (non-denial), granting is accepted only if no member actually reported a failure for that name during the call (the property fixes no evaluation order, so an implementation that stops at the first grant never sees the failure); once a member has reported a failure, the name must not be granted",
			"the error a rejected caller receives is identified by status code and by containing the member's message (the decorator may prefix it)",
			"GetFromComposite: the child digest carries the parent's instance name (convention of all callers); a child under a different, denied name is counted as an observation, not judged",
			"an empty FindMissing may be answered without contacting the backend",
			"cmd/bb_storage/main.go itself is not executed (package main does not build in this sandbox); the config-wiring profile reproduces its calls: BaseAuthorizerFactory.NewAuthorizerFromConfiguration x3, NewAuthorizingBlobAccess(backend, get, put, findMissing|nil)",
		},
	})
}
