package harness

import (
	"context"
	"fmt"
	"io"
	mrand "math/rand"
	"strings"
	"time"

	remoteexecution "github.com/bazelbuild/remote-apis/build/bazel/remote/execution/v2"
	"github.com/buildbarn/bb-storage/pkg/blobstore"
	"github.com/buildbarn/bb-storage/pkg/blobstore/buffer"
	"github.com/buildbarn/bb-storage/pkg/blobstore/local"
	"github.com/buildbarn/bb-storage/pkg/clock"
	"github.com/buildbarn/bb-storage/pkg/digest"
	"github.com/buildbarn/bb-storage/pkg/eviction"
	"github.com/buildbarn/bb-storage/pkg/program"
	pb_local "github.com/buildbarn/bb-storage/pkg/proto/blobstore/local"
	"github.com/buildbarn/bb-storage/pkg/random"
	"github.com/buildbarn/bb-storage/pkg/util"
	"github.com/prometheus/client_golang/prometheus"
	"vsim/sim"

	rt "verifsimrt"
)

// ---- configuration of a simulated local store ----

type storeCfg struct {
	Disk         bool // blocks on a (simulated) block device; else in memory
	Persistent   bool
	SectorSize   int
	BlockSectors int
	Old, Cur     int
	New, Spare   int
	Mutable      bool // AC-style growth policy (one new block)
	Hier         bool // hierarchical CAS
	AC           bool // AC read buffer factory, ActionResult payloads
	KeyFormat    digest.KeyFormat
	IndexDev     bool
	IndexSlots   int
	GetAtt       uint32
	PutAtt       int
	ValCache     bool
	WConfig      bool
	ExistCache   bool // W-config only: the local store behind an existence_caching decorator
	Demux        bool // W-config only: behind a demultiplexer that maps every name N to tenant1/N
	MinEpoch     time.Duration
	RetryIvl     time.Duration
}

func (c *storeCfg) BlockSize() int { return c.SectorSize * c.BlockSectors }
func (c *storeCfg) BlockCount() int { return c.Old + c.Cur + c.New + c.Spare }

func (c *storeCfg) String() string {
	return fmt.Sprintf("disk=%v persistent=%v sector=%d blockSectors=%d O/C/N/S=%d/%d/%d/%d mutable=%v hier=%v ac=%v keyfmt=%v indexDev=%v slots=%d get/put=%d/%d valcache=%v wconfig=%v minEpoch=%v",
		c.Disk, c.Persistent, c.SectorSize, c.BlockSectors, c.Old, c.Cur, c.New, c.Spare, c.Mutable, c.Hier, c.AC, c.KeyFormat, c.IndexDev, c.IndexSlots, c.GetAtt, c.PutAtt, c.ValCache, c.WConfig, c.MinEpoch)
}

// drawStoreCfg draws a store geometry. generousIndex sizes the index so that
// discards are unlikely (C03/C05/C10 converse).
func drawStoreCfg(t *sim.Tape, persistent, generousIndex bool) *storeCfg {
	c := &storeCfg{Persistent: persistent}
	c.Disk = persistent || t.Chance(2, 3)
	if c.Disk {
		c.SectorSize = []int{8, 1, 16, 32, 64, 4}[t.Choose(6)]
		c.BlockSectors = 1 + t.Choose(8)
	} else {
		c.SectorSize = 1
		c.BlockSectors = []int{16, 8, 32, 64, 100}[t.Choose(5)]
	}
	c.Old = t.Choose(4)
	c.Cur = t.Choose(4)
	c.New = 1 + t.Choose(3)
	c.Spare = t.Choose(4)
	c.Mutable = false
	c.KeyFormat = digest.KeyWithoutInstance
	c.IndexDev = c.Disk && (persistent || t.Chance(1, 2))
	if generousIndex {
		c.IndexSlots = []int{61, 127, 251}[t.Choose(3)]
		c.GetAtt = uint32(8 + t.Choose(9))
		c.PutAtt = 32 + t.Choose(33)
	} else {
		c.IndexSlots = []int{31, 3, 5, 7, 13, 61}[t.Choose(6)]
		c.GetAtt = uint32(1 + t.Choose(8))
		c.PutAtt = 1 + t.Choose(16)
	}
	c.MinEpoch = []time.Duration{5 * time.Second, time.Second, 60 * time.Second, 300 * time.Second, 1500 * time.Millisecond, 900 * time.Millisecond}[t.Choose(6)]
	c.RetryIvl = 10 * time.Second
	return c
}

// ---- deterministic replacement of the global random generator ----

type detGenerator struct{ *mrand.Rand }

func (detGenerator) IsThreadSafe()          {}
func (g detGenerator) Int64N(n int64) int64 { return g.Rand.Int63n(n) }
func (g detGenerator) IntN(n int) int       { return g.Rand.Intn(n) }

func installDetRandom(seed int64) func() {
	old := random.CryptoThreadSafeGenerator
	random.CryptoThreadSafeGenerator = detGenerator{mrand.New(mrand.NewSource(seed))}
	return func() { random.CryptoThreadSafeGenerator = old }
}

// ---- recording error logger ----

type recLogger struct {
	Msgs []string
}

func (l *recLogger) Log(err error) { l.Msgs = append(l.Msgs, err.Error()) }

func (l *recLogger) tail(n int) []string {
	if len(l.Msgs) <= n {
		return l.Msgs
	}
	return l.Msgs[len(l.Msgs)-n:]
}

func (l *recLogger) integrity() int {
	n := 0
	for _, m := range l.Msgs {
		if strings.Contains(m, "data integrity error") {
			n++
		}
	}
	return n
}

// ---- recording allocator / block (W-parts) ----

type blockRec struct {
	ID       int // allocation ordinal (incarnation)
	Loc      *pb_local.BlockLocation
	Restored bool
	Released bool
	Gets     int
	Puts     int
	ActiveW  int // writers (Put callbacks) in progress
}

type recAlloc struct {
	base      local.BlockAllocator
	env       *storeEnv
	Allocs    int // NewBlock successes
	Restored  int // NewBlockAtLocation successes
	AllocFail int
	Releases  int
	Blocks    []*blockRec
	AllocSeqs []int // seq of every NewBlock
	FailNext  int
	// OnNewBlock is called (baton held) when a region is handed out.
	OnNewBlock func(b *blockRec)
}

type recBlock struct {
	base local.Block
	rec  *blockRec
	a    *recAlloc
}

func (a *recAlloc) NewBlock() (local.Block, *pb_local.BlockLocation, error) {
	if a.FailNext > 0 {
		a.FailNext--
		a.AllocFail++
		return nil, nil, errNoBlocks
	}
	b, loc, err := a.base.NewBlock()
	if err != nil {
		a.AllocFail++
		return nil, nil, err
	}
	a.Allocs++
	a.AllocSeqs = append(a.AllocSeqs, a.env.s.Steps)
	a.env.c.Logf("alloc: NewBlock #%d loc=%v", len(a.Blocks), loc)
	rec := &blockRec{ID: len(a.Blocks), Loc: loc}
	a.Blocks = append(a.Blocks, rec)
	if a.OnNewBlock != nil {
		a.OnNewBlock(rec)
	}
	return &recBlock{base: b, rec: rec, a: a}, loc, nil
}

var errNoBlocks = InjectedErrorNoBlocks()

func InjectedErrorNoBlocks() error {
	return statusUnavailable("No unused blocks available (injected)")
}

func (a *recAlloc) NewBlockAtLocation(location *pb_local.BlockLocation, writeOffsetBytes int64) (local.Block, bool) {
	b, ok := a.base.NewBlockAtLocation(location, writeOffsetBytes)
	if !ok {
		return nil, false
	}
	a.Restored++
	rec := &blockRec{ID: len(a.Blocks), Loc: location, Restored: true}
	a.Blocks = append(a.Blocks, rec)
	return &recBlock{base: b, rec: rec, a: a}, true
}

func (b *recBlock) Get(d digest.Digest, offsetBytes, sizeBytes int64, cb buffer.DataIntegrityCallback) buffer.Buffer {
	b.rec.Gets++
	b.a.env.c.Logf("block #%d Get off=%d size=%d", b.rec.ID, offsetBytes, sizeBytes)
	b.a.env.lastGetBlock = b.rec
	b.a.env.lastGetOff = offsetBytes
	// (keyed by goroutine: the read buffer factory may yield before it
	// creates the reader)
	b.a.env.pendingGet[b.a.env.s.Cur().ID] = pendingGet{b.rec, offsetBytes}
	e := b.a.env
	e.blockGets = append(e.blockGets, blockGet{b.rec, e.s.Cur().ID, e.s.Steps})
	return b.base.Get(d, offsetBytes, sizeBytes, func(valid bool) {
		// A detection takes effect when the store's callback has returned:
		// with atomics as scheduling points (S5) other operations may run
		// between its invocation and the update of the to-be-released counter,
		// and those overlap the detection.
		cb(valid)
		if !valid {
			e.detections = append(e.detections, detection{b.rec, e.s.Steps, e.s.Cur().ID})
			e.c.Logf("integrity callback: block #%d invalid", b.rec.ID)
		}
	})
}

func (b *recBlock) HasSpace(sizeBytes int64) bool { return b.base.HasSpace(sizeBytes) }

func (b *recBlock) Put(sizeBytes int64) local.BlockPutWriter {
	b.rec.Puts++
	b.a.env.c.Logf("block #%d Put size=%d", b.rec.ID, sizeBytes)
	b.a.env.lastPutBlock = b.rec
	w := b.base.Put(sizeBytes)
	return func(buf buffer.Buffer) local.BlockPutFinalizer {
		b.rec.ActiveW++
		f := w(buf)
		b.rec.ActiveW--
		return func() (int64, error) {
			e := b.a.env
			g := e.s.Cur().ID
			e.finalizeSeq[g] = e.s.Steps
			e.finalizeTime[g] = e.s.Now()
			e.lastFinalizeSeq = e.s.Steps
			off, err := f()
			pr := &putRec{Block: b.rec, Off: off, Size: sizeBytes, G: g, Seq: e.s.Steps, OK: err == nil}
			if err == nil && e.data != nil && b.rec.Loc != nil {
				if o := b.rec.Loc.OffsetBytes + off; o >= 0 && o+sizeBytes <= int64(len(e.data.Visible())) {
					pr.Data = append([]byte{}, e.data.Visible()[o:o+sizeBytes]...)
				}
			}
			e.putRecs = append(e.putRecs, pr)
			return off, err
		}
	}
}

func (b *recBlock) Release() {
	b.rec.Released = true
	b.a.Releases++
	b.a.env.c.Logf("alloc: Release block #%d", b.rec.ID)
	b.base.Release()
}

// ---- counting read buffer factory ----

type countingRBF struct {
	base   blobstore.ReadBufferFactory
	env    *storeEnv
	Opened int
	Closed int
	Double int
	Open   []*countingReaderAt // readers currently open
}

type countingReaderAt struct {
	buffer.ReadAtCloser
	f      *countingRBF
	closed bool
	Block  *blockRec
	DevOff int64 // range on the data device
	Size   int64
	Snap   []byte // content of the range when the reader was opened
	OpenedAt int
}

func (r *countingReaderAt) Close() error {
	if r.closed {
		r.f.Double++
	} else {
		r.closed = true
		r.f.Closed++
		for i, o := range r.f.Open {
			if o == r {
				r.f.Open = append(r.f.Open[:i], r.f.Open[i+1:]...)
				break
			}
		}
	}
	return r.ReadAtCloser.Close()
}

func (f *countingRBF) NewBufferFromByteSlice(d digest.Digest, data []byte, cb buffer.DataIntegrityCallback) buffer.Buffer {
	return f.base.NewBufferFromByteSlice(d, data, cb)
}

func (f *countingRBF) NewBufferFromReader(d digest.Digest, r io.ReadCloser, cb buffer.DataIntegrityCallback) buffer.Buffer {
	return f.base.NewBufferFromReader(d, r, cb)
}

func (f *countingRBF) NewBufferFromReaderAt(d digest.Digest, r buffer.ReadAtCloser, sizeBytes int64, cb buffer.DataIntegrityCallback) buffer.Buffer {
	f.Opened++
	cr := &countingReaderAt{ReadAtCloser: r, f: f}
	if e := f.env; e != nil && e.data != nil && e.pendingGet[e.s.Cur().ID].block != nil && e.pendingGet[e.s.Cur().ID].block.Loc != nil {
		// NewBufferFromReaderAt is called from inside Block.Get(), which the
		// recording block has just observed in this goroutine
		pg := e.pendingGet[e.s.Cur().ID]
		cr.Block = pg.block
		cr.DevOff = pg.block.Loc.OffsetBytes + pg.off
		cr.Size = sizeBytes
		if cr.DevOff+sizeBytes > int64(len(e.data.Visible())) {
			panic(sim.HarnessError{Msg: fmt.Sprintf("reader range out of device: block #%d loc=%v off=%d size=%d device=%d", pg.block.ID, pg.block.Loc, pg.off, sizeBytes, len(e.data.Visible()))})
		}
		cr.Snap = append([]byte{}, e.data.Visible()[cr.DevOff:cr.DevOff+sizeBytes]...)
		cr.OpenedAt = e.s.Steps
	}
	f.Open = append(f.Open, cr)
	return f.base.NewBufferFromReaderAt(d, cr, sizeBytes, cb)
}

// ---- program.Group owned by the harness ----

type simGroup struct {
	s        *rt.Sched
	proc     int
	ctx      context.Context
	cancel   context.CancelFunc
	active   int
	onReturn func()
	firstG   int // goroutine id of the first routine started through the group
}

func newSimGroup(s *rt.Sched, proc int) *simGroup {
	ctx, cancel := context.WithCancel(context.Background())
	return &simGroup{s: s, proc: proc, ctx: ctx, cancel: cancel}
}

func (g *simGroup) Go(routine program.Routine) {
	g.active++
	g.s.GoProc("routine", g.proc, true, func() {
		defer func() { g.active-- }()
		if g.firstG == 0 {
			g.firstG = g.s.Cur().ID
		}
		routine(g.ctx, g, g)
		if g.onReturn != nil {
			g.onReturn()
		}
	})
}

// ---- the assembled store ("process") ----

type storeEnv struct {
	c     *sim.RunCtx
	s     *rt.Sched
	cfg   *storeCfg
	proc  int
	ba    blobstore.BlobAccess
	clock *sim.Clock
	log   *recLogger

	data  *sim.Disk
	index *sim.Disk
	dir   *sim.Dir

	alloc *recAlloc   // W-parts only
	rbf   *countingRBF // W-parts, disk only
	lbm   *local.OldCurrentNewLocationBlobMap
	pbl   *local.PersistentBlockList
	lock  *rtRWMutex
	group *simGroup

	lastGetBlock, lastPutBlock *blockRec
	lastGetOff                 int64

	// persistence observation (W-parts)
	syncStarts, syncDone   int
	stateWrites, stateDone int
	restoredBlocks         int
	restore                func()
	rounds                 []*syncRound
	swrites                []*stateWrite
	finalizeSeq            map[int]int           // goroutine id -> seq of its last block put finalizer
	finalizeTime           map[int]time.Duration // goroutine id -> sim time of its last block put finalizer
	lastFinalizeSeq        int
	pendingGet             map[int]pendingGet
	putRecs                []*putRec
	detections             []detection
	blockGets              []blockGet
	activeStateWrites      int
	shutdownSeq            int                   // seq at which shutdown was requested (0 = not)
	shutdownT              time.Duration
	routineG               int                   // goroutine id of the ProcessBlockPut routine
	wconfig                bool                  // assembled by NewBlobAccessFromConfiguration
	metricsBase            metricSnapshot
	allocCounter           prometheus.Counter
	releaseCounter         prometheus.Counter
	allocBase, releaseBase float64
	routineReturned        bool
}

// putRec is one completed block-level write (upload or refresh copy).
type putRec struct {
	Block  *blockRec
	Off    int64
	Size   int64
	G      int
	Seq    int // seq of the finalizer
	OK     bool
	Data   []byte // device content of the range when the finalizer returned (disk only): what was written
}

// detection is one negative data-integrity callback.
type detection struct {
	Block *blockRec
	Seq   int
	G     int // the goroutine whose read made the detection
}

type pendingGet struct {
	block *blockRec
	off   int64
}

// blockGet records a Block.Get call.
type blockGet struct {
	Block *blockRec
	G     int
	Seq   int
}

// syncRound is one NotifySyncStarting … NotifySyncCompleted bracket.
type syncRound struct {
	Final              bool
	StartSeq, DoneSeq  int
	StartT, DoneT      time.Duration
	DataSyncCalls      int
	DataSyncFailures   int
}

// stateWrite is one GetPersistentState … NotifyPersistentStateWritten bracket.
type stateWrite struct {
	GetSeq, DoneSeq int
	GetT, DoneT     time.Duration
	Blocks          int
	Epochs          int
	OK              bool
}

// recSource observes the protocol between PeriodicSyncer and the block list.
type recSource struct {
	base local.PersistentStateSource
	e    *storeEnv
}

func (r *recSource) GetBlockReleaseWakeup() <-chan struct{} { return r.base.GetBlockReleaseWakeup() }
func (r *recSource) GetBlockPutWakeup() <-chan struct{}     { return r.base.GetBlockPutWakeup() }
func (r *recSource) NotifySyncStarting(isFinalSync bool) {
	r.e.rounds = append(r.e.rounds, &syncRound{Final: isFinalSync, StartSeq: r.e.s.Steps, StartT: r.e.s.Now()})
	r.e.c.Logf("syncer: NotifySyncStarting(final=%v) t=%v", isFinalSync, r.e.s.Now())
	r.base.NotifySyncStarting(isFinalSync)
}
func (r *recSource) NotifySyncCompleted() {
	if n := len(r.e.rounds); n > 0 {
		r.e.rounds[n-1].DoneSeq = r.e.s.Steps
		r.e.rounds[n-1].DoneT = r.e.s.Now()
	}
	r.e.c.Logf("syncer: NotifySyncCompleted t=%v", r.e.s.Now())
	r.base.NotifySyncCompleted()
}
func (r *recSource) GetPersistentState() (uint32, []*pb_local.BlockState) {
	id, blocks := r.base.GetPersistentState()
	ep := 0
	for _, b := range blocks {
		ep += len(b.EpochHashSeeds)
	}
	r.e.swrites = append(r.e.swrites, &stateWrite{GetSeq: r.e.s.Steps, GetT: r.e.s.Now(), Blocks: len(blocks), Epochs: ep})
	r.e.c.Logf("syncer: GetPersistentState blocks=%d epochs=%d t=%v", len(blocks), ep, r.e.s.Now())
	return id, blocks
}
func (r *recSource) NotifyPersistentStateWritten() {
	if n := len(r.e.swrites); n > 0 {
		r.e.swrites[n-1].DoneSeq = r.e.s.Steps
		r.e.swrites[n-1].DoneT = r.e.s.Now()
		r.e.swrites[n-1].OK = true
	}
	r.e.c.Logf("syncer: NotifyPersistentStateWritten t=%v", r.e.s.Now())
	r.base.NotifyPersistentStateWritten()
}

type rtRWMutex = rt.RWMutex

// media of a machine, surviving process restarts
type media struct {
	data  *sim.Disk
	index *sim.Disk
	dir   *sim.Dir
}

func newMedia(cfg *storeCfg) *media {
	m := &media{}
	if cfg.Disk {
		sectors := cfg.BlockSectors * cfg.BlockCount()
		if cfg.WConfig && cfg.BlockCount() > 1 {
			// a device whose sector count is not a multiple of the number of
			// blocks: the configuration code has to round the block size down
			sectors += cfg.BlockCount() - 1
		}
		m.data = sim.NewDisk("data", cfg.SectorSize, int64(sectors))
	}
	if cfg.IndexDev {
		// index device: records of 66 bytes; sector size of the index device
		// follows the data device's
		slots := cfg.IndexSlots
		if cfg.WConfig {
			// room for one record more than the (prime) number of slots: the
			// configuration code has to round the table size down to a prime
			slots++
		}
		bytes := slots * local.BlockDeviceBackedLocationRecordSize
		secs := (bytes + cfg.SectorSize - 1) / cfg.SectorSize
		m.index = sim.NewDisk("index", cfg.SectorSize, int64(secs))
	}
	if cfg.Persistent {
		m.dir = sim.NewDir("state")
	}
	return m
}

type dummyCapabilities struct{}

func (dummyCapabilities) GetCapabilities(ctx context.Context, instanceName digest.InstanceName) (*remoteexecution.ServerCapabilities, error) {
	return &remoteexecution.ServerCapabilities{}, nil
}

// buildStoreParts assembles a local store from the exported constructors in
// the order new_blob_access.go uses (W-parts), with recording decorators.
func buildStoreParts(c *sim.RunCtx, s *rt.Sched, cfg *storeCfg, m *media, proc int, seed int64) *storeEnv {
	e := &storeEnv{c: c, s: s, cfg: cfg, proc: proc, data: m.data, index: m.index, dir: m.dir,
		finalizeSeq: map[int]int{}, finalizeTime: map[int]time.Duration{}, pendingGet: map[int]pendingGet{}}
	e.restore = installDetRandom(seed)
	e.clock = sim.NewClock(s)
	e.log = &recLogger{}
	e.lock = &rt.RWMutex{}

	var rbf blobstore.ReadBufferFactory = blobstore.CASReadBufferFactory
	if cfg.AC {
		rbf = blobstore.ACReadBufferFactory
	}
	var base local.BlockAllocator
	if cfg.Disk {
		var f blobstore.ReadBufferFactory = rbf
		if cfg.ValCache {
			f = blobstore.NewValidationCachingReadBufferFactory(f,
				digest.NewExistenceCache(e.clock, cfg.KeyFormat, 4, 1000*time.Second, eviction.NewLRUSet[string]()))
		}
		// the counting factory sits outermost, so that readers of buffers
		// served from the validation cache are observed as well
		e.rbf = &countingRBF{base: f, env: e}
		base = local.NewBlockDeviceBackedBlockAllocator(m.data, e.rbf, cfg.SectorSize, int64(cfg.BlockSectors), cfg.BlockCount(), "sim")
	} else {
		base = local.NewInMemoryBlockAllocator(cfg.BlockSize())
	}
	e.alloc = &recAlloc{base: base, env: e}

	var blockList local.BlockList
	var hashInit uint64
	initialBlocks := 0
	if !cfg.Persistent {
		blockList = local.NewVolatileBlockList(e.alloc)
		hashInit = random.CryptoThreadSafeGenerator.Uint64()
	} else {
		store := local.NewDirectoryBackedPersistentStateStore(m.dir)
		ps, err := store.ReadPersistentState()
		if err != nil {
			panic(storeSetupError{err})
		}
		hashInit = ps.KeyLocationMapHashInitialization
		e.pbl, initialBlocks = local.NewPersistentBlockList(e.alloc, ps.OldestEpochId, ps.Blocks)
		e.restoredBlocks = initialBlocks
		blockList = e.pbl
		syncer := local.NewPeriodicSyncer(&recSource{base: e.pbl, e: e}, e.lock, &recStateStore{base: store, e: e}, e.clock, e.log, cfg.RetryIvl, cfg.MinEpoch, hashInit,
			func() error {
				e.syncStarts++
				if n := len(e.rounds); n > 0 {
					e.rounds[n-1].DataSyncCalls++
				}
				err := m.data.Sync()
				if err == nil {
					e.syncDone++
				} else if n := len(e.rounds); n > 0 {
					e.rounds[n-1].DataSyncFailures++
				}
				return err
			})
		e.group = newSimGroup(s, proc)
		s.GoProc("release-syncer", proc, true, func() {
			for {
				syncer.ProcessBlockRelease()
			}
		})
		e.group.Go(func(ctx context.Context, siblingsGroup, dependenciesGroup program.Group) error {
			e.routineG = s.Cur().ID
			for syncer.ProcessBlockPut(ctx) {
			}
			e.routineReturned = true
			return nil
		})
	}
	var gp local.BlockListGrowthPolicy
	if cfg.Mutable {
		gp = local.NewMutableBlockListGrowthPolicy(cfg.Cur)
	} else {
		gp = local.NewImmutableBlockListGrowthPolicy(cfg.Cur, cfg.New)
	}
	e.lbm = local.NewOldCurrentNewLocationBlobMap(blockList, gp, e.log, "sim", int64(cfg.BlockSize()), cfg.Old, cfg.New, initialBlocks)
	var lra local.LocationRecordArray
	if cfg.IndexDev {
		lra = local.NewBlockDeviceBackedLocationRecordArray(m.index, e.lbm)
	} else {
		lra = local.NewInMemoryLocationRecordArray(cfg.IndexSlots, e.lbm)
	}
	klm := local.NewHashingKeyLocationMap(lra, cfg.IndexSlots, hashInit, cfg.GetAtt, cfg.PutAtt, "sim")
	if cfg.Hier {
		e.ba = local.NewHierarchicalCASBlobAccess(klm, e.lbm, e.lock, dummyCapabilities{})
	} else {
		e.ba = local.NewFlatBlobAccess(klm, e.lbm, cfg.KeyFormat, e.lock, "sim", dummyCapabilities{})
	}
	return e
}

type storeSetupError struct{ err error }

// recStateStore observes state writes.
type recStateStore struct {
	base local.PersistentStateStore
	e    *storeEnv
}

func (r *recStateStore) ReadPersistentState() (*pb_local.PersistentState, error) {
	return r.base.ReadPersistentState()
}

func (r *recStateStore) WritePersistentState(ps *pb_local.PersistentState) error {
	r.e.stateWrites++
	r.e.activeStateWrites++
	if r.e.activeStateWrites > 1 {
		r.e.c.Fail("overlapping-state-writes", "two WritePersistentState calls overlap")
	}
	err := r.base.WritePersistentState(ps)
	r.e.activeStateWrites--
	if err == nil {
		r.e.stateDone++
	}
	return err
}

func (e *storeEnv) close() {
	if e.restore != nil {
		e.restore()
		e.restore = nil
	}
}

var _ clock.Clock = (*sim.Clock)(nil)
var _ util.ErrorLogger = (*recLogger)(nil)
