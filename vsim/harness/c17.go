package harness

import (
	"encoding/binary"
	"github.com/buildbarn/bb-storage/pkg/blobstore/sharding"
	"io"
	remoteexecution "github.com/bazelbuild/remote-apis/build/bazel/remote/execution/v2"
	"bytes"
	"context"
	"fmt"
	"sort"
	"strings"
	"time"

	"github.com/buildbarn/bb-storage/pkg/blobstore"
	"github.com/buildbarn/bb-storage/pkg/blobstore/buffer"
	"github.com/buildbarn/bb-storage/pkg/blobstore/readcaching"
	"github.com/buildbarn/bb-storage/pkg/blobstore/configuration"
	"github.com/buildbarn/bb-storage/pkg/blobstore/readfallback"
	pb_blobstore "github.com/buildbarn/bb-storage/pkg/proto/configuration/blobstore"
	pb_digest "github.com/buildbarn/bb-storage/pkg/proto/configuration/digest"
	pb_eviction "github.com/buildbarn/bb-storage/pkg/proto/configuration/eviction"
	"google.golang.org/protobuf/types/known/durationpb"
	"github.com/buildbarn/bb-storage/pkg/blobstore/replication"
	"github.com/buildbarn/bb-storage/pkg/blobstore/slicing"
	"github.com/buildbarn/bb-storage/pkg/clock"
	"github.com/buildbarn/bb-storage/pkg/digest"
	"github.com/buildbarn/bb-storage/pkg/eviction"
	"vsim/sim"

	"golang.org/x/sync/semaphore"
	"google.golang.org/grpc/codes"
	"google.golang.org/grpc/status"
	rt "verifsimrt"
)

// ---- C17: read caching, fallback, replicator decorators, existence caches ----

// (a) read-caching / read-fallback composites over model stores
func c17Composite(fallback bool) func(c *sim.RunCtx) {
	return func(c *sim.RunCtx) {
		t := c.T.Plan
		objs := drawSimpleObjs(t, 2+t.Choose(5), "")
		// a third of the runs: composite and replicator assembled by
		// NewBlobAccessFromConfiguration over the model leaves
		wcfg := t.Chance(1, 3)
		if wcfg {
			for i := range objs {
				if len(objs[i].Data) == 0 {
					objs[i].Data = []byte{0xE0, byte(i)}
					objs[i].D = RefDigest("", remoteexecution.DigestFunction_SHA256, objs[i].Data)
				}
			}
		}
		strategy := t.Choose(nReplStrategies)
		faultRate := []int{0, 0, 80}[t.Choose(3)]
		clients := 1 + t.Choose(4)
		nops := 3 + t.Choose(10)
		var plans [][][2]int
		for ci := 0; ci < clients; ci++ {
			var ops [][2]int
			for i := 0; i < nops; i++ {
				ops = append(ops, [2]int{t.Pick(2, 5, 3), t.Choose(len(objs))})
			}
			plans = append(plans, ops)
		}
		placement := make([]int, len(objs)) // bit0: front (fast/primary), bit1: back (slow/secondary)
		for i := range placement {
			placement[i] = t.Choose(4)
		}
		kind := "read_caching"
		if fallback {
			kind = "read_fallback"
		}
		desc := fmt.Sprintf("%s strategy=%s placement=%v faultRate=%d clients=%d configured=%v", kind, replStrategyNames[strategy], placement, faultRate, clients, wcfg)
		c.Sample["case"] = desc
		c.Note("case %s plans=%v", desc, plans)
		copying := strategy != rsNoop
		injected := 0
		c.Sim(sim.SimOpts{MaxSteps: 200000, DeadlockClass: "deadlock"}, func(s *rt.Sched) {
			front := newModelStore(c, "front", digest.KeyWithoutInstance) // fast resp. primary
			back := newModelStore(c, "back", digest.KeyWithoutInstance)   // slow resp. secondary
			for i, p := range placement {
				if p&1 != 0 {
					front.Objs[front.key(objs[i].D)] = objs[i].Data
				}
				if p&2 != 0 {
					back.Objs[back.key(objs[i].D)] = objs[i].Data
				}
			}
			ft := c.T.Fault
			fault := func(op string, ds []digest.Digest) error {
				if faultRate > 0 && ft.Chance(faultRate, 1000) {
					injected++
					return status.Errorf(injectableCodes[ft.Choose(len(injectableCodes))], "injected failure of %s", op)
				}
				return nil
			}
			front.Fault, back.Fault = fault, fault
			// a Put that fails only after the last byte was consumed (commit failure)
			commitFault := func(d digest.Digest) error {
				if faultRate > 0 && ft.Chance(faultRate, 1000) {
					injected++
					return status.Error(codes.Unavailable, "injected commit failure of Put")
				}
				return nil
			}
			front.CommitFault, back.CommitFault = commitFault, commitFault
			clk := sim.NewClock(s)
			var ba blobstore.BlobAccess
			var writeTarget, other *modelStore
			leaves := map[string]configuration.BlobAccessInfo{"front": {BlobAccess: front, DigestKeyFormat: digest.KeyWithoutInstance}, "back": {BlobAccess: back, DigestKeyFormat: digest.KeyWithoutInstance}}
			if fallback {
				// reads: primary then secondary, copying secondary -> primary; writes: primary
				if wcfg {
					var restore func()
					ba, _, restore = buildComposite(c, s, clk, &pb_blobstore.BlobAccessConfiguration{Backend: &pb_blobstore.BlobAccessConfiguration_ReadFallback{ReadFallback: &pb_blobstore.ReadFallbackBlobAccessConfiguration{
						Primary: leafConfig("front"), Secondary: leafConfig("back"), Replicator: replicatorConfig(strategy, 2)}}}, leaves)
					defer restore()
				} else {
					ba = readfallback.NewReadFallbackBlobAccess(front, back, newReplicator(strategy, back, front, clk, 2))
				}
				writeTarget, other = front, back
			} else {
				// reads: fast then slow, copying slow -> fast; writes: slow
				if wcfg {
					var restore func()
					ba, _, restore = buildComposite(c, s, clk, &pb_blobstore.BlobAccessConfiguration{Backend: &pb_blobstore.BlobAccessConfiguration_ReadCaching{ReadCaching: &pb_blobstore.ReadCachingBlobAccessConfiguration{
						Slow: leafConfig("back"), Fast: leafConfig("front"), Replicator: replicatorConfig(strategy, 2)}}}, leaves)
					defer restore()
				} else {
					ba = readcaching.NewReadCachingBlobAccess(back, front, newReplicator(strategy, back, front, clk, 2))
				}
				writeTarget, other = back, front
			}
			ctx := context.Background()
			done := 0
			active := 0
			for ci := range plans {
				ops := plans[ci]
				s.Go(fmt.Sprintf("client%d", ci), func() {
					defer func() { done++ }()
					for oi, o := range ops {
						if c.Failed() {
							return
						}
						ob := objs[o[1]]
						inj0 := injected
						active++
						alone := active == 1 && clients == 1
						switch o[0] {
						case 0: // Put
							otherPuts := len(other.callsOf("Put", other.key(ob.D)))
							err := ba.Put(ctx, ob.D, buffer.NewCASBufferFromByteSlice(ob.D, ob.Data, buffer.UserProvided))
							if err == nil && !writeTarget.Has(ob.D) {
								c.Fail("put-not-stored", "Put(o%d) succeeded but the %s backend does not hold it [%s]", o[1], writeTarget.Name, desc)
							}
							if alone && len(other.callsOf("Put", other.key(ob.D))) != otherPuts {
								c.Fail("put-reached-wrong-backend", "Put(o%d) was also sent to the %s backend [%s]", o[1], other.Name, desc)
							}
							if err != nil && injected == inj0 {
								c.Fail("spurious-error", "Put(o%d) failed with %v without any backend failure [%s]", o[1], err, desc)
							}
							c.Count("probe_put", 1)
						case 1: // Get
							hadFront, hadBack := front.Has(ob.D), back.Has(ob.D)
							var data []byte
							var err error
							// a third of the reads are composite reads whose slicer hands
							// back the whole parent: the same statements apply to them
							get := func() buffer.Buffer {
								if (o[1]+2*oi)%3 == 0 {
									c.Count("probe_composite_read", 1)
									return ba.GetFromComposite(ctx, ob.D, ob.D, &c13IdentitySlicer{})
								}
								return ba.Get(ctx, ob.D)
							}
							if (o[1]+oi)%2 == 1 {
								// consumed the way ByteStream does: chunk by chunk to the end
								r := get().ToChunkReader(0, 1+o[1]%3)
								for {
									chunk, rerr := r.Read()
									if rerr == io.EOF {
										break
									}
									if rerr != nil {
										err = rerr
										break
									}
									data = append(data, chunk...)
								}
								r.Close()
							} else {
								data, err = get().ToByteSlice(1 << 20)
							}
							faulted := injected > inj0
							if err == nil {
								if !bytes.Equal(data, ob.Data) {
									c.Fail("wrong-bytes", "Get(o%d) returned %s [%s]", o[1], short(data), desc)
								} else if !front.Has(ob.D) && !back.Has(ob.D) {
									c.Fail("get-of-absent-object", "Get(o%d) succeeded although no backend holds it [%s]", o[1], desc)
								} else if copying && !front.Has(ob.D) {
									c.Fail("read-through-did-not-copy", "Get(o%d) succeeded through the %s backend with replicator %s, but the %s backend still lacks it [%s]", o[1], back.Name, replStrategyNames[strategy], front.Name, desc)
								}
								if !hadFront && hadBack {
									c.Count("probe_read_through", 1)
								}
							} else if status.Code(err) == codes.NotFound {
								if (hadFront || hadBack) && !faulted {
									c.Fail("present-object-not-found", "Get(o%d) returned NOT_FOUND although front=%v back=%v held it [%s]", o[1], hadFront, hadBack, desc)
								}
							} else if !faulted {
								c.Fail("spurious-error", "Get(o%d) failed with %v without any backend failure [%s]", o[1], err, desc)
							}
						case 2: // FindMissing
							hadFront, hadBack := front.Has(ob.D), back.Has(ob.D)
							missing, err := ba.FindMissing(ctx, ob.D.ToSingletonSet())
							faulted := injected > inj0
							if err != nil {
								if !faulted {
									c.Fail("spurious-error", "FindMissing(o%d) failed with %v without any backend failure [%s]", o[1], err, desc)
								}
							} else if fallback {
								if !missing.Empty() && (hadFront || hadBack) {
									c.Fail("present-reported-missing", "FindMissing reports o%d missing although primary=%v secondary=%v held it [%s]", o[1], hadFront, hadBack, desc)
								}
								if missing.Empty() && !front.Has(ob.D) && !back.Has(ob.D) {
									c.Fail("absent-reported-present", "FindMissing reports o%d present although no backend holds it [%s]", o[1], desc)
								}
								c.Count("probe_fallback_findmissing", 1)
							} else {
								// read caching: existence is decided by the slow backend alone
								if !missing.Empty() && hadBack {
									c.Fail("present-reported-missing", "FindMissing reports o%d missing although the slow backend held it [%s]", o[1], desc)
								}
								if missing.Empty() && !back.Has(ob.D) {
									c.Fail("absent-reported-present", "FindMissing reports o%d present although the slow backend lacks it [%s]", o[1], desc)
								}
							}
						}
						active--
					}
				})
			}
			s.WaitUntil("clients", func() bool { return done == len(plans) })
		})
		c.Count("kind_"+kind, 1)
		c.Nontrivial = injected > 0 || clients > 1
	}
}

// recordingReplicator observes the base replicator under a decorator.
type recordingReplicator struct {
	kf      digest.KeyFormat
	base     replication.BlobReplicator
	c        *sim.RunCtx
	inFlight int
	maxIn    int
	perKey   map[string]int
	overlap  string
	calls    int
}

func (r *recordingReplicator) enter(keys []string) {
	r.calls++
	r.inFlight++
	if r.inFlight > r.maxIn {
		r.maxIn = r.inFlight
	}
	for _, k := range keys {
		r.perKey[k]++
		if r.perKey[k] > 1 && r.overlap == "" {
			r.overlap = k
		}
	}
	rt.Yield("base-replicator.enter")
}

func (r *recordingReplicator) leave(keys []string) {
	rt.Yield("base-replicator.leave")
	r.inFlight--
	for _, k := range keys {
		r.perKey[k]--
	}
}

func (r *recordingReplicator) ReplicateSingle(ctx context.Context, d digest.Digest) buffer.Buffer {
	k := []string{d.GetKey(r.kf)}
	r.enter(k)
	defer r.leave(k)
	return r.base.ReplicateSingle(ctx, d)
}

func (r *recordingReplicator) ReplicateComposite(ctx context.Context, parentDigest, childDigest digest.Digest, slicer slicing.BlobSlicer) buffer.Buffer {
	k := []string{parentDigest.GetKey(r.kf)}
	r.enter(k)
	defer r.leave(k)
	return r.base.ReplicateComposite(ctx, parentDigest, childDigest, slicer)
}

func (r *recordingReplicator) ReplicateMultiple(ctx context.Context, digests digest.Set) error {
	var k []string
	for _, d := range digests.Items() {
		k = append(k, d.GetKey(r.kf))
	}
	r.enter(k)
	defer r.leave(k)
	return r.base.ReplicateMultiple(ctx, digests)
}

// (b) replicator decorators under concurrent callers
func c17Replicators(c *sim.RunCtx) {
	t := c.T.Plan
	objs := drawSimpleObjs(t, 2+t.Choose(4), "")
	// instance-aware sinks in a third of the runs, with twins: the same
	// content under another instance name is another object to such a sink
	kf := digest.KeyWithoutInstance
	if t.Chance(1, 3) {
		kf = digest.KeyWithInstance
		for i, n := 0, len(objs); i < n; i++ {
			if t.Chance(1, 2) {
				objs = append(objs, simpleObj{objs[i].Data, RefDigest("x", remoteexecution.DigestFunction_SHA256, objs[i].Data)})
			}
		}
	}
	// a third of the runs: the decorator stack is assembled by
	// NewBlobReplicatorFromConfiguration (sink key format taken from the sink's BlobAccessInfo)
	configured := t.Chance(1, 3)
	strategy := []int{rsDedup, rsLimiting, rsQueued}[t.Choose(3)]
	limit := int64(1 + t.Choose(3))
	callers := 2 + t.Choose(5)
	faultRate := []int{0, 60, 200}[t.Choose(3)]
	cancelRate := []int{0, 0, 150}[t.Choose(3)]
	type call struct {
		Single bool
		Set    []int
	}
	var plans [][]call
	for ci := 0; ci < callers; ci++ {
		var cs []call
		for i := 0; i < 1+t.Choose(4); i++ {
			cl := call{Single: t.Chance(1, 3)}
			k := 1 + t.Choose(3)
			if cl.Single {
				k = 1
			}
			seen := map[int]bool{}
			for j := 0; j < k; j++ {
				x := t.Choose(len(objs))
				if !seen[x] {
					seen[x] = true
					cl.Set = append(cl.Set, x)
				}
			}
			cs = append(cs, cl)
		}
		plans = append(plans, cs)
	}
	inSource := make([]bool, len(objs))
	for i := range inSource {
		inSource[i] = t.Chance(4, 5)
	}
	desc := fmt.Sprintf("replicator=%s limit=%d callers=%d faultRate=%d cancelRate=%d inSource=%v keyformat=%v configured=%v", replStrategyNames[strategy], limit, callers, faultRate, cancelRate, inSource, kf, configured)
	c.Sample["case"] = desc
	c.Note("case %s plans=%v", desc, plans)
	injected, cancelled := 0, 0
	c.Sim(sim.SimOpts{MaxSteps: 300000, DeadlockClass: "deadlock"}, func(s *rt.Sched) {
		source := newModelStore(c, "source", kf)
		sink := newModelStore(c, "sink", kf)
		for i, in := range inSource {
			if in {
				source.Objs[source.key(objs[i].D)] = objs[i].Data
			}
		}
		ft := c.T.Fault
		fault := func(op string, ds []digest.Digest) error {
			if faultRate > 0 && ft.Chance(faultRate, 1000) {
				injected++
				return status.Errorf(injectableCodes[ft.Choose(len(injectableCodes))], "injected failure of %s", op)
			}
			return nil
		}
		source.Fault, sink.Fault = fault, fault
		clk := sim.NewClock(s)
		rec := &recordingReplicator{base: replication.NewLocalBlobReplicator(source, sink), c: c, perKey: map[string]int{}, kf: kf}
		var r replication.BlobReplicator
		expectLimit := int(limit)
		switch strategy {
		case rsDedup:
			r = replication.NewDeduplicatingBlobReplicator(rec, sink, kf)
			expectLimit = 1 << 30
		case rsLimiting:
			r = replication.NewConcurrencyLimitingBlobReplicator(rec, sink, semaphore.NewWeighted(limit))
		case rsQueued:
			r = replication.NewQueuedBlobReplicator(source, rec, digest.NewExistenceCache(clk, kf, 1+t.Choose(3), time.Duration(1+t.Choose(10))*time.Second, eviction.NewLRUSet[string]()))
			expectLimit = 1
		}
		if configured {
			oldClock := clock.SystemClock
			clock.SystemClock = clk
			defer func() { clock.SystemClock = oldClock }()
			var err error
			r, err = configuration.NewBlobReplicatorFromConfiguration(newSimGroup(s, 0), replicatorConfig(strategy, limit), source,
				configuration.BlobAccessInfo{BlobAccess: sink, DigestKeyFormat: kf}, configuration.NewCASBlobReplicatorCreator(nil))
			if err != nil {
				panic(sim.HarnessError{Msg: "NewBlobReplicatorFromConfiguration: " + err.Error()})
			}
			c.Count("probe_replicator_from_configuration", 1)
		}
		done := 0
		for ci := range plans {
			calls := plans[ci]
			s.Go(fmt.Sprintf("caller%d", ci), func() {
				defer func() { done++ }()
				for _, cl := range calls {
					if c.Failed() {
						return
					}
					ctx, cancel := context.WithCancel(context.Background())
					wasCancelled := false
					if cancelRate > 0 && ft.Chance(cancelRate, 1000) {
						// cancel at some later point, from another goroutine
						delay := ft.Choose(12)
						s.Go("canceller", func() {
							for i := 0; i < delay; i++ {
								rt.Yield("cancel-delay")
							}
							wasCancelled = true
							cancelled++
							cancel()
						})
					}
					var err error
					if cl.Single {
						ob := objs[cl.Set[0]]
						var data []byte
						data, err = r.ReplicateSingle(ctx, ob.D).ToByteSlice(1 << 20)
						if err == nil && !bytes.Equal(data, ob.Data) {
							c.Fail("wrong-bytes", "ReplicateSingle(o%d) returned %s [%s]", cl.Set[0], short(data), desc)
						}
					} else {
						sb := digest.NewSetBuilder(len(cl.Set))
						for _, x := range cl.Set {
							sb.Add(objs[x].D)
						}
						err = r.ReplicateMultiple(ctx, sb.Build())
					}
					if err == nil {
						// success => every requested object is in the sink now
						for _, x := range cl.Set {
							if !sink.Has(objs[x].D) {
								c.Fail("success-without-copy", "%s reported success for o%d to a caller although the sink does not hold it [%s]", replStrategyNames[strategy], x, desc)
								return
							}
						}
						c.Count("probe_replication_ok", 1)
					} else if !wasCancelled && injected == 0 {
						// only absence from the source may fail a fault-free, uncancelled call
						missingInSource := false
						for _, x := range cl.Set {
							if !inSource[x] {
								missingInSource = true
							}
						}
						if !missingInSource {
							c.Fail("spurious-error", "%s failed with %v although every object is in the source and nothing failed or was cancelled [%s]", replStrategyNames[strategy], err, desc)
							return
						}
					}
					cancel()
				}
			})
		}
		s.WaitUntil("callers", func() bool { return done == len(plans) })
		if configured {
			// observed at the sink instead of at a recording base replicator
			if sink.PutOverlap != "" && strategy == rsDedup {
				c.Fail("concurrent-copies-of-same-object", "the deduplicating replicator ran two copies of %s into the sink concurrently [%s]", sink.PutOverlap, desc)
			}
			if sink.MaxInFlight["Put"] > expectLimit {
				c.Fail("too-many-concurrent-copies", "%s ran %d Puts into the sink concurrently, limit %d [%s]", replStrategyNames[strategy], sink.MaxInFlight["Put"], expectLimit, desc)
			}
		}
		if rec.overlap != "" && strategy == rsDedup {
			c.Fail("concurrent-copies-of-same-object", "the deduplicating replicator ran two base replications of %s concurrently [%s]", rec.overlap, desc)
		}
		if rec.maxIn > expectLimit {
			c.Fail("too-many-concurrent-copies", "%s ran %d base replications concurrently, limit %d [%s]", replStrategyNames[strategy], rec.maxIn, expectLimit, desc)
		}
		if rec.maxIn > 1 {
			c.Count("probe_concurrent_base_copies", 1)
		}
		c.Count("base_replications", rec.calls)
	})
	c.Count("fault_context_cancelled", cancelled)
	c.Count("strategy_"+replStrategyNames[strategy], 1)
	c.Nontrivial = true
}

// (c) existence cache in front of a backend that loses objects
func c17ExistenceCache(c *sim.RunCtx) {
	t := c.T.Plan
	objs := drawSimpleObjs(t, 2+t.Choose(5), "")
	size := 1 + t.Choose(4)
	// (half seconds: what is configured must be what is applied)
	dur := time.Duration(2+t.Choose(40)) * 500 * time.Millisecond
	clients := 1 + t.Choose(3)
	type eop struct {
		Kind int // 0 find 1 sleep 2 backend put 3 backend delete
		Set  []int
		D    time.Duration
	}
	var plans [][]eop
	for ci := 0; ci < clients; ci++ {
		var ops []eop
		for i := 0; i < 4+t.Choose(14); i++ {
			o := eop{Kind: t.Pick(5, 3, 2, 2)}
			k := 1 + t.Choose(3)
			seen := map[int]bool{}
			for j := 0; j < k; j++ {
				x := t.Choose(len(objs))
				if !seen[x] {
					seen[x] = true
					o.Set = append(o.Set, x)
				}
			}
			o.D = time.Duration(1+t.Choose(30)) * 500 * time.Millisecond
			ops = append(ops, o)
		}
		plans = append(plans, ops)
	}
	policy := t.Choose(2) // (the random-replacement set seeds itself from the OS: not replayable)
	// half of the runs: decorator and cache built by the configuration code
	// (cache size, duration and replacement policy from the message)
	configured := t.Chance(1, 2)
	desc := fmt.Sprintf("existence cache size=%d duration=%v policy=%d clients=%d configured=%v", size, dur, policy, clients, configured)
	c.Sample["case"] = desc
	c.Note("case %s plans=%v", desc, plans)
	c.Sim(sim.SimOpts{MaxSteps: 200000, DeadlockClass: "deadlock"}, func(s *rt.Sched) {
		backend := newModelStore(c, "backend", digest.KeyWithoutInstance)
		clk := sim.NewClock(s)
		var set eviction.Set[string]
		switch policy {
		case 0:
			set = eviction.NewLRUSet[string]()
		case 1:
			set = eviction.NewFIFOSet[string]()
		default:
			set = eviction.NewRRSet[string]()
		}
		var ba blobstore.BlobAccess
		if configured {
			pol := pb_eviction.CacheReplacementPolicy_LEAST_RECENTLY_USED
			if policy == 1 {
				pol = pb_eviction.CacheReplacementPolicy_FIRST_IN_FIRST_OUT
			}
			var restore func()
			ba, _, restore = buildCompositeBare(c, s, clk, labelled(&pb_blobstore.BlobAccessConfiguration{Backend: &pb_blobstore.BlobAccessConfiguration_ExistenceCaching{ExistenceCaching: &pb_blobstore.ExistenceCachingBlobAccessConfiguration{
				Backend:        labelConfig("backend"),
				ExistenceCache: &pb_digest.ExistenceCacheConfiguration{CacheSize: int64(size), CacheDuration: durationpb.New(dur), CacheReplacementPolicy: pol},
			}}}, "backend"), map[string]configuration.BlobAccessInfo{"backend": {BlobAccess: backend, DigestKeyFormat: digest.KeyWithoutInstance}})
			defer restore()
		} else {
			ba = blobstore.NewExistenceCachingBlobAccess(backend, digest.NewExistenceCache(clk, digest.KeyWithoutInstance, size, dur, set))
		}
		ctx := context.Background()
		done := 0
		for ci := range plans {
			ops := plans[ci]
			s.Go(fmt.Sprintf("client%d", ci), func() {
				defer func() { done++ }()
				for _, o := range ops {
					if c.Failed() {
						return
					}
					switch o.Kind {
					case 1:
						_, ch := clk.NewTimer(o.D)
						rt.Recv(ch)
					case 2:
						for _, x := range o.Set {
							backend.Objs[backend.key(objs[x].D)] = objs[x].Data
						}
					case 3:
						for _, x := range o.Set {
							delete(backend.Objs, backend.key(objs[x].D))
						}
						c.Count("fault_backend_evicts_object", 1)
					case 0:
						sb := digest.NewSetBuilder(len(o.Set))
						for _, x := range o.Set {
							sb.Add(objs[x].D)
						}
						tInvoke := s.Now()
						// what the backend holds at some point during the call is not
						// pinned down with concurrent clients; use the state at return
						missing, err := ba.FindMissing(ctx, sb.Build())
						tReturn := s.Now()
						if err != nil {
							c.Fail("spurious-error", "FindMissing failed: %v [%s]", err, desc)
							return
						}
						miss := map[string]bool{}
						for _, d := range missing.Items() {
							miss[backend.key(d)] = true
						}
						for _, x := range o.Set {
							k := backend.key(objs[x].D)
							if miss[k] {
								continue
							}
							// reported present: justified iff the backend itself reported
							// it present (a FindMissing that asked about k and did not list
							// it) in a call that completed no earlier than duration before
							// this decorated call was invoked
							justified := false
							fromCache := true
							for _, cl := range backend.Calls {
								if cl.Op != "FindMissing" || cl.End == 0 || cl.Injected || cl.Missing[k] {
									continue
								}
								asked := false
								for _, dk := range cl.Digests {
									if dk == k {
										asked = true
									}
								}
								if !asked {
									continue
								}
								if cl.EndT >= tInvoke-dur {
									justified = true
								}
								if cl.StartT >= tInvoke && cl.End <= s.Steps {
									fromCache = false
								}
							}
							if !justified {
								c.Fail("stale-existence-cache", "o%d reported present by a call invoked at clock %v although the backend did not report it present within the cache duration %v before [%s]", x, tInvoke, dur, desc)
								return
							}
							if fromCache && !backend.Has(objs[x].D) {
								c.Count("probe_hidden_by_cache_within_duration", 1)
							}
						}
						_ = tReturn
					}
				}
			})
		}
		s.WaitUntil("clients", func() bool { return done == len(plans) })
	})
	c.Nontrivial = true
}

// (d) an existence cache in front of a composite whose two sides key
// differently (an instance-agnostic primary and an instance-aware secondary
// behind read_fallback), all assembled by NewBlobAccessFromConfiguration: the
// cache must be keyed by the combined format, or presence seen under one
// instance name hides absence under another. The leaves only gain objects, so
// no cached answer can go stale and FindMissing must be exact.
func c17ExistenceCacheOverComposite(c *sim.RunCtx) { existenceCacheOverComposite(c, -1) }

// existenceCacheOverComposite: fixedKind >= 0 pins the composite (C11 uses
// the mirror).
func existenceCacheOverComposite(c *sim.RunCtx, fixedKind int) {
	t := c.T.Plan
	base := drawSimpleObjs(t, 2+t.Choose(3), "")
	insts := []string{"", "a", "x"}
	type eobj struct {
		Data []byte
		D    digest.Digest
	}
	var objs []eobj
	for i := range base {
		data := base[i].Data
		if len(data) == 0 {
			data = []byte{0xE1, byte(i)}
		}
		for _, in := range insts {
			objs = append(objs, eobj{data, RefDigest(in, remoteexecution.DigestFunction_SHA256, data)})
		}
	}
	type eop struct {
		Kind int // 0 find 1 put into primary 2 put into secondary
		Set  []int
	}
	var ops []eop
	for i, n := 0, 5+t.Choose(14); i < n; i++ {
		o := eop{Kind: t.Pick(6, 1, 2)}
		for j, k := 0, 1+t.Choose(3); j < k; j++ {
			o.Set = append(o.Set, t.Choose(len(objs)))
		}
		ops = append(ops, o)
	}
	swap := t.Chance(1, 2) // which side is instance-aware
	// the composite behind the cache: every one of them has to announce the
	// combination of its members' key formats
	kind := t.Choose(4)
	if fixedKind >= 0 {
		kind = fixedKind
	}
	kindName := []string{"read_fallback", "mirrored", "sharding", "read_caching"}[kind]
	// reference routing for the sharding composite: the repository's own
	// selector over the same (key, weight) pairs, index 0 = "p", 1 = "s"
	shardSel, err := sharding.NewRendezvousShardSelector([]sharding.Shard{{Key: "p", Weight: 1}, {Key: "s", Weight: 2}})
	if err != nil {
		panic(sim.HarnessError{Msg: "selector: " + err.Error()})
	}
	desc := fmt.Sprintf("existence cache over %s: objects=%d ops=%d instanceAwarePrimary=%v", kindName, len(objs), len(ops), swap)
	c.Sample["case"] = desc
	c.Note("case %s ops=%v", desc, ops)
	c.Sim(sim.SimOpts{MaxSteps: 100000, DeadlockClass: "deadlock"}, func(s *rt.Sched) {
		kfP, kfS := digest.KeyWithoutInstance, digest.KeyWithInstance
		if swap {
			kfP, kfS = kfS, kfP
		}
		P := newModelStore(c, "primary", kfP)
		S := newModelStore(c, "secondary", kfS)
		clk := sim.NewClock(s)
		// (the CAS creator builds the existence cache's backend itself, so the
		// leaves are declared as labels and referenced by {label: ...})
		var inner *pb_blobstore.BlobAccessConfiguration
		switch kind {
		case 0:
			inner = &pb_blobstore.BlobAccessConfiguration{Backend: &pb_blobstore.BlobAccessConfiguration_ReadFallback{ReadFallback: &pb_blobstore.ReadFallbackBlobAccessConfiguration{
				Primary: labelConfig("P"), Secondary: labelConfig("S"), Replicator: replicatorConfig(rsNoop, 1)}}}
		case 1:
			inner = &pb_blobstore.BlobAccessConfiguration{Backend: &pb_blobstore.BlobAccessConfiguration_Mirrored{Mirrored: &pb_blobstore.MirroredBlobAccessConfiguration{
				BackendA: labelConfig("P"), BackendB: labelConfig("S"), ReplicatorAToB: replicatorConfig(rsLocal, 1), ReplicatorBToA: replicatorConfig(rsLocal, 1)}}}
		case 2:
			inner = &pb_blobstore.BlobAccessConfiguration{Backend: &pb_blobstore.BlobAccessConfiguration_Sharding{Sharding: &pb_blobstore.ShardingBlobAccessConfiguration{
				Shards: map[string]*pb_blobstore.ShardingBlobAccessConfiguration_Shard{"p": {Backend: labelConfig("P"), Weight: 1}, "s": {Backend: labelConfig("S"), Weight: 2}}}}}
		default:
			inner = &pb_blobstore.BlobAccessConfiguration{Backend: &pb_blobstore.BlobAccessConfiguration_ReadCaching{ReadCaching: &pb_blobstore.ReadCachingBlobAccessConfiguration{
				Slow: labelConfig("S"), Fast: labelConfig("P"), Replicator: replicatorConfig(rsNoop, 1)}}}
		}
		ba, _, restore := buildComposite(c, s, clk, labelled(&pb_blobstore.BlobAccessConfiguration{Backend: &pb_blobstore.BlobAccessConfiguration_ExistenceCaching{ExistenceCaching: &pb_blobstore.ExistenceCachingBlobAccessConfiguration{
			Backend: inner,
			ExistenceCache: &pb_digest.ExistenceCacheConfiguration{CacheSize: 64, CacheDuration: durationpb.New(1000 * time.Second), CacheReplacementPolicy: pb_eviction.CacheReplacementPolicy_LEAST_RECENTLY_USED},
		}}}, "P", "S"), map[string]configuration.BlobAccessInfo{"P": {BlobAccess: P, DigestKeyFormat: kfP}, "S": {BlobAccess: S, DigestKeyFormat: kfS}})
		defer restore()
		ctx := context.Background()
		for _, o := range ops {
			if c.Failed() {
				return
			}
			switch o.Kind {
			case 1:
				for _, x := range o.Set {
					P.Objs[P.key(objs[x].D)] = objs[x].Data
				}
			case 2:
				for _, x := range o.Set {
					S.Objs[S.key(objs[x].D)] = objs[x].Data
				}
			default:
				sb := digest.NewSetBuilder(len(o.Set))
				for _, x := range o.Set {
					sb.Add(objs[x].D)
				}
				// what the backends held when the call was made (a mirror
				// copies during the call, and a copy into an instance-agnostic
				// replica makes every instance's variant present)
				heldNow := func(x int) bool {
					switch kind {
					case 2: // only the shard the hash is routed to counts
						hb := objs[x].D.GetHashBytes()
						if shardSel.GetShard(binary.BigEndian.Uint64(hb[:8])) == 0 {
							return P.Has(objs[x].D)
						}
						return S.Has(objs[x].D)
					case 3: // read caching asks the slow backend only
						return S.Has(objs[x].D)
					}
					return P.Has(objs[x].D) || S.Has(objs[x].D)
				}
				heldBefore := map[int]bool{}
				for _, x := range o.Set {
					heldBefore[x] = heldNow(x)
				}
				missing, err := ba.FindMissing(ctx, sb.Build())
				if err != nil {
					c.Fail("spurious-error", "FindMissing failed: %v [%s]", err, desc)
					return
				}
				miss := map[digest.Digest]bool{}
				for _, d := range missing.Items() {
					miss[d] = true
				}
				for _, x := range o.Set {
					held := heldNow(x)
					if miss[objs[x].D] && heldBefore[x] {
						c.Fail("present-reported-missing", "FindMissing reports %s missing although a backend holds it [%s]", objs[x].D, desc)
						return
					}
					if kind == 1 && !miss[objs[x].D] && held && !(P.Has(objs[x].D) && S.Has(objs[x].D)) {
						c.Fail("findmissing-did-not-synchronise", "FindMissing through the cached mirror reports %s present, but afterwards the replicas hold it: A=%v B=%v [%s]", objs[x].D, P.Has(objs[x].D), S.Has(objs[x].D), desc)
						return
					}
					if !miss[objs[x].D] && !held {
						c.Fail("stale-existence-cache", "FindMissing reports %s present although neither backend holds it under this key (the backends only gained objects, so no backend ever reported it present) [%s]", objs[x].D, desc)
						return
					}
				}
				c.Count("probe_existence_cache_over_composite_findmissing", 1)
			}
		}
	})
	c.Nontrivial = true
}

var _ = sort.Strings
var _ = strings.Contains

func init() {
	sim.Register(&sim.Check{
		Prop:  "C17",
		Level: "exploration",
		Profiles: []sim.Profile{
			{Name: "read-caching", Weight: 3, Fn: c17Composite(false)},
			{Name: "read-fallback", Weight: 3, Fn: c17Composite(true)},
			{Name: "replicator-decorators", Weight: 4, Fn: c17Replicators},
			{Name: "existence-cache", Weight: 3, Fn: c17ExistenceCache},
			{Name: "existence-cache-over-composite", Weight: 1, Fn: c17ExistenceCacheOverComposite},
		},
		Components: map[string][]string{
			"real": {"pkg/blobstore/configuration new_blob_access.go / new_blob_replicator.go / creators (W-config runs: the composite is assembled by the unmodified NewBlobAccessFromConfiguration over model leaves)", "pkg/blobstore/readcaching", "pkg/blobstore/readfallback", "pkg/blobstore/replication: deduplicating, queued, concurrency-limiting, local, noop", "pkg/blobstore existence caching blob access", "pkg/digest.ExistenceCache", "pkg/eviction (LRU, FIFO, RR sets)", "golang.org/x/sync/semaphore (rewritten onto verifsimrt)"},
			"stub": {"backends (model stores with call log and injected failures)", "clock (simulated)", "context cancellation at drawn points", "scheduling (verifsimrt)"},
		},
		Rule:           "read-caching/fallback: drawn placement x replicator strategy x 1-4 concurrent clients x injected backend failures, monotonic oracles (success => right bytes and a backend holds it, NOT_FOUND => neither held it, uploads only reach slow/primary, read-through copies to fast/primary, fallback FindMissing = missing from both); replicator decorators: 2-6 concurrent callers with overlapping digest sets, failures and cancellations, a recording base replicator checks per-key exclusivity (deduplicating) and the in-flight bound (limiting, queued) and success => the sink holds every requested object; existence cache: backend that loses objects, simulated clock advances, a digest is hidden as present only if the backend reported it present within the duration; non-trivial = concurrency, a fault or a clock advance",
		RequiredProbes: []string{"probe_read_through", "probe_fallback_findmissing", "probe_replication_ok", "probe_concurrent_base_copies", "probe_hidden_by_cache_within_duration", "fault_context_cancelled"},
	})
}
