package harness

import (
	"bytes"
	"fmt"
	"io"
	"strings"

	remoteexecution "github.com/bazelbuild/remote-apis/build/bazel/remote/execution/v2"
	"github.com/buildbarn/bb-storage/pkg/blobstore/buffer"
	"github.com/buildbarn/bb-storage/pkg/digest"
	"vsim/sim"

	"google.golang.org/grpc/codes"
	"google.golang.org/grpc/status"
	rt "verifsimrt"
)

// ---- C15: cloned buffers and background tasks ----

const (
	bkValidatedSlice = iota
	bkCASSlice
	bkCASReader
	bkCASChunk
	bkReaderAt
	bkError
	nBufKinds
)

var bufKindNames = []string{"validated_slice", "cas_slice", "cas_reader", "cas_chunk_reader", "validated_reader_at", "error"}

const (
	poConsume = iota
	poCloneStream
	poCloneCopy
	poWithTask
	poWithErrorHandler
	poGetSize
)

var progOpNames = []string{"consume", "CloneStream", "CloneCopy", "WithTask", "WithErrorHandler", "GetSizeBytes"}

// c15 consumption methods (leaf of a program)
const (
	lcByteSlice = iota
	lcReader
	lcChunkReader
	lcReadAt
	lcIntoWriter
	lcPartialClose
	lcDiscard
	lcProto
	lcTooSmall // ToByteSlice with a limit below the object's size: rejected, the handle must still be released
	nLeafCons
)

var leafConsNames = []string{"ToByteSlice", "ToReader", "ToChunkReader", "ReadAt", "IntoWriter", "PartialReadThenClose", "Discard", "ToProto", "ToByteSliceLimitTooSmall"}

type progNode struct {
	Op       int
	A, B     *progNode
	Cons     int
	Off      int
	MaxChunk int
	ReadBuf  int
	Task     int  // index of the task attached by WithTask
	Sibling  bool // WithTask: the task consumes a stream clone of the same buffer (what a replicator does)
	Spawn    bool // CloneCopy: consume the second copy in its own goroutine
}

func (n *progNode) String() string {
	switch n.Op {
	case poConsume:
		return leafConsNames[n.Cons]
	case poCloneStream, poCloneCopy:
		return fmt.Sprintf("%s(%s, %s)", progOpNames[n.Op], n.A, n.B)
	case poWithTask:
		if n.Sibling {
			return fmt.Sprintf("WithSiblingConsumingTask#%d(%s)", n.Task, n.A)
		}
		return fmt.Sprintf("WithTask#%d(%s)", n.Task, n.A)
	default:
		return fmt.Sprintf("%s(%s)", progOpNames[n.Op], n.A)
	}
}

type c15Task struct {
	Parks int
	Fail  bool
	Done  bool
	Runs  int
}

type c15Case struct {
	Kind     int
	Backend  bool
	Content  []byte
	Mismatch int // mmNone / mmFlip / mmShort / mmLong (stream kinds)
	ErrAt    int
	Cuts     []int
	Prog     *progNode
	Tasks    []*c15Task
}

func (cs *c15Case) String() string {
	var ts []string
	for i, t := range cs.Tasks {
		ts = append(ts, fmt.Sprintf("#%d parks=%d fail=%v", i, t.Parks, t.Fail))
	}
	return fmt.Sprintf("kind=%s backend=%v content=%s mismatch=%s errAt=%d cuts=%v prog=%s tasks=[%s]", bufKindNames[cs.Kind], cs.Backend, short(cs.Content), mmNames[cs.Mismatch], cs.ErrAt, cs.Cuts, cs.Prog, strings.Join(ts, "; "))
}

type readAtSource struct {
	data  []byte
	st    *sim.SrcStats
	errAt int
	err   error
}

func (r *readAtSource) ReadAt(p []byte, off int64) (int, error) {
	rt.Yield("src.ReadAt")
	n := r.st.Reads
	r.st.Reads++
	if r.errAt >= 0 && n == r.errAt {
		r.st.ErrFired = true
		return 0, r.err
	}
	if off >= int64(len(r.data)) {
		return 0, io.EOF
	}
	k := copy(p, r.data[off:])
	if k < len(p) {
		return k, io.EOF
	}
	return k, nil
}

func (r *readAtSource) Close() error {
	rt.Yield("src.Close")
	r.st.Closes++
	return nil
}

type c15Leaf struct {
	Node    *progNode
	Tasks   []int
	Got     []byte
	Whole   bool
	Partial bool
	Err     error
	Ran     bool
	// violations observed in place
}

type passHandler struct {
	errs  int
	dones int
}

func (h *passHandler) OnError(err error) (buffer.Buffer, error) { h.errs++; return nil, err }
func (h *passHandler) Done()                                       { h.dones++ }

func runC15Case(c *sim.RunCtx, cs *c15Case) {
	c.Note("case %s", cs)
	size := len(cs.Content)
	d := digest.MustNewDigest("i", remoteexecution.DigestFunction_SHA256, RefHash(remoteexecution.DigestFunction_SHA256, cs.Content), int64(size))
	delivered := append([]byte{}, cs.Content...)
	streamKind := cs.Kind == bkCASReader || cs.Kind == bkCASChunk
	switch cs.Mismatch {
	case mmFlip:
		if len(delivered) > 0 {
			delivered[len(delivered)/2] ^= 1
		}
	case mmShort:
		if len(delivered) > 0 {
			delivered = delivered[:len(delivered)-1]
		}
	case mmLong:
		delivered = append(delivered, 0x99)
	}
	matches := bytes.Equal(delivered, cs.Content)
	source := buffer.UserProvided
	if cs.Backend {
		source = buffer.BackendProvided(func(bool) {})
	}
	ioErr := InjectedError(codes.Unavailable, "c15")
	taskErr := func(k int) error { return status.Errorf(codes.Aborted, "task-%d-failed", k) }
	var st *sim.SrcStats
	var leaves []*c15Leaf
	var handlers []*passHandler
	c.Sim(sim.SimOpts{MaxSteps: 100000, DeadlockClass: "consumer-blocked-forever"}, func(s *rt.Sched) {
		script := &sim.SrcScript{Data: delivered, Cuts: cs.Cuts, ErrAt: cs.ErrAt, Err: ioErr}
		var b buffer.Buffer
		switch cs.Kind {
		case bkValidatedSlice:
			b = buffer.NewValidatedBufferFromByteSlice(cs.Content)
		case bkCASSlice:
			b = buffer.NewCASBufferFromByteSlice(d, delivered, source)
		case bkCASReader:
			src := sim.NewReaderSource("src", script)
			st = src.St
			b = buffer.NewCASBufferFromReader(d, src, source)
		case bkCASChunk:
			src := sim.NewChunkSource("src", script)
			st = src.St
			b = buffer.NewCASBufferFromChunkReader(d, src, source)
		case bkReaderAt:
			st = &sim.SrcStats{Name: "readat"}
			b = buffer.NewValidatedBufferFromReaderAt(&readAtSource{data: cs.Content, st: st, errAt: -1, err: ioErr}, int64(size))
		case bkError:
			b = buffer.NewBufferFromError(ioErr)
		}
		running := 0
		var run func(n *progNode, b buffer.Buffer, tasks []int)
		spawn := func(n *progNode, b buffer.Buffer, tasks []int) {
			running++
			ts := append([]int{}, tasks...)
			s.Go("consumer", func() {
				defer func() { running-- }()
				run(n, b, ts)
			})
		}
		run = func(n *progNode, b buffer.Buffer, tasks []int) {
			switch n.Op {
			case poCloneStream:
				b1, b2 := b.CloneStream()
				spawn(n.B, b2, tasks)
				run(n.A, b1, tasks)
			case poCloneCopy:
				b1, b2 := b.CloneCopy(1 << 20)
				if n.Spawn {
					spawn(n.B, b2, tasks)
					run(n.A, b1, tasks)
				} else {
					run(n.A, b1, tasks)
					run(n.B, b2, tasks)
				}
			case poWithTask:
				k := n.Task
				t := cs.Tasks[k]
				if n.Sibling {
					// the shape replicators use: CloneStream, one clone goes to
					// the caller with a task attached that feeds the other clone
					// to a sink
					b1, b2 := b.CloneStream()
					nb := b1.WithTask(func() error {
						t.Runs++
						for i := 0; i < t.Parks; i++ {
							rt.Yield("task")
						}
						b2.IntoWriter(io.Discard)
						t.Done = true
						if t.Fail {
							return taskErr(k)
						}
						return nil
					})
					c.Count("probe_sibling_consuming_task", 1)
					run(n.A, nb, append(append([]int{}, tasks...), k))
					break
				}
				nb := b.WithTask(func() error {
					t.Runs++
					for i := 0; i < t.Parks; i++ {
						rt.Yield("task")
					}
					t.Done = true
					if t.Fail {
						return taskErr(k)
					}
					return nil
				})
				run(n.A, nb, append(append([]int{}, tasks...), k))
			case poWithErrorHandler:
				h := &passHandler{}
				handlers = append(handlers, h)
				run(n.A, buffer.WithErrorHandler(b, h), tasks)
			case poGetSize:
				sz, err := b.GetSizeBytes()
				dataBad := cs.Kind == bkError || !matches || (st != nil && st.ErrFired) || cs.ErrAt >= 0
				if err == nil && sz != int64(size) {
					c.Fail("size-report", "GetSizeBytes() = %d on a handle of a %d byte object [%s]", sz, size, cs)
				} else if dataBad {
					// after a copying conversion a buffer of bad data is an error
					// buffer whose size is unknown: an error is fine
				} else if err != nil || sz != int64(size) {
					// a failed synchronous task legitimately turns the buffer into an error buffer
					anyFailed := false
					for _, k := range tasks {
						anyFailed = anyFailed || cs.Tasks[k].Fail
					}
					if !(err != nil && anyFailed) {
						c.Fail("size-report", "GetSizeBytes() = %d, %v on a handle of a %d byte object [%s]", sz, err, size, cs)
					}
				}
				run(n.A, b, tasks)
			case poConsume:
				leaf := &c15Leaf{Node: n, Tasks: append([]int{}, tasks...)}
				leaves = append(leaves, leaf)
				c15Consume(c, cs, leaf, b, size)
				leaf.Ran = true
				// successful completion is reported only after every attached task
				// has finished (an error, an early Close or a Discard by one of
				// several stream clones is not "completion": the last consumer
				// to leave waits for the task)
				completed := leaf.Err == nil && n.Cons != lcPartialClose && n.Cons != lcDiscard && n.Cons != lcTooSmall
				for _, k := range tasks {
					if completed && !cs.Tasks[k].Done {
						c.Fail("completed-before-task", "%s returned (err=%v) before attached task #%d had finished [%s]", leafConsNames[n.Cons], leaf.Err, k, cs)
					}
				}
			}
		}
		spawn(cs.Prog, b, nil)
		s.WaitUntil("consumers", func() bool { return running == 0 })
	})
	if c.Failed() {
		return
	}
	// ---- reference expectations ----
	dataErrExpected := (streamKind && (!matches || cs.ErrAt >= 0 && st != nil && st.ErrFired)) || cs.Kind == bkError || (cs.Kind == bkCASSlice && !matches)
	var firstWholeErr error
	var firstWhole []byte
	haveWhole := false
	for _, l := range leaves {
		if !l.Ran {
			c.Fail("consumer-never-finished", "a consumer did not finish [%s]", cs)
			return
		}
		n := l.Node
		if n.Cons == lcDiscard || n.Cons == lcTooSmall {
			continue
		}
		failedTask := -1
		for _, k := range l.Tasks {
			if cs.Tasks[k].Fail {
				failedTask = k
			}
		}
		if l.Err == nil {
			// success
			if !matches && streamKind && !l.Partial {
				c.Fail("completed-mismatch", "%s completed although the content mismatches the digest [%s]", leafConsNames[n.Cons], cs)
				return
			}
			if cs.Kind == bkError {
				c.Fail("error-buffer-succeeded", "%s succeeded on an error buffer [%s]", leafConsNames[n.Cons], cs)
				return
			}
			if failedTask >= 0 && !l.Partial {
				c.Fail("task-error-lost", "%s succeeded although attached task #%d failed [%s]", leafConsNames[n.Cons], failedTask, cs)
				return
			}
			if l.Whole && !bytes.Equal(l.Got, cs.Content) {
				c.Fail("wrong-bytes", "%s returned %s, expected %s [%s]", leafConsNames[n.Cons], short(l.Got), short(cs.Content), cs)
				return
			}
		} else {
			msg := l.Err.Error()
			isTask := strings.Contains(msg, "task-") && strings.Contains(msg, "-failed")
			isIO := strings.Contains(msg, "injected-io-error-c15")
			if isTask && failedTask < 0 {
				// the error of a task that is not attached to this handle
				attachedSomewhere := false
				for _, k := range l.Tasks {
					if strings.Contains(msg, fmt.Sprintf("task-%d-failed", k)) {
						attachedSomewhere = true
					}
				}
				if !attachedSomewhere {
					c.Fail("foreign-task-error", "%s reported %v, but no failing task is attached to this handle [%s]", leafConsNames[n.Cons], l.Err, cs)
					return
				}
			}
			if isIO && !(cs.Kind == bkError || (st != nil && st.ErrFired)) {
				c.Fail("phantom-io-error", "%s reported an I/O error the source never raised [%s]", leafConsNames[n.Cons], cs)
				return
			}
			if !isTask && !isIO && !dataErrExpected {
				// request-level errors are legitimate for offsets/sizes we did not generate; anything else is spurious
				if !(n.Cons == lcProto && status.Code(l.Err) == codes.InvalidArgument) {
					c.Fail("spurious-error", "%s failed with %v although the data is fine and no attached task failed [%s]", leafConsNames[n.Cons], l.Err, cs)
					return
				}
			}
			if isTask && dataErrExpected && streamKind && cs.Mismatch != mmNone {
				// the data itself was bad: its error must win ... unless the consumer never saw the end (partial)
			}
		}
		if l.Whole || (l.Err != nil && !l.Partial) {
			// all complete consumers of one multiplexed stream agree
			if !haveWhole {
				haveWhole, firstWhole, firstWholeErr = true, l.Got, l.Err
			} else if (firstWholeErr == nil) != (l.Err == nil) {
				// one saw success, the other an error: only acceptable if the error is a task error of a task the other does not carry
				e := l.Err
				if e == nil {
					e = firstWholeErr
				}
				if !strings.Contains(e.Error(), "task-") {
					c.Fail("clones-disagree", "one consumer completed while another failed with %v [%s]", e, cs)
					return
				}
			} else if firstWholeErr == nil && !bytes.Equal(firstWhole, l.Got) && l.Whole {
				c.Fail("clones-disagree", "two consumers read different bytes: %s vs %s [%s]", short(firstWhole), short(l.Got), cs)
				return
			}
		}
	}
	for i, t := range cs.Tasks {
		if t.Runs > 1 {
			c.Fail("task-ran-twice", "task #%d ran %d times [%s]", i, t.Runs, cs)
			return
		}
	}
	if st != nil && st.Closes != 1 {
		c.Fail("source-close-count", "the underlying source was closed %d times [%s]", st.Closes, cs)
		return
	}
	for _, h := range handlers {
		if h.dones != 1 {
			c.Fail("handler-done-count", "ErrorHandler.Done() was called %d times [%s]", h.dones, cs)
			return
		}
	}
	c.Count("kind_"+bufKindNames[cs.Kind], 1)
	c.Count("leaves", len(leaves))
	if st != nil && st.ErrFired {
		c.Count("fault_source_io_error", 1)
	}
	if len(leaves) > 1 {
		c.Nontrivial = true
		c.Count("probe_multi_consumer", 1)
	}
	if len(cs.Tasks) > 0 {
		c.Count("probe_with_task", 1)
	}
}

func c15Consume(c *sim.RunCtx, cs *c15Case, l *c15Leaf, b buffer.Buffer, size int) {
	n := l.Node
	switch n.Cons {
	case lcByteSlice:
		data, err := b.ToByteSlice(1 << 20)
		l.Got, l.Err, l.Whole = data, err, err == nil
	case lcReader:
		r := b.ToReader()
		p := make([]byte, max(n.ReadBuf, 1))
		for {
			k, err := r.Read(p)
			l.Got = append(l.Got, p[:k]...)
			if err == io.EOF {
				l.Whole = true
				break
			}
			if err != nil {
				l.Err = err
				break
			}
		}
		if err := r.Close(); err != nil && l.Err == nil {
			l.Err = err
			l.Whole = false
		}
	case lcChunkReader:
		off := n.Off
		if off > size {
			off = size
		}
		cr := b.ToChunkReader(int64(off), max(n.MaxChunk, 1))
		for {
			chunk, err := cr.Read()
			if err == io.EOF {
				l.Whole = off == 0
				l.Partial = off != 0
				break
			}
			if err != nil {
				l.Err = err
				break
			}
			l.Got = append(l.Got, chunk...)
		}
		cr.Close()
		if l.Err == nil && off != 0 && !bytes.Equal(l.Got, cs.Content[off:]) && cs.Mismatch == mmNone {
			c.Fail("wrong-bytes", "ToChunkReader(%d) returned %s [%s]", off, short(l.Got), cs)
		}
	case lcReadAt:
		off := n.Off
		p := make([]byte, n.ReadBuf)
		k, err := b.ReadAt(p, int64(off))
		if err == io.EOF {
			err = nil
		}
		l.Got, l.Err, l.Partial = p[:k], err, true
		if err == nil && cs.Mismatch == mmNone && cs.Kind != bkError {
			end := min(off+n.ReadBuf, size)
			exp := []byte{}
			if off < size {
				exp = cs.Content[off:end]
			}
			if !bytes.Equal(l.Got, exp) {
				c.Fail("wrong-bytes", "ReadAt(%d,%d) returned %s, expected %s [%s]", off, n.ReadBuf, short(l.Got), short(exp), cs)
			}
		}
	case lcIntoWriter:
		var buf bytes.Buffer
		err := b.IntoWriter(&buf)
		l.Got, l.Err, l.Whole = buf.Bytes(), err, err == nil
	case lcPartialClose:
		cr := b.ToChunkReader(0, 1)
		chunk, err := cr.Read()
		cr.Close()
		l.Partial = true
		if err != nil && err != io.EOF {
			l.Err = err
		} else {
			l.Got = chunk
		}
	case lcDiscard:
		b.Discard()
		l.Partial = true
	case lcTooSmall:
		if size == 0 {
			b.Discard()
		} else {
			_, l.Err = b.ToByteSlice(size - 1)
		}
		l.Partial = true
	case lcProto:
		_, err := b.ToProto(&remoteexecution.Digest{}, 1<<20)
		l.Err = err
		l.Partial = true
	}
}

func drawProg(t *sim.Tape, depth int, tasks *[]*c15Task) *progNode {
	if depth <= 0 || t.Chance(1, 4) {
		n := &progNode{Op: poConsume, Cons: t.Choose(nLeafCons)}
		n.Off = t.Choose(6)
		n.ReadBuf = 1 + t.Choose(8)
		n.MaxChunk = []int{1 << 16, 1, 2, 5}[t.Choose(4)]
		return n
	}
	switch t.Pick(4, 2, 3, 1, 1) {
	case 0:
		return &progNode{Op: poCloneStream, A: drawProg(t, depth-1, tasks), B: drawProg(t, depth-1, tasks)}
	case 1:
		return &progNode{Op: poCloneCopy, A: drawProg(t, depth-1, tasks), B: drawProg(t, depth-1, tasks), Spawn: t.Chance(1, 2)}
	case 2:
		k := len(*tasks)
		*tasks = append(*tasks, &c15Task{Parks: t.Choose(6), Fail: t.Chance(1, 3)})
		return &progNode{Op: poWithTask, Task: k, Sibling: t.Chance(1, 3), A: drawProg(t, depth-1, tasks)}
	case 3:
		return &progNode{Op: poWithErrorHandler, A: drawProg(t, depth-1, tasks)}
	default:
		return &progNode{Op: poGetSize, A: drawProg(t, depth-1, tasks)}
	}
}

func c15Random(c *sim.RunCtx) {
	t := c.T.Plan
	cs := &c15Case{ErrAt: -1}
	cs.Kind = t.Pick(1, 1, 4, 4, 2, 1)
	cs.Backend = t.Chance(1, 2)
	n := []int{5, 0, 1, 2, 8, 17, 40}[t.Choose(7)]
	cs.Content = make([]byte, n)
	for i := range cs.Content {
		cs.Content[i] = byte(0x41 + i%26)
	}
	if cs.Kind == bkCASReader || cs.Kind == bkCASChunk || cs.Kind == bkCASSlice {
		cs.Mismatch = t.Pick(6, 1, 1, 1)
		if n == 0 && cs.Mismatch != mmNone {
			cs.Mismatch = mmLong
		}
	}
	if cs.Kind == bkCASReader || cs.Kind == bkCASChunk {
		cs.Cuts = sim.DrawCuts(t, n, 3)
		if t.Chance(1, 5) {
			cs.ErrAt = t.Choose(len(cs.Cuts) + 2)
		}
	}
	cs.Prog = drawProg(t, 1+t.Choose(4), &cs.Tasks)
	c.Sample["case"] = cs.String()
	runC15Case(c, cs)
}

// c15Exhaustive enumerates all programs of depth <= 2 over every buffer kind
// with a fixed small content and a representative set of leaf consumers.
func c15Exhaustive(c *sim.RunCtx) {
	leafs := []int{lcByteSlice, lcChunkReader, lcReader, lcDiscard, lcPartialClose, lcTooSmall}
	var gen func(depth int) []func() (*progNode, int)
	// returns constructors (fresh tree each call) together with the number of tasks they need
	gen = func(depth int) []func() (*progNode, int) {
		var out []func() (*progNode, int)
		for _, lc := range leafs {
			lc := lc
			out = append(out, func() (*progNode, int) {
				return &progNode{Op: poConsume, Cons: lc, ReadBuf: 3, MaxChunk: 2}, 0
			})
		}
		if depth == 0 {
			return out
		}
		sub := gen(depth - 1)
		for _, a := range sub {
			a := a
			out = append(out, func() (*progNode, int) { n, k := a(); return &progNode{Op: poWithTask, A: n}, k + 1 })
			out = append(out, func() (*progNode, int) { n, k := a(); return &progNode{Op: poWithTask, Sibling: true, A: n}, k + 1 })
			out = append(out, func() (*progNode, int) { n, k := a(); return &progNode{Op: poGetSize, A: n}, k })
			out = append(out, func() (*progNode, int) { n, k := a(); return &progNode{Op: poWithErrorHandler, A: n}, k })
			for _, b := range sub {
				b := b
				out = append(out, func() (*progNode, int) {
					x, k1 := a()
					y, k2 := b()
					return &progNode{Op: poCloneStream, A: x, B: y}, k1 + k2
				})
				out = append(out, func() (*progNode, int) {
					x, k1 := a()
					y, k2 := b()
					return &progNode{Op: poCloneCopy, A: x, B: y}, k1 + k2
				})
			}
		}
		return out
	}
	progs := gen(2)
	cases := 0
	for kind := 0; kind < nBufKinds; kind++ {
		for _, mk := range progs {
			for _, taskFail := range []bool{false, true} {
				p, ntasks := mk()
				if ntasks == 0 && taskFail {
					continue
				}
				cs := &c15Case{Kind: kind, Content: []byte("ABCDE"), ErrAt: -1, Cuts: []int{2}, Prog: p}
				// number the tasks in tree order
				k := 0
				var number func(n *progNode)
				number = func(n *progNode) {
					if n == nil {
						return
					}
					if n.Op == poWithTask {
						n.Task = k
						k++
						cs.Tasks = append(cs.Tasks, &c15Task{Parks: 2, Fail: taskFail})
					}
					number(n.A)
					number(n.B)
				}
				number(p)
				runC15Case(c, cs)
				cases++
				if c.Failed() {
					c.Sample["cases"] = cases
					return
				}
			}
		}
	}
	c.Stats["exhaustive_cases"] = cases
	c.Sample["exhaustive_cases"] = cases
	c.Nontrivial = true
}

func init() {
	sim.Register(&sim.Check{
		Prop:  "C15",
		Level: "exploration",
		Profiles: []sim.Profile{
			{Name: "random-programs", Weight: 3, Fn: c15Random},
			{Name: "random-programs-atomics", Weight: 1, Fn: withAtomicYields(c15Random)},
			{Name: "exhaustive-depth2", Prologue: true, Fn: c15Exhaustive},
		},
		Components: map[string][]string{
			"real": {"pkg/blobstore/buffer: cloned buffers, multiplexed chunk reader, buffers with background tasks, validated reader-at buffer, error-handling buffers, all conversions"},
			"stub": {"stream sources with per-read scheduling points, chunking and I/O errors (simsource)", "tasks parked by the scheduler", "scheduling (verifsimrt)"},
		},
		Rule:           "a case = buffer kind x content/mismatch/error position x a program tree of CloneStream/CloneCopy/WithTask/WithErrorHandler/GetSizeBytes up to depth 4 whose leaves consume their handle by one of 8 methods, every stream clone in its own simulated goroutine under a drawn schedule; oracles: consumers reading to the end get the identical complete bytes or an error, no completion on mismatching content, a terminal call never returns before an attached task finished, task errors are reported iff the data was fine, sizes are reported on every handle, sources closed exactly once, handlers told Done once, no deadlock, no panic; all programs of depth <= 2 over every kind are enumerated per batch; non-trivial = at least two consumers",
		RequiredProbes: []string{"probe_multi_consumer", "probe_with_task", "fault_source_io_error"},
	})
}
