package harness

import (
	"context"
	"fmt"
	"io"
	"strings"

	remoteexecution "github.com/bazelbuild/remote-apis/build/bazel/remote/execution/v2"
	"github.com/buildbarn/bb-storage/pkg/blobstore"
	"github.com/buildbarn/bb-storage/pkg/blobstore/buffer"
	"github.com/buildbarn/bb-storage/pkg/blobstore/completenesschecking"
	"github.com/buildbarn/bb-storage/pkg/blobstore/configuration"
	"github.com/buildbarn/bb-storage/pkg/blobstore/slicing"
	"github.com/buildbarn/bb-storage/pkg/digest"
	pb_blobstore "github.com/buildbarn/bb-storage/pkg/proto/configuration/blobstore"
	"vsim/sim"

	"google.golang.org/grpc/codes"
	"google.golang.org/grpc/status"
	"google.golang.org/protobuf/proto"
	rt "verifsimrt"
)

// ---- C13: completeness checking returns an ActionResult only if everything
// it references was reported present by the CAS during that call ----
//
// System: the real completenesschecking decorator (with util.VisitProtoBytesFields
// and the real buffer layer) over a model Action Cache and a model CAS. The
// model CAS keeps a log of every FindMissing request/answer and of every Get;
// the oracle computes the set R of referenced digests independently (full
// proto.Unmarshal of the Trees the model holds) from the message THE CALLER
// RECEIVED and demands that every member of R was part of a successful
// FindMissing request whose answer did not list it.

// ---------- reference helpers (independent of pkg/digest) ----------

var c13HashLen = map[remoteexecution.DigestFunction_Value]int{
	remoteexecution.DigestFunction_MD5:        32,
	remoteexecution.DigestFunction_SHA1:       40,
	remoteexecution.DigestFunction_SHA256:     64,
	remoteexecution.DigestFunction_SHA384:     96,
	remoteexecution.DigestFunction_SHA512:     128,
	remoteexecution.DigestFunction_GITSHA1:    40,
	remoteexecution.DigestFunction_BLAKE3:     64,
	remoteexecution.DigestFunction_SHA256TREE: 64,
}

// c13WellFormed is the reference notion of a well-formed REv2 digest for
// digest function fn: lowercase hexadecimal hash of the function's length and
// a non-negative size.
func c13WellFormed(fn remoteexecution.DigestFunction_Value, d *remoteexecution.Digest) bool {
	if d == nil {
		return false
	}
	if len(d.Hash) != c13HashLen[fn] {
		return false
	}
	for i := 0; i < len(d.Hash); i++ {
		ch := d.Hash[i]
		if !((ch >= '0' && ch <= '9') || (ch >= 'a' && ch <= 'f')) {
			return false
		}
	}
	return d.SizeBytes >= 0
}

// c13Key is the reference identity of an object: instance name, digest
// function, hash, size.
func c13Key(inst string, fn remoteexecution.DigestFunction_Value, d *remoteexecution.Digest) string {
	return fmt.Sprintf("%s|%d|%s|%d", inst, int(fn), d.GetHash(), d.GetSizeBytes())
}

// c13KeyOf maps a digest handed to the model stores by the code under test
// to the reference identity (only accessor methods of pkg/digest are used).
func c13KeyOf(d digest.Digest) string {
	return fmt.Sprintf("%s|%d|%s|%d", d.GetInstanceName().String(), int(d.GetDigestFunction().GetEnumValue()), d.GetHashString(), d.GetSizeBytes())
}

func c13Short(d *remoteexecution.Digest) string {
	if d == nil {
		return "nil"
	}
	h := d.Hash
	if len(h) > 6 {
		h = fmt.Sprintf("%s~%d", h[:6], len(h))
	}
	return fmt.Sprintf("%s/%d", h, d.SizeBytes)
}

func c13ShortKey(k string) string {
	p := strings.Split(k, "|")
	if len(p) != 4 {
		return k
	}
	h := p[2]
	if len(h) > 6 {
		h = h[:6]
	}
	return h + "/" + p[3]
}

// ---------- the case ----------

const (
	c13TreeSlice     = iota // CASReadBufferFactory.NewBufferFromByteSlice (validated at construction)
	c13TreeReader           // CASReadBufferFactory.NewBufferFromReader over a simulated source
	c13TreeChunk            // NewCASBufferFromChunkReader over a simulated source
	c13TreeValidated        // NewValidatedBufferFromByteSlice (only for uncorrupted objects)
	c13TreeReaderAt         // CASReadBufferFactory.NewBufferFromReaderAt over a simulated random-access source
	c13NTreeKinds
)

var c13TreeKindNames = []string{"slice", "reader", "chunk", "validated", "readerat"}

const (
	c13ACProto   = iota // NewProtoBufferFromProto
	c13ACSlice          // NewProtoBufferFromByteSlice
	c13ACReader         // NewProtoBufferFromReader over a simulated source
	c13ACAbsent         // NOT_FOUND
	c13ACGarbage        // bytes that are not an ActionResult
	c13NACKinds
)

var c13ACKindNames = []string{"proto", "slice", "reader", "absent", "garbage"}

// c13TreeObj is one object of the model CAS that is fetched with Get.
type c13TreeObj struct {
	Stated    *remoteexecution.Digest // the digest the object is stored under (true digest of Orig)
	Orig      []byte                  // the bytes the digest describes
	Served    []byte                  // what the CAS delivers (differs from Orig when corrupted)
	Corrupt   string                  // "", "trunc@k", "flip@k"
	Kind      int
	Cuts      []int
	ErrAt     int        // index of the source read that fails (-1 never); never beyond the first EOF
	ErrCode   codes.Code // code of that failure
	GetAbsent bool       // Get answers NOT_FOUND although FindMissing reports the object present
	Desc      string     // how the bytes were generated
}

type c13Case struct {
	Fn   remoteexecution.DigestFunction_Value
	Inst string
	AR   *remoteexecution.ActionResult

	ACKind  int
	ACCuts  []int
	ACErrAt int
	ACBytes []byte // c13ACGarbage

	Trees     map[string]*c13TreeObj
	TreeOrder []string

	Missing           map[string]int // key -> index of the first CAS call from which the object is missing (0 = always)
	MissingOrder      []string
	GetIgnoresMissing bool // Get serves objects that FindMissing reports missing

	Batch   int
	MaxMsg  int
	MaxTree int64
	// Configured: the decorator is assembled by NewBlobAccessFromConfiguration
	// with the AC creator (batch size is then the code's constant)
	Configured bool
	// Repeat: the same decorator serves the same request twice; the second
	// call is the one that is judged (presence must be established during
	// that call, whatever an earlier call saw)
	Repeat bool
	// EmptyInjecting: the CAS handed to the decorator is wrapped in the
	// empty-blob-injecting decorator, as the configuration code does for every
	// top-level CAS: digests of size zero are answered by that wrapper
	EmptyInjecting bool
	// ACOverwrite: the Action Cache entry is overwritten while the call is in
	// progress - every read of it after the first one within a call sees a
	// result with one more output file, which the CAS was never asked about.
	// What the caller receives must still be a result whose references were
	// all reported present during the call.
	ACOverwrite bool

	CASErrAt   int // index of the CAS call (FindMissing and Get counted together) that fails; -1 never
	CASErrCode codes.Code
	CancelAt   int // index of the CAS call at which the caller's context is cancelled; -1 never

	Consume   int // 0 ToProto, 1 ToByteSlice
	Composite bool

	// Generation flags (drive the narrow expectations and the probes; the
	// main oracle does not depend on them).
	FaultFree bool // nothing missing, malformed, corrupted, failing, limits generous
	Pure      bool // the only faults generated are missing objects
	Notes     []string
}

func (cs *c13Case) String() string {
	var b strings.Builder
	fmt.Fprintf(&b, "fn=%v inst=%q batch=%d maxMsg=%d maxTree=%d configured=%v repeat=%v emptyInjecting=%v ac=%s", cs.Fn, cs.Inst, cs.Batch, cs.MaxMsg, cs.MaxTree, cs.Configured, cs.Repeat, cs.EmptyInjecting, c13ACKindNames[cs.ACKind])
	if cs.ACKind == c13ACReader {
		fmt.Fprintf(&b, "(cuts=%v errAt=%d)", cs.ACCuts, cs.ACErrAt)
	}
	if cs.Composite {
		b.WriteString(" composite")
	}
	fmt.Fprintf(&b, " consume=%d", cs.Consume)
	ar := cs.AR
	b.WriteString(" files=[")
	for i, f := range ar.GetOutputFiles() {
		if i > 0 {
			b.WriteString(" ")
		}
		b.WriteString(c13Short(f.Digest))
		if len(f.Contents) > 0 {
			b.WriteString("+inl")
		}
	}
	fmt.Fprintf(&b, "] stdout=%s", c13Short(ar.GetStdoutDigest()))
	if len(ar.GetStdoutRaw()) > 0 {
		b.WriteString("+raw")
	}
	fmt.Fprintf(&b, " stderr=%s", c13Short(ar.GetStderrDigest()))
	if len(ar.GetStderrRaw()) > 0 {
		b.WriteString("+raw")
	}
	b.WriteString(" dirs=[")
	for i, d := range ar.GetOutputDirectories() {
		if i > 0 {
			b.WriteString(" ")
		}
		fmt.Fprintf(&b, "{tree=%s root=%s}", c13Short(d.TreeDigest), c13Short(d.RootDirectoryDigest))
	}
	b.WriteString("] trees=[")
	for i, k := range cs.TreeOrder {
		o := cs.Trees[k]
		if i > 0 {
			b.WriteString(" ")
		}
		fmt.Fprintf(&b, "{%s %s %s", c13Short(o.Stated), c13TreeKindNames[o.Kind], o.Desc)
		if o.Corrupt != "" {
			fmt.Fprintf(&b, " %s", o.Corrupt)
		}
		if o.Kind == c13TreeReader || o.Kind == c13TreeChunk {
			fmt.Fprintf(&b, " cuts=%v", o.Cuts)
		}
		if o.ErrAt >= 0 {
			fmt.Fprintf(&b, " errAt=%d(%v)", o.ErrAt, o.ErrCode)
		}
		if o.GetAbsent {
			b.WriteString(" getAbsent")
		}
		b.WriteString("}")
	}
	b.WriteString("] missing=[")
	for i, k := range cs.MissingOrder {
		if i > 0 {
			b.WriteString(" ")
		}
		fmt.Fprintf(&b, "%s@%d", c13ShortKey(k), cs.Missing[k])
	}
	b.WriteString("]")
	if cs.GetIgnoresMissing {
		b.WriteString(" getIgnoresMissing")
	}
	if cs.CASErrAt >= 0 {
		fmt.Fprintf(&b, " casErr@%d(%v)", cs.CASErrAt, cs.CASErrCode)
	}
	if cs.CancelAt >= 0 {
		fmt.Fprintf(&b, " cancel@%d", cs.CancelAt)
	}
	if len(cs.Notes) > 0 {
		fmt.Fprintf(&b, " notes=%v", cs.Notes)
	}
	return b.String()
}

// ---------- model stores ----------

type c13FMRecord struct {
	Idx     int
	Req     []string
	Missing map[string]bool
	Err     error
	Late    bool // issued after Get() had returned
}

type c13GetRecord struct {
	Idx    int
	Key    string
	Failed bool // the Get itself answered with an error buffer
	St     *sim.SrcStats
	Late   bool
}

type c13CAS struct {
	dummyCapabilities
	c                     *sim.RunCtx
	cs                    *c13Case
	calls                 int
	cancel                context.CancelFunc
	done                  bool
	FM                    []c13FMRecord
	Gets                  []c13GetRecord
	errFired, cancelFired bool
}

// gate is the common entry of every CAS call: scheduling point, call index,
// cancellation, injected failure.
func (m *c13CAS) gate(ctx context.Context, what string) (int, error) {
	rt.Yield("cas." + what)
	idx := m.calls
	m.calls++
	if idx == m.cs.CancelAt && m.cancel != nil {
		m.cancel()
		m.cancelFired = true
		m.c.Count("fault_context_cancelled", 1)
	}
	if err := ctx.Err(); err != nil {
		return idx, status.FromContextError(err).Err()
	}
	if idx == m.cs.CASErrAt {
		m.errFired = true
		m.c.Count("fault_cas_call_error", 1)
		return idx, InjectedError(m.cs.CASErrCode, "c13-cas")
	}
	return idx, nil
}

func (m *c13CAS) isMissing(key string, idx int) bool {
	from, ok := m.cs.Missing[key]
	return ok && idx >= from
}

func (m *c13CAS) FindMissing(ctx context.Context, digests digest.Set) (digest.Set, error) {
	idx, err := m.gate(ctx, "FindMissing")
	rec := c13FMRecord{Idx: idx, Missing: map[string]bool{}, Late: m.done}
	sb := digest.NewSetBuilder(0)
	var shown []string
	for _, d := range digests.Items() {
		k := c13KeyOf(d)
		rec.Req = append(rec.Req, k)
		miss := err == nil && m.isMissing(k, idx)
		if miss {
			rec.Missing[k] = true
			sb.Add(d)
			shown = append(shown, "-"+c13ShortKey(k))
		} else {
			shown = append(shown, c13ShortKey(k))
		}
	}
	rec.Err = err
	m.FM = append(m.FM, rec)
	if err != nil {
		m.c.Note("cas#%d FindMissing(%s) -> %v", idx, strings.Join(shown, ","), status.Code(err))
		return digest.EmptySet, err
	}
	if len(rec.Missing) > 0 {
		m.c.Count("fault_object_reported_missing", len(rec.Missing))
	}
	m.c.Note("cas#%d FindMissing(%s)", idx, strings.Join(shown, ","))
	return sb.Build(), nil
}

func (m *c13CAS) Get(ctx context.Context, d digest.Digest) buffer.Buffer {
	idx, err := m.gate(ctx, "Get")
	k := c13KeyOf(d)
	rec := c13GetRecord{Idx: idx, Key: k, Late: m.done}
	fail := func(e error) buffer.Buffer {
		rec.Failed = true
		m.Gets = append(m.Gets, rec)
		m.c.Note("cas#%d Get(%s) -> %v", idx, c13ShortKey(k), status.Code(e))
		return buffer.NewBufferFromError(e)
	}
	if err != nil {
		return fail(err)
	}
	o := m.cs.Trees[k]
	if o == nil {
		return fail(status.Error(codes.NotFound, "model CAS: no such object"))
	}
	if o.GetAbsent {
		m.c.Count("fault_tree_get_not_found", 1)
		return fail(status.Error(codes.NotFound, "model CAS: object vanished"))
	}
	if m.isMissing(k, idx) && !m.cs.GetIgnoresMissing {
		m.c.Count("fault_tree_get_not_found", 1)
		return fail(status.Error(codes.NotFound, "model CAS: object missing"))
	}
	if o.Corrupt != "" {
		m.c.Count("fault_tree_served_corrupted", 1)
	}
	cb := func(valid bool) {
		if !valid {
			m.c.Count("probe_cas_integrity_callback_invalid", 1)
		}
	}
	served := append([]byte{}, o.Served...)
	var b buffer.Buffer
	switch o.Kind {
	case c13TreeSlice:
		b = blobstore.CASReadBufferFactory.NewBufferFromByteSlice(d, served, cb)
	case c13TreeValidated:
		b = buffer.NewValidatedBufferFromByteSlice(served)
	case c13TreeReader:
		src := sim.NewReaderSource(fmt.Sprintf("tree%d", idx), &sim.SrcScript{Data: served, Cuts: o.Cuts, ErrAt: o.ErrAt, Err: InjectedError(o.ErrCode, "c13-tree")})
		rec.St = src.St
		b = blobstore.CASReadBufferFactory.NewBufferFromReader(d, src, cb)
	case c13TreeReaderAt:
		src := &c13ReaderAt{St: &sim.SrcStats{Name: fmt.Sprintf("tree%d", idx)}, data: served, errAt: o.ErrAt, err: InjectedError(o.ErrCode, "c13-tree")}
		rec.St = src.St
		b = blobstore.CASReadBufferFactory.NewBufferFromReaderAt(d, src, int64(len(served)), cb)
	case c13TreeChunk:
		src := sim.NewChunkSource(fmt.Sprintf("tree%d", idx), &sim.SrcScript{Data: served, Cuts: o.Cuts, ErrAt: o.ErrAt, Err: InjectedError(o.ErrCode, "c13-tree")})
		rec.St = src.St
		b = buffer.NewCASBufferFromChunkReader(d, src, buffer.BackendProvided(cb))
	}
	m.Gets = append(m.Gets, rec)
	m.c.Note("cas#%d Get(%s) -> %d bytes (%s)", idx, c13ShortKey(k), len(served), c13TreeKindNames[o.Kind])
	return b
}

func (m *c13CAS) GetFromComposite(ctx context.Context, parentDigest, childDigest digest.Digest, slicer slicing.BlobSlicer) buffer.Buffer {
	panic(sim.HarnessError{Msg: "model CAS: GetFromComposite is not used by the completeness checker"})
}

func (m *c13CAS) Put(ctx context.Context, d digest.Digest, b buffer.Buffer) error {
	panic(sim.HarnessError{Msg: "model CAS: Put is not used by the completeness checker"})
}

type c13AC struct {
	dummyCapabilities
	c       *sim.RunCtx
	cs      *c13Case
	arBytes []byte
	want    string // key of the action digest
	Gets    int
	St      *sim.SrcStats
	round   int // reads of the entry during the current call
}

func (m *c13AC) Get(ctx context.Context, d digest.Digest) buffer.Buffer {
	rt.Yield("ac.Get")
	m.Gets++
	if k := c13KeyOf(d); k != m.want {
		m.c.Note("ac Get(%s) -> NOT_FOUND (unknown action)", c13ShortKey(k))
		return buffer.NewBufferFromError(status.Error(codes.NotFound, "model AC: unknown action"))
	}
	cb := func(valid bool) {}
	m.c.Note("ac Get -> %s", c13ACKindNames[m.cs.ACKind])
	m.round++
	if m.cs.ACOverwrite && m.round >= 2 && m.cs.ACKind != c13ACGarbage && (m.cs.ACKind == c13ACProto || m.cs.ACKind == c13ACSlice || m.cs.ACKind == c13ACReader) {
		m.c.Count("probe_ac_entry_overwritten_mid_call", 1)
		ar2 := proto.Clone(m.cs.AR).(*remoteexecution.ActionResult)
		ar2.OutputFiles = append(ar2.OutputFiles, &remoteexecution.OutputFile{Path: "written-meanwhile", Digest: &remoteexecution.Digest{Hash: RefHash(m.cs.Fn, []byte("c13-written-meanwhile")), SizeBytes: 21}})
		return buffer.NewProtoBufferFromProto(ar2, buffer.BackendProvided(cb))
	}
	switch m.cs.ACKind {
	case c13ACProto:
		return buffer.NewProtoBufferFromProto(proto.Clone(m.cs.AR), buffer.BackendProvided(cb))
	case c13ACSlice:
		return buffer.NewProtoBufferFromByteSlice(&remoteexecution.ActionResult{}, append([]byte{}, m.arBytes...), buffer.BackendProvided(cb))
	case c13ACReader:
		src := sim.NewReaderSource("ac", &sim.SrcScript{Data: append([]byte{}, m.arBytes...), Cuts: m.cs.ACCuts, ErrAt: m.cs.ACErrAt, Err: InjectedError(codes.Unavailable, "c13-ac")})
		m.St = src.St
		return buffer.NewProtoBufferFromReader(&remoteexecution.ActionResult{}, src, buffer.BackendProvided(cb))
	case c13ACGarbage:
		m.c.Count("fault_ac_entry_garbage", 1)
		return buffer.NewProtoBufferFromByteSlice(&remoteexecution.ActionResult{}, append([]byte{}, m.cs.ACBytes...), buffer.BackendProvided(cb))
	}
	m.c.Count("fault_ac_entry_absent", 1)
	return buffer.NewBufferFromError(status.Error(codes.NotFound, "model AC: no such action result"))
}

func (m *c13AC) GetFromComposite(ctx context.Context, parentDigest, childDigest digest.Digest, slicer slicing.BlobSlicer) buffer.Buffer {
	panic(sim.HarnessError{Msg: "model AC: GetFromComposite must be served by the decorator"})
}

func (m *c13AC) Put(ctx context.Context, d digest.Digest, b buffer.Buffer) error {
	panic(sim.HarnessError{Msg: "model AC: Put not part of this harness"})
}

func (m *c13AC) FindMissing(ctx context.Context, digests digest.Set) (digest.Set, error) {
	panic(sim.HarnessError{Msg: "model AC: FindMissing not part of this harness"})
}

// c13ReaderAt is a simulated random-access source (what a block-device backed
// store hands to ReadBufferFactory.NewBufferFromReaderAt). The injected error
// fires at the errAt-th call unless end-of-file was already reported.
type c13ReaderAt struct {
	St    *sim.SrcStats
	data  []byte
	errAt int
	err   error
	eof   bool
}

func (r *c13ReaderAt) ReadAt(p []byte, off int64) (int, error) {
	rt.Yield("src.ReadAt(" + r.St.Name + ")")
	n := r.St.Reads
	r.St.Reads++
	if r.errAt >= 0 && n == r.errAt && !r.eof {
		r.St.ErrFired = true
		return 0, r.err
	}
	if off >= int64(len(r.data)) {
		r.eof = true
		return 0, io.EOF
	}
	k := copy(p, r.data[off:])
	r.St.Delivered += k
	if k < len(p) {
		r.eof = true
		return k, io.EOF
	}
	return k, nil
}

func (r *c13ReaderAt) Close() error {
	rt.Yield("src.Close(" + r.St.Name + ")")
	r.St.Closes++
	return nil
}

// c13IdentitySlicer hands the parent buffer back: GetFromComposite then is
// Get as far as the completeness check is concerned.
type c13IdentitySlicer struct{ calls int }

func (s *c13IdentitySlicer) Slice(b buffer.Buffer, childDigest digest.Digest) (buffer.Buffer, []slicing.BlobSlice) {
	s.calls++
	return b, nil
}

var (
	_ blobstore.BlobAccess = (*c13CAS)(nil)
	_ blobstore.BlobAccess = (*c13AC)(nil)
)

// ---------- reference set ----------

type c13Ref struct {
	Key   string
	Where string
}

type c13Problem struct{ Class, Msg string }

type c13RefInfo struct {
	Refs         []c13Ref // distinct, in order of first occurrence
	seen         map[string]bool
	Problems     []c13Problem // reasons why the message must not be returned, independent of presence
	TreeBytes    int64        // sum of the sizes of the DISTINCT Trees referenced
	TreeBytesDup int64        // the same with repeated references counted repeatedly
	NTrees       int
}

func (ri *c13RefInfo) add(cs *c13Case, d *remoteexecution.Digest, where string) bool {
	if d == nil {
		return true
	}
	if !c13WellFormed(cs.Fn, d) {
		ri.Problems = append(ri.Problems, c13Problem{"malformed-digest-accepted", fmt.Sprintf("%s is malformed: hash %q (length %d) size %d", where, d.Hash, len(d.Hash), d.SizeBytes)})
		return false
	}
	k := c13Key(cs.Inst, cs.Fn, d)
	if !ri.seen[k] {
		ri.seen[k] = true
		ri.Refs = append(ri.Refs, c13Ref{k, where})
	}
	return true
}

// c13Reference computes, from an ActionResult and the objects the model CAS
// holds, the set of referenced digests and every reason (malformed digest,
// absent/corrupted/malformed Tree, size limit) for which the message must not
// be handed to a caller regardless of presence answers.
func c13Reference(cs *c13Case, ar *remoteexecution.ActionResult) *c13RefInfo {
	ri := &c13RefInfo{seen: map[string]bool{}}
	for i, f := range ar.GetOutputFiles() {
		ri.add(cs, f.GetDigest(), fmt.Sprintf("output_files[%d].digest", i))
	}
	for i, d := range ar.GetOutputDirectories() {
		ri.add(cs, d.GetTreeDigest(), fmt.Sprintf("output_directories[%d].tree_digest", i))
		ri.add(cs, d.GetRootDirectoryDigest(), fmt.Sprintf("output_directories[%d].root_directory_digest", i))
	}
	ri.add(cs, ar.GetStdoutDigest(), "stdout_digest")
	ri.add(cs, ar.GetStderrDigest(), "stderr_digest")

	treeSeen := map[string]bool{}
	for i, od := range ar.GetOutputDirectories() {
		td := od.GetTreeDigest()
		if td == nil || !c13WellFormed(cs.Fn, td) {
			continue // no Tree can be identified (a malformed digest was recorded above)
		}
		ri.NTrees++
		k := c13Key(cs.Inst, cs.Fn, td)
		ri.TreeBytesDup += td.SizeBytes
		if !treeSeen[k] {
			treeSeen[k] = true
			ri.TreeBytes += td.SizeBytes
		}
		where := fmt.Sprintf("output_directories[%d] tree %s", i, c13Short(td))
		if cs.EmptyInjecting && td.SizeBytes == 0 {
			// served by the wrapper as zero bytes validated against the digest:
			// the empty Tree if the hash is that of the empty string, else an error
			if td.Hash != RefHash(cs.Fn, nil) {
				ri.Problems = append(ri.Problems, c13Problem{"corrupt-tree-accepted", where + ": a zero-size Tree digest whose hash is not that of the empty string"})
			}
			continue
		}
		o := cs.Trees[k]
		if o == nil || o.GetAbsent {
			ri.Problems = append(ri.Problems, c13Problem{"unreadable-tree-accepted", where + ": the CAS has no such object to read"})
			continue
		}
		if int64(len(o.Served)) != td.SizeBytes || RefHash(cs.Fn, o.Served) != td.Hash {
			ri.Problems = append(ri.Problems, c13Problem{"corrupt-tree-accepted", fmt.Sprintf("%s: the CAS serves %d bytes that do not match the digest (%s)", where, len(o.Served), o.Corrupt)})
			continue
		}
		var tree remoteexecution.Tree
		if err := proto.Unmarshal(o.Served, &tree); err != nil {
			ri.Problems = append(ri.Problems, c13Problem{"malformed-tree-accepted", fmt.Sprintf("%s: not a valid Tree message: %v (%s)", where, err, o.Desc)})
			continue
		}
		dirs := append([]*remoteexecution.Directory{}, tree.GetChildren()...)
		if tree.GetRoot() != nil {
			dirs = append([]*remoteexecution.Directory{tree.GetRoot()}, dirs...)
		}
		for di, dir := range dirs {
			for fi, f := range dir.GetFiles() {
				ri.add(cs, f.GetDigest(), fmt.Sprintf("%s dir#%d files[%d]", where, di, fi))
			}
			if od.GetRootDirectoryDigest() != nil {
				for ci, ch := range dir.GetDirectories() {
					ri.add(cs, ch.GetDigest(), fmt.Sprintf("%s dir#%d directories[%d]", where, di, ci))
				}
			}
		}
	}
	if ri.TreeBytes > cs.MaxTree {
		ri.Problems = append(ri.Problems, c13Problem{"tree-size-limit-exceeded", fmt.Sprintf("the distinct Trees referenced have %d bytes in total, the limit is %d", ri.TreeBytes, cs.MaxTree)})
	}
	return ri
}

// ---------- one execution ----------

func runC13Case(c *sim.RunCtx, cs *c13Case) *c13CAS {
	desc := cs.String()
	c.Note("case %s", desc)
	arBytes, err := proto.MarshalOptions{Deterministic: true}.Marshal(cs.AR)
	if err != nil {
		panic(sim.HarnessError{Msg: "cannot marshal generated ActionResult: " + err.Error()})
	}
	actionHash := RefHash(cs.Fn, []byte("c13-action"))
	acDigest := digest.MustNewDigest(cs.Inst, cs.Fn, actionHash, 123)
	cas := &c13CAS{c: c, cs: cs}
	ac := &c13AC{c: c, cs: cs, arBytes: arBytes, want: c13Key(cs.Inst, cs.Fn, &remoteexecution.Digest{Hash: actionHash, SizeBytes: 123})}
	slicer := &c13IdentitySlicer{}

	var got *remoteexecution.ActionResult
	var gotErr error
	c.Sim(sim.SimOpts{MaxSteps: 50000, DeadlockClass: "deadlock"}, func(s *rt.Sched) {
		ctx, cancel := context.WithCancel(context.Background())
		defer cancel()
		cas.cancel = cancel
		var casBA blobstore.BlobAccess = cas
		if cs.EmptyInjecting {
			casBA = blobstore.NewEmptyBlobInjectingBlobAccess(cas)
			c.Count("probe_cas_behind_empty_blob_injecting", 1)
		}
		var ba blobstore.BlobAccess
		if cs.Configured {
			var restore func()
			ba, _, restore = buildCompositeWith(c, s, sim.NewClock(s),
				configuration.NewACBlobAccessCreator(&configuration.BlobAccessInfo{BlobAccess: casBA, DigestKeyFormat: digest.KeyWithoutInstance}, nil, cs.MaxMsg),
				labelled(&pb_blobstore.BlobAccessConfiguration{Backend: &pb_blobstore.BlobAccessConfiguration_CompletenessChecking{CompletenessChecking: &pb_blobstore.CompletenessCheckingBlobAccessConfiguration{
					Backend: labelConfig("ac"), MaximumTotalTreeSizeBytes: cs.MaxTree}}}, "ac"),
				map[string]configuration.BlobAccessInfo{"ac": {BlobAccess: ac, DigestKeyFormat: digest.KeyWithInstance}})
			defer restore()
		} else {
			ba = completenesschecking.NewCompletenessCheckingBlobAccess(ac, casBA, cs.Batch, cs.MaxMsg, cs.MaxTree)
		}
		rounds := 1
		if cs.Repeat {
			rounds = 2
			c.Count("probe_repeated_request", 1)
		}
		for round := 0; round < rounds; round++ {
			// (records of an earlier round are dropped: each call stands alone)
			cas.FM, cas.Gets, cas.done, ac.St, ac.round = nil, nil, false, nil, 0
			got, gotErr = nil, nil
			var b buffer.Buffer
			if cs.Composite {
				child := digest.MustNewDigest(cs.Inst, cs.Fn, RefHash(cs.Fn, []byte("child")), 5)
				b = ba.GetFromComposite(ctx, acDigest, child, slicer)
			} else {
				b = ba.Get(ctx, acDigest)
			}
			cas.done = true
			switch cs.Consume {
			case 0:
				m, err := b.ToProto(&remoteexecution.ActionResult{}, 1<<24)
				if err != nil {
					gotErr = err
				} else {
					got = m.(*remoteexecution.ActionResult)
				}
			default:
				data, err := b.ToByteSlice(1 << 24)
				if err != nil {
					gotErr = err
				} else {
					var m remoteexecution.ActionResult
					if uerr := proto.Unmarshal(data, &m); uerr != nil {
						// the caller received bytes that are not an ActionResult: not a
						// result in the sense of the property; recorded, not judged
						c.Count("note_returned_bytes_not_an_action_result", 1)
						gotErr = uerr
					} else {
						got = &m
					}
				}
			}
		}
	})
	if c.Failed() {
		return cas
	}
	if cs.Composite && !cs.Repeat && slicer.calls != 1 {
		c.Count("note_slicer_calls_not_1", 1)
	}
	c13Judge(c, cs, cas, ac, got, gotErr, desc)
	return cas
}

func c13Judge(c *sim.RunCtx, cs *c13Case, cas *c13CAS, ac *c13AC, got *remoteexecution.ActionResult, gotErr error, desc string) {
	// coverage of presence answers during the call
	covered := map[string]bool{}  // in a successful FindMissing request and not listed as missing
	asked := map[string]bool{}    // in any successful FindMissing request
	askedErr := map[string]bool{} // only in failed requests
	fmCalls, fmOK := 0, 0
	for _, r := range cas.FM {
		if r.Late {
			c.Count("note_cas_call_after_get_returned", 1)
			continue
		}
		fmCalls++
		if r.Err != nil {
			for _, k := range r.Req {
				askedErr[k] = true
			}
			continue
		}
		fmOK++
		if len(r.Req) > cs.Batch {
			c.Count("note_findmissing_request_larger_than_batch_size", 1)
		}
		for _, k := range r.Req {
			asked[k] = true
			if !r.Missing[k] {
				covered[k] = true
			}
		}
	}
	treeSrcErr := false
	for _, g := range cas.Gets {
		if g.St != nil && g.St.ErrFired {
			treeSrcErr = true
			c.Count("fault_tree_read_error", 1)
		}
	}
	if ac.St != nil && ac.St.ErrFired {
		c.Count("fault_ac_read_error", 1)
	}
	if fmOK >= 2 {
		c.Count("probe_multiple_batches", 1)
	}

	if got != nil {
		// ---- the caller received an ActionResult: everything it references
		// must have been reported present during this call ----
		c.Count("probe_result_returned", 1)
		ri := c13Reference(cs, got)
		if len(ri.Problems) > 0 {
			p := ri.Problems[0]
			c.Fail(p.Class, "ActionResult returned although %s [%s]", p.Msg, desc)
			return
		}
		// Trees that the CAS failed to deliver on every attempt
		gets := map[string][]c13GetRecord{}
		for _, g := range cas.Gets {
			if !g.Late {
				gets[g.Key] = append(gets[g.Key], g)
			}
		}
		for i, od := range got.GetOutputDirectories() {
			if od.GetTreeDigest() == nil {
				continue
			}
			k := c13Key(cs.Inst, cs.Fn, od.GetTreeDigest())
			gs := gets[k]
			if len(gs) == 0 {
				continue // never read: judged through the reference set
			}
			ok := false
			for _, g := range gs {
				if !g.Failed && (g.St == nil || !g.St.ErrFired) {
					ok = true
				}
			}
			if !ok {
				c.Fail("unreadable-tree-accepted", "ActionResult returned although every read of the Tree of output_directories[%d] (%s) failed [%s]", i, c13ShortKey(k), desc)
				return
			}
		}
		for _, r := range ri.Refs {
			if covered[r.Key] {
				continue
			}
			if cs.EmptyInjecting && strings.HasSuffix(r.Key, "|0") {
				continue // digests of size zero are reported present by the wrapper itself
			}
			switch {
			case asked[r.Key]:
				c.Fail("missing-ref-returned", "ActionResult returned although %s = %s was reported MISSING by every FindMissing call that asked for it [%s]", r.Where, c13ShortKey(r.Key), desc)
			case askedErr[r.Key]:
				c.Fail("ref-not-checked", "ActionResult returned although %s = %s was only part of FindMissing calls that failed [%s]", r.Where, c13ShortKey(r.Key), desc)
			default:
				c.Fail("ref-not-checked", "ActionResult returned although %s = %s was never part of a FindMissing request during the call (%d requests) [%s]", r.Where, c13ShortKey(r.Key), fmCalls, desc)
			}
			return
		}
		if len(ri.Refs) > 0 {
			c.Nontrivial = true
		}
		if cs.FaultFree {
			c.Count("probe_complete_returned", 1)
			if ri.NTrees > 0 {
				c.Count("probe_complete_returned_with_tree", 1)
			}
		} else {
			c.Count("probe_returned_despite_generated_faults", 1) // fault not reached / harmless (e.g. malformed digest outside R)
		}
		if len(cs.Missing) > 0 {
			c.Count("probe_returned_with_unreferenced_or_late_missing", 1)
		}
		return
	}

	// ---- the caller received an error ----
	c.Count("probe_error_returned", 1)
	code := status.Code(gotErr)
	c.Count("probe_error_code_"+code.String(), 1)
	if cs.FaultFree {
		// Not demanded by the property (it only restricts when a result MAY be
		// returned); the vacuity guard (probe_complete_returned) covers it.
		c.Count("note_complete_case_rejected", 1)
		c.Logf("complete fault-free case rejected: %v", gotErr)
		return
	}
	ri := c13Reference(cs, cs.AR)
	staticMissing := ""
	for _, r := range ri.Refs {
		if from, ok := cs.Missing[r.Key]; ok && from == 0 {
			staticMissing = r.Where + " = " + c13ShortKey(r.Key)
			break
		}
	}
	if cs.Pure && staticMissing != "" {
		// "otherwise the caller receives NOT_FOUND": judged only where missing
		// objects are the sole fault of the case.
		if code != codes.NotFound {
			c.Fail("missing-wrong-code", "%s is missing from the CAS but the caller received code %v instead of NOT_FOUND: %v [%s]", staticMissing, code, gotErr, desc)
			return
		}
		c.Count("probe_rejected_missing", 1)
		c.Nontrivial = true
		return
	}
	// classification of the rejection for the coverage probes (no verdicts)
	reason := "other"
	switch {
	case cas.errFired:
		reason = "cas_error"
	case cas.cancelFired:
		reason = "cancelled"
	case treeSrcErr:
		reason = "tree_read_error"
	case len(ri.Problems) > 0:
		reason = strings.TrimSuffix(ri.Problems[0].Class, "-accepted")
		reason = strings.ReplaceAll(reason, "-", "_")
	case staticMissing != "":
		reason = "missing"
	case cs.ACKind == c13ACAbsent || cs.ACKind == c13ACGarbage || (ac.St != nil && ac.St.ErrFired):
		reason = "ac_fault"
	}
	c.Count("probe_rejected_"+reason, 1)
	if reason != "other" {
		c.Nontrivial = true
	}
}

func init() {
	sim.Register(&sim.Check{
		Prop:  "C13",
		Level: "exploration",
		Profiles: []sim.Profile{
			{Name: "complete", Weight: 2, Fn: c13Complete},
			{Name: "missing", Weight: 4, Fn: c13MissingProfile},
			{Name: "faults", Weight: 6, Fn: c13Faults},
			{Name: "exhaustive-small", Prologue: true, Fn: c13Exhaustive},
		},
		Components: map[string][]string{
			"real": {"pkg/blobstore/configuration new_blob_access.go / new_blob_replicator.go / creators (W-config runs: the composite is assembled by the unmodified NewBlobAccessFromConfiguration over model leaves)", "pkg/blobstore/completenesschecking (Get, GetFromComposite, findMissingQueue)", "pkg/util VisitProtoBytesFields", "pkg/blobstore/buffer (proto buffers, CAS buffers, clone, error buffers)", "pkg/blobstore CASReadBufferFactory (the model CAS builds its byte-slice / reader / reader-at buffers through it)", "pkg/digest (Function.NewDigestFromProto, Set, SetBuilder)"},
			"stub": {"model Action Cache (proto / byte-slice / streamed / absent / garbage entries)", "model CAS (FindMissing answers from a missing-set that may change per call, Get through real CAS buffers over simulated sources, failure/cancellation at the k-th call, request log)", "identity BlobSlicer"},
		},
		Rule:           "a case = (digest function, instance, ActionResult with 0-6 output files / stdout / stderr / 0-3 output directories, Trees with 0-4 children in several encodings, batch size 1-5, limits) x (set of objects missing from the CAS, malformed digests, truncated / flipped / malformed Trees, CAS failure or cancellation at the k-th call, stream errors, AC faults); non-trivial = a result with at least one reference was returned and judged against the FindMissing log, or a generated fault caused the rejection; distinct = distinct event-log hash (case description + every model-store call)",
		RequiredProbes: []string{"probe_complete_returned", "probe_complete_returned_with_tree", "probe_rejected_missing", "probe_rejected_corrupt_tree", "probe_rejected_malformed_digest", "probe_rejected_malformed_tree", "probe_rejected_tree_size_limit_exceeded", "probe_rejected_cas_error", "probe_multiple_batches", "exhaustive_cases"},
		Assumptions: []string{
			"reference set computed with proto.Unmarshal of the Tree bytes the model CAS holds and a stdlib re-implementation of digest well-formedness; hashes by the standard library / upstream BLAKE3 and SHA256TREE",
			"'reported present during that call' = member of a FindMissing request that succeeded and whose answer did not list it (DESIGN C13); a Tree that was merely fetched successfully does not count",
			"'total size' of Trees is judged over DISTINCT Trees (the weaker reading); the code counts repeated references repeatedly",
			"a complete fault-free case that is rejected is not a violation (the property only restricts when a result may be returned); the required probe probe_complete_returned makes such a batch inconclusive instead",
			"NOT_FOUND as the error code is demanded only when missing objects are the sole fault of the case",
		},
	})
}
