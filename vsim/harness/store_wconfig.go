package harness

import (
	"fmt"
	"time"

	"github.com/buildbarn/bb-storage/pkg/blobstore/configuration"
	"github.com/buildbarn/bb-storage/pkg/blockdevice"
	"github.com/buildbarn/bb-storage/pkg/clock"
	"github.com/buildbarn/bb-storage/pkg/digest"
	"github.com/buildbarn/bb-storage/pkg/filesystem"
	pb "github.com/buildbarn/bb-storage/pkg/proto/configuration/blobstore"
	bd_pb "github.com/buildbarn/bb-storage/pkg/proto/configuration/blockdevice"
	digest_pb "github.com/buildbarn/bb-storage/pkg/proto/configuration/digest"
	eviction_pb "github.com/buildbarn/bb-storage/pkg/proto/configuration/eviction"
	"github.com/buildbarn/bb-storage/pkg/util"
	"vsim/sim"

	"google.golang.org/protobuf/types/known/durationpb"
	rt "verifsimrt"
)

// ---- W-config: the store is assembled by the unmodified
// configuration.NewBlobAccessFromConfiguration (new_blob_access.go itself
// runs: dataSyncer wiring, the two syncer routines, block count and sector
// arithmetic, prime table size, metrics and top-level decorators). The
// simulated media are reached through hook S4, the clock, error logger and
// random generator through the package variables the code reads. Observation
// is black box: BlobAccess results, device/directory logs, Prometheus
// collectors, error log. ----

func wconfigPossible(cfg *storeCfg) bool {
	// in-memory blocks or index are fine. The AC creator's top-level decorator
	// injects a completion timestamp into results that lack one: the
	// workload's ActionResults carry one, so they are stored unaltered.
	return cfg.AC || !cfg.Mutable
}

func buildStoreConfig(c *sim.RunCtx, s *rt.Sched, cfg *storeCfg, m *media, proc int, seed int64) *storeEnv {
	e := &storeEnv{c: c, s: s, cfg: cfg, proc: proc, data: m.data, index: m.index, dir: m.dir,
		finalizeSeq: map[int]int{}, finalizeTime: map[int]time.Duration{}, pendingGet: map[int]pendingGet{}, wconfig: true}
	restoreRandom := installDetRandom(seed)
	e.clock = sim.NewClock(s)
	e.log = &recLogger{}
	oldClock, oldLogger := clock.SystemClock, util.DefaultErrorLogger
	clock.SystemClock, util.DefaultErrorLogger = e.clock, e.log
	oldBD, oldDir := blockdevice.VerifBlockDeviceFromFileHook, filesystem.VerifLocalDirectoryHook
	blockdevice.VerifBlockDeviceFromFileHook = func(path string, minimumSizeBytes int, zeroInitialize bool) (blockdevice.BlockDevice, int, int64, error, bool) {
		switch path {
		case "/verifsim/data":
			if zeroInitialize {
				m.data.Wipe()
				c.Count("wconfig_data_device_zero_initialized", 1)
			}
			return m.data, cfg.SectorSize, m.data.Size() / int64(cfg.SectorSize), nil, true
		case "/verifsim/index":
			if zeroInitialize {
				m.index.Wipe()
			}
			return m.index, cfg.SectorSize, m.index.Size() / int64(cfg.SectorSize), nil, true
		}
		return nil, 0, 0, nil, false
	}
	filesystem.VerifLocalDirectoryHook = func(pathString string) (filesystem.DirectoryCloser, error, bool) {
		if pathString == "/verifsim/state" {
			return m.dir, nil, true
		}
		return nil, nil, false
	}
	e.restore = func() {
		restoreRandom()
		clock.SystemClock, util.DefaultErrorLogger = oldClock, oldLogger
		blockdevice.VerifBlockDeviceFromFileHook, filesystem.VerifLocalDirectoryHook = oldBD, oldDir
	}

	// the real write-concurrency-limiting device decorator over the simulated
	// devices in two thirds of the configured stores (derived from the seed,
	// itself a tape draw)
	writeLimit := []int64{0, 1, 2}[uint64(seed)%3]
	if writeLimit > 0 {
		c.Count("probe_wconfig_write_concurrency_limit", 1)
	}
	l := &pb.LocalBlobAccessConfiguration{
		KeyLocationMapMaximumGetAttempts: cfg.GetAtt,
		KeyLocationMapMaximumPutAttempts: int64(cfg.PutAtt),
		OldBlocks:                        int32(cfg.Old),
		CurrentBlocks:                    int32(cfg.Cur),
		NewBlocks:                        int32(cfg.New),
		HierarchicalInstanceNames:        cfg.Hier,
	}
	if cfg.IndexDev {
		l.KeyLocationMapBackend = &pb.LocalBlobAccessConfiguration_KeyLocationMapOnBlockDevice{
			KeyLocationMapOnBlockDevice: &bd_pb.Configuration{Source: &bd_pb.Configuration_File{File: &bd_pb.FileConfiguration{Path: "/verifsim/index", SizeBytes: m.index.Size()}}, WriteConcurrencyLimit: writeLimit},
		}
	} else {
		l.KeyLocationMapBackend = &pb.LocalBlobAccessConfiguration_KeyLocationMapInMemory_{
			KeyLocationMapInMemory: &pb.LocalBlobAccessConfiguration_KeyLocationMapInMemory{Entries: int64(cfg.IndexSlots)},
		}
	}
	if cfg.Disk {
		b := &pb.LocalBlobAccessConfiguration_BlocksOnBlockDevice{
			Source:      &bd_pb.Configuration{Source: &bd_pb.Configuration_File{File: &bd_pb.FileConfiguration{Path: "/verifsim/data", SizeBytes: m.data.Size()}}, WriteConcurrencyLimit: writeLimit},
			SpareBlocks: int32(cfg.Spare),
		}
		if cfg.ValCache {
			b.DataIntegrityValidationCache = &digest_pb.ExistenceCacheConfiguration{CacheSize: 4, CacheDuration: durationpb.New(1000 * time.Second), CacheReplacementPolicy: eviction_pb.CacheReplacementPolicy_LEAST_RECENTLY_USED}
		}
		l.BlocksBackend = &pb.LocalBlobAccessConfiguration_BlocksOnBlockDevice_{BlocksOnBlockDevice: b}
	} else {
		l.BlocksBackend = &pb.LocalBlobAccessConfiguration_BlocksInMemory_{
			BlocksInMemory: &pb.LocalBlobAccessConfiguration_BlocksInMemory{BlockSizeBytes: int64(cfg.BlockSize())},
		}
	}
	if cfg.Persistent {
		l.Persistent = &pb.LocalBlobAccessConfiguration_Persistent{StateDirectoryPath: "/verifsim/state", MinimumEpochInterval: durationpb.New(cfg.MinEpoch)}
	}
	e.group = newSimGroup(s, proc)
	e.group.onReturn = func() { e.routineReturned = true }
	// goroutines started by the configuration code ("go func() { for {
	// ProcessBlockRelease() } }()") inherit the spawner's process
	me := s.Cur()
	prevProc := me.Proc
	me.Proc = proc
	top := &pb.BlobAccessConfiguration{Backend: &pb.BlobAccessConfiguration_Local{Local: l}}
	if cfg.Demux {
		// every caller name N (also the empty one) is rewritten to tenant1/N on
		// the way in and restored on the way out: visibility between callers'
		// names must be exactly what it is without the demultiplexer
		top = &pb.BlobAccessConfiguration{Backend: &pb.BlobAccessConfiguration_Demultiplexing{Demultiplexing: &pb.DemultiplexingBlobAccessConfiguration{
			InstanceNamePrefixes: map[string]*pb.DemultiplexedBlobAccessConfiguration{"": {Backend: top, AddInstanceNamePrefix: "tenant1"}}}}}
		c.Count("probe_wconfig_demultiplexer", 1)
	}
	if cfg.ExistCache {
		// a decorator that keys by the digest key format the local backend
		// announces (BlobAccessInfo.DigestKeyFormat)
		top = &pb.BlobAccessConfiguration{Backend: &pb.BlobAccessConfiguration_ExistenceCaching{ExistenceCaching: &pb.ExistenceCachingBlobAccessConfiguration{
			Backend:        top,
			ExistenceCache: &digest_pb.ExistenceCacheConfiguration{CacheSize: 64, CacheDuration: durationpb.New(1000 * time.Second), CacheReplacementPolicy: eviction_pb.CacheReplacementPolicy_LEAST_RECENTLY_USED},
		}}}
		c.Count("probe_wconfig_existence_cache", 1)
	}
	var creator configuration.BlobAccessCreator = configuration.NewCASBlobAccessCreator(nil, 1<<20, nil)
	storageType := "cas"
	if cfg.AC {
		creator = configuration.NewACBlobAccessCreator(nil, nil, 1<<20)
		storageType = "ac"
		c.Count("probe_wconfig_action_cache", 1)
	}
	info, err := configuration.NewBlobAccessFromConfiguration(e.group, top, creator)
	me.Proc = prevProc
	if err != nil {
		e.restore()
		panic(sim.HarnessError{Msg: fmt.Sprintf("W-config: NewBlobAccessFromConfiguration failed: %v (cfg %s)", err, cfg)})
	}
	// (what the store announces is not judged here: instance-name visibility
	// is judged by behaviour)
	if cfg.AC && info.DigestKeyFormat != digest.KeyWithInstance {
		c.Count("note_ac_store_announces_key_without_instance", 1)
	}
	e.ba = info.BlobAccess
	if cfg.Disk {
		// the allocator's collectors: blocks re-attached at start-up are
		// counted as allocations by the code, so the value right after
		// construction is the base
		e.allocCounter = existingCounter("block_device_backed_block_allocator_allocations_total", "Number of times blocks managed by BlockDeviceBackedBlockAllocator were allocated", "storage_type", storageType)
		e.releaseCounter = existingCounter("block_device_backed_block_allocator_releases_total", "Number of times blocks managed by BlockDeviceBackedBlockAllocator were released", "storage_type", storageType)
		if e.allocCounter == nil || e.releaseCounter == nil {
			panic(sim.HarnessError{Msg: "W-config: allocator collectors not found"})
		}
		e.allocBase, e.releaseBase = counterValue(e.allocCounter), counterValue(e.releaseCounter)
	}
	return e
}

// collectorAllocations: blocks allocated with NewBlock since the store was
// built, read from the allocator's Prometheus collector (W-config, disk).
func (e *storeEnv) collectorAllocations() int {
	return int(counterValue(e.allocCounter) - e.allocBase)
}

func (e *storeEnv) collectorReleases() int {
	return int(counterValue(e.releaseCounter) - e.releaseBase)
}

// releases: has any block been rotated out since the store was built? For
// stores built from parts the recording allocator counts Release() calls. A
// configured store only has the allocator's collector, which moves when the
// last reference of a block is dropped - a reader that is still open defers
// it - so there a rotation is inferred from the allocation count as well:
// the block list pops its oldest block exactly when more blocks have been
// allocated than it can hold.
func (w *storeWorld) releases() int {
	if w.e.alloc == nil {
		n := w.e.collectorReleases()
		if over := w.allocs() - (w.cfg.Old + w.cfg.Cur + w.cfg.New); over > n {
			n = over
		}
		return n
	}
	return w.e.alloc.Releases
}
