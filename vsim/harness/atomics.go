package harness

import "vsim/sim"

// withAtomicYields (seam S5) runs a profile with the operations of
// sync/atomic in the rewritten packages as scheduling points: the
// compare-and-swap loop of the to-be-released counter, the allocator's use
// counts and the clone counter of reader-at buffers can then be interleaved
// with other goroutines between any two of their atomic operations. Separate
// profiles, so that the runs of the existing ones stay what they were.
func withAtomicYields(fn func(c *sim.RunCtx)) func(c *sim.RunCtx) {
	return func(c *sim.RunCtx) {
		c.AtomicYields = true
		fn(c)
	}
}
