package harness

import (
	"github.com/buildbarn/bb-storage/pkg/blobstore/local"
	"vsim/sim"
)

// c06Resolver is the harness's BlockReferenceResolver: an explicit list of
// live blocks numbered absolutely (block `released` is the oldest live one,
// block `pushed-1` the newest), and a list of epochs, each of which can
// reference the blocks up to the one that was newest when it was started.
// It follows the arithmetic of PersistentBlockList (several epochs per
// block, an epoch dies with its last block); the volatile list is the
// special case of one epoch per block.
type c06Epoch struct {
	lastAbs int
	seed    uint64
}

type c06Resolver struct {
	c             *sim.RunCtx
	seeds         func() uint64
	released      int // number of blocks released = absolute number of the oldest live block
	pushed        int // number of blocks ever created
	oldestEpochID uint32
	epochs        []c06Epoch
}

func newC06Resolver(c *sim.RunCtx, epoch0 uint32, seeds func() uint64) *c06Resolver {
	return &c06Resolver{c: c, seeds: seeds, oldestEpochID: epoch0}
}

func (r *c06Resolver) live() int { return r.pushed - r.released }

func (r *c06Resolver) latestLastAbs() int {
	if len(r.epochs) == 0 {
		return -1
	}
	return r.epochs[len(r.epochs)-1].lastAbs
}

func (r *c06Resolver) push() { r.pushed++ }

// newEpoch starts an epoch that can reference every block that exists now.
func (r *c06Resolver) newEpoch() {
	if r.live() == 0 {
		return
	}
	r.epochs = append(r.epochs, c06Epoch{lastAbs: r.pushed - 1, seed: r.seeds()})
}

// release drops the oldest block and every epoch whose last block it was.
func (r *c06Resolver) release() {
	if r.live() == 0 {
		panic(sim.HarnessError{Msg: "C06: release without a live block"})
	}
	n := 0
	for n < len(r.epochs) && r.epochs[n].lastAbs <= r.released {
		n++
	}
	r.epochs = r.epochs[n:]
	r.oldestEpochID += uint32(n)
	r.released++
}

func (r *c06Resolver) BlockReferenceToBlockIndex(ref local.BlockReference) (int, uint64, bool) {
	ei := ref.EpochID - r.oldestEpochID
	if ei >= uint32(len(r.epochs)) {
		return 0, 0, false
	}
	last := r.epochs[ei].lastAbs - r.released
	if int(ref.BlocksFromLast) > last {
		return 0, 0, false
	}
	return last - int(ref.BlocksFromLast), r.epochs[ei].seed, true
}

func (r *c06Resolver) BlockIndexToBlockReference(blockIndex int) (local.BlockReference, uint64) {
	if len(r.epochs) == 0 || blockIndex < 0 || blockIndex >= r.live() || r.released+blockIndex > r.latestLastAbs() {
		// "It is invalid to call this function with a block index that is out of bounds."
		r.c.Fail("invalid-block-index", "the record array asked for a reference to block index %d (live blocks: %d, newest referencable: %d)", blockIndex, r.live(), r.latestLastAbs()-r.released)
		return local.BlockReference{}, 0
	}
	e := r.epochs[len(r.epochs)-1]
	return local.BlockReference{
		EpochID:        r.oldestEpochID + uint32(len(r.epochs)-1),
		BlocksFromLast: uint16(e.lastAbs - r.released - blockIndex),
	}, e.seed
}
