package harness

import (
	"errors"
	"fmt"
	"strings"

	"github.com/buildbarn/bb-storage/pkg/blobstore/buffer"
	"github.com/buildbarn/bb-storage/pkg/blobstore/local"
	"github.com/prometheus/client_golang/prometheus"
	dto "github.com/prometheus/client_model/go"
	"vsim/sim"

	"google.golang.org/grpc/codes"
	rt "verifsimrt"
)

// ---- C06: index lookups are sound; entries are displaced oldest-first, never silently ----
//
// System under test: the real hashingKeyLocationMap over the real in-memory
// and block-device-backed record arrays (the latter on a simdisk). The only
// stub is the BlockReferenceResolver (c06_resolver.go), which keeps an
// explicit list of live blocks and releases the oldest first.
//
// Oracle: a transition oracle against a plain model (per key, the set of
// stored locations in absolute block numbers). After every operation the
// harness looks up every key of the universe and compares with what it
// observed before the operation (see (*c06World).put / release / neutral).

// c06Loc is a location in absolute terms: Abs is the number of the block
// counted from the beginning of the run (never reused), so it stays
// meaningful across releases, unlike Location.BlockIndex.
type c06Loc struct {
	Abs  int
	Off  int64
	Size int64
}

func (a c06Loc) older(b c06Loc) bool {
	return a.Abs < b.Abs || (a.Abs == b.Abs && a.Off < b.Off)
}
func (a c06Loc) sameAge(b c06Loc) bool { return a.Abs == b.Abs && a.Off == b.Off }
func (a c06Loc) String() string        { return fmt.Sprintf("b%d+%d/%d", a.Abs, a.Off, a.Size) }

// c06Res is one observed lookup result.
type c06Res struct {
	Found bool
	Loc   c06Loc
}

func (r c06Res) String() string {
	if !r.Found {
		return "-"
	}
	return r.Loc.String()
}

type c06Cfg struct {
	Dev      bool
	Size     int // recordsCount
	HashInit uint64
	MaxGet   int
	MaxPut   int
	Keys     int
	KeyMode  int // 0 simple, 1 tape bytes, 2 all keys collide on attempt 0
	Sector   int
	Epoch0   uint32
	BigOff   bool
}

func (g c06Cfg) String() string {
	be := "mem"
	if g.Dev {
		be = fmt.Sprintf("dev(sector=%d)", g.Sector)
	}
	return fmt.Sprintf("backend=%s table=%d hashinit=%#x get=%d put=%d keys=%d keymode=%d epoch0=%d bigoff=%v", be, g.Size, g.HashInit, g.MaxGet, g.MaxPut, g.Keys, g.KeyMode, g.Epoch0, g.BigOff)
}

// c06Array counts the record-array traffic of the map (observation only;
// every call is passed through to the real array).
type c06Array struct {
	inner      local.LocationRecordArray
	size       int
	gets, puts int
	c          *sim.RunCtx
	yields     bool // concurrent-lookups phase: scheduling points around every record read
}

func (a *c06Array) Get(i int) (local.LocationRecord, error) {
	a.gets++
	if i < 0 || i >= a.size {
		a.c.Fail("slot-out-of-range", "the map read record slot %d of a table of %d records", i, a.size)
		return local.LocationRecord{}, local.ErrLocationRecordInvalid
	}
	if a.yields {
		rt.Yield("array.Get")
		r, err := a.inner.Get(i)
		rt.Yield("array.Get.done")
		return r, err
	}
	return a.inner.Get(i)
}

func (a *c06Array) Put(i int, r local.LocationRecord) error {
	a.puts++
	if i < 0 || i >= a.size {
		a.c.Fail("slot-out-of-range", "the map wrote record slot %d of a table of %d records", i, a.size)
		return nil
	}
	return a.inner.Put(i, r)
}

// ---- metrics (the only channel through which discards are reported) ----

const (
	c06HelpPutIter    = "Number of iterations it took for Put()"
	c06HelpPutTooMany = "Number of times Put() discarded an entry, because it took the maximum number of iterations, which may indicate the hash table is too small"
	c06HelpGetAtt     = "Number of attempts it took for Get()"
	c06HelpGetTooMany = "Number of times Get() took the maximum number of attempts and still did not find the entry, which may indicate the hash table is too small"
)

type c06MetVals struct {
	Inserted, Updated, Ignored, TooManyAttempts uint64
	TooManyIterations, GetTooMany              uint64
}

func (v c06MetVals) discards() uint64 { return v.TooManyAttempts + v.TooManyIterations }

// c06Metrics reads the collectors of one storage_type label. The fast path
// obtains the very collectors bb-storage registered (by attempting to
// register a collector with an identical descriptor, which the registry
// answers with the existing one) and reads the single children; the slow
// path is a full Gather. Both observe the same objects.
type c06Metrics struct {
	label                                      string
	fast                                       bool
	hIns, hUpd, hIgn, hTooMany, cIter, cGetMax prometheus.Metric
}

func c06ExistingCollector(c prometheus.Collector) prometheus.Collector {
	err := prometheus.Register(c)
	var are prometheus.AlreadyRegisteredError
	if errors.As(err, &are) {
		return are.ExistingCollector
	}
	if err == nil {
		prometheus.Unregister(c)
	}
	return nil
}

// newC06Metrics must be called after at least one NewHashingKeyLocationMap
// (which registers the real collectors).
func newC06Metrics(label string) *c06Metrics {
	m := &c06Metrics{label: label}
	hv, _ := c06ExistingCollector(prometheus.NewHistogramVec(prometheus.HistogramOpts{Namespace: "buildbarn", Subsystem: "blobstore", Name: "hashing_key_location_map_put_iterations", Help: c06HelpPutIter}, []string{"storage_type", "outcome"})).(*prometheus.HistogramVec)
	ci, _ := c06ExistingCollector(prometheus.NewCounterVec(prometheus.CounterOpts{Namespace: "buildbarn", Subsystem: "blobstore", Name: "hashing_key_location_map_put_too_many_iterations_total", Help: c06HelpPutTooMany}, []string{"storage_type"})).(*prometheus.CounterVec)
	cg, _ := c06ExistingCollector(prometheus.NewCounterVec(prometheus.CounterOpts{Namespace: "buildbarn", Subsystem: "blobstore", Name: "hashing_key_location_map_get_too_many_attempts_total", Help: c06HelpGetTooMany}, []string{"storage_type"})).(*prometheus.CounterVec)
	if hv == nil || ci == nil || cg == nil {
		return m
	}
	asMetric := func(o interface{}) prometheus.Metric { x, _ := o.(prometheus.Metric); return x }
	m.hIns = asMetric(hv.WithLabelValues(label, "Inserted"))
	m.hUpd = asMetric(hv.WithLabelValues(label, "Updated"))
	m.hIgn = asMetric(hv.WithLabelValues(label, "IgnoredOlder"))
	m.hTooMany = asMetric(hv.WithLabelValues(label, "TooManyAttempts"))
	m.cIter = asMetric(ci.WithLabelValues(label))
	m.cGetMax = asMetric(cg.WithLabelValues(label))
	m.fast = m.hIns != nil && m.hUpd != nil && m.hIgn != nil && m.hTooMany != nil && m.cIter != nil && m.cGetMax != nil
	return m
}

func c06HistCount(m prometheus.Metric) uint64 {
	var d dto.Metric
	if m.Write(&d) != nil || d.Histogram == nil {
		return 0
	}
	return d.Histogram.GetSampleCount()
}

func c06CounterVal(m prometheus.Metric) uint64 {
	var d dto.Metric
	if m.Write(&d) != nil || d.Counter == nil {
		return 0
	}
	return uint64(d.Counter.GetValue())
}

func (m *c06Metrics) slow() c06MetVals {
	s := gatherMetrics()
	h := func(outcome string) uint64 {
		return uint64(s["buildbarn_blobstore_hashing_key_location_map_put_iterations,outcome="+outcome+",storage_type="+m.label+"_count"])
	}
	return c06MetVals{
		Inserted: h("Inserted"), Updated: h("Updated"), Ignored: h("IgnoredOlder"), TooManyAttempts: h("TooManyAttempts"),
		TooManyIterations: uint64(s["buildbarn_blobstore_hashing_key_location_map_put_too_many_iterations_total,storage_type="+m.label]),
		GetTooMany:        uint64(s["buildbarn_blobstore_hashing_key_location_map_get_too_many_attempts_total,storage_type="+m.label]),
	}
}

// read returns the current values; with full == false only the two discard
// collectors are read (the others only feed coverage probes).
func (m *c06Metrics) read(full bool) c06MetVals {
	if !m.fast {
		return m.slow()
	}
	if !full {
		return c06MetVals{TooManyAttempts: c06HistCount(m.hTooMany), TooManyIterations: c06CounterVal(m.cIter)}
	}
	return c06MetVals{
		Inserted: c06HistCount(m.hIns), Updated: c06HistCount(m.hUpd), Ignored: c06HistCount(m.hIgn), TooManyAttempts: c06HistCount(m.hTooMany),
		TooManyIterations: c06CounterVal(m.cIter), GetTooMany: c06CounterVal(m.cGetMax),
	}
}

var c06MetricsCache = map[string]*c06Metrics{}
var c06RunCounter int

// ---- world ----

type c06World struct {
	c    *sim.RunCtx
	cfg  c06Cfg
	rs   *c06Resolver
	disk *sim.Disk
	arr  *c06Array
	klm  local.KeyLocationMap
	met  *c06Metrics
	keys []local.Key

	stored   [][]c06Loc // per key: every location ever stored (model)
	obs      []c06Res   // per key: result observed after the previous operation
	cursor   []int64    // per absolute block: allocation cursor
	discards int        // discards reported so far in this world
	quiet    bool       // no notes (exhaustive prologue)
	history  []c06HistOp // operations so far (for messages)

	lastMet      c06MetVals // metric values after the previous checked store
	lastMetValid bool

	// device-fault runs: read/write errors of the index device while the map
	// operation itself runs (never during the oracle's own lookups)
	df *sim.DiskFaults
}

func (w *c06World) ioErrs() int {
	if w.disk == nil {
		return 0
	}
	return w.disk.ReadErrs + w.disk.WriteErrs
}

func (w *c06World) faultsOn(on bool) {
	if w.disk != nil && w.df != nil {
		if on {
			w.disk.Faults = w.df
		} else {
			w.disk.Faults = nil
		}
	}
}

// rebaseline re-reads every key after an operation that failed with an I/O
// error: a failed store may have lost what it had in flight (reported, not
// silent), so only soundness is required of what lookups return now.
func (w *c06World) rebaseline() {
	w.discards++ // (no longer "newest or nothing": relaxed like after a reported discard)
	w.lastMetValid = false
	for j := range w.keys {
		r, ok := w.lookup(j)
		if !ok {
			return
		}
		w.obs[j] = r
	}
}

// getFaulted: a lookup under device faults returns what a fault-free lookup
// returns, or an error that is not NOT_FOUND.
func (w *c06World) getFaulted(k int) {
	e0 := w.ioErrs()
	w.faultsOn(true)
	loc, err := w.klm.Get(w.keys[k])
	w.faultsOn(false)
	fired := w.ioErrs() > e0
	if err != nil && Code(err) != codes.NotFound {
		if !fired {
			w.c.Fail("unexpected-error", "Get(key %d) returned %v although no I/O fault was injected %s", k, err, w.desc())
			return
		}
		w.c.Count("probe_get_failed_on_io_error", 1)
		return
	}
	var r c06Res
	if err == nil {
		r = c06Res{true, c06Loc{Abs: w.rs.released + loc.BlockIndex, Off: loc.OffsetBytes, Size: loc.SizeBytes}}
	}
	if r != w.obs[k] {
		what := "no I/O fault was injected"
		if fired {
			what = "an I/O error of the index device was swallowed"
		}
		w.c.Fail("io-error-changed-lookup", "Get(key %d) = %s although a fault-free lookup returns %s: %s %s", k, r, w.obs[k], what, w.desc())
		return
	}
	if fired {
		w.c.Count("probe_get_correct_despite_io_error", 1)
	}
}

type c06HistOp struct {
	Kind  byte // 'p' store, 'r' release, 'b' new block, 'B' new block with epoch, 'e' new epoch
	Key   int
	Loc   c06Loc
	Block int
}

func (o c06HistOp) String() string {
	switch o.Kind {
	case 'p':
		return fmt.Sprintf("put k%d %s", o.Key, o.Loc)
	case 'r':
		return fmt.Sprintf("release b%d", o.Block)
	case 'b':
		return fmt.Sprintf("push b%d epoch=false", o.Block)
	case 'B':
		return fmt.Sprintf("push b%d epoch=true", o.Block)
	}
	return "new epoch"
}

// c06FNV is an independent reimplementation of the record-key hash, used
// ONLY to generate colliding keys (never by the oracle).
func c06FNV(k local.Key, attempt uint32, init uint64) uint64 {
	h := init
	for _, c := range k {
		h ^= uint64(c)
		h *= 1099511628211
	}
	for i := 0; i < 4; i++ {
		h ^= uint64(attempt & 0xff)
		h *= 1099511628211
		attempt >>= 8
	}
	return h
}

func c06MakeKeys(cfg c06Cfg, t *sim.Tape) []local.Key {
	keys := make([]local.Key, cfg.Keys)
	for i := range keys {
		var k local.Key
		switch cfg.KeyMode {
		case 1:
			copy(k[:], t.Bytes(4))
			k[31] = byte(i + 1)
		case 2:
			// all keys share the attempt-0 slot of key 0
			for n := 0; n < 4096; n++ {
				k = local.Key{}
				k[0], k[1], k[31] = byte(n), byte(n>>8), byte(i+1)
				if i == 0 || c06FNV(k, 0, cfg.HashInit)%uint64(cfg.Size) == c06FNV(keys[0], 0, cfg.HashInit)%uint64(cfg.Size) {
					break
				}
			}
		default:
			k[0] = byte(i + 1)
		}
		keys[i] = k
	}
	return keys
}

func newC06World(c *sim.RunCtx, cfg c06Cfg, keys []local.Key, seeds func() uint64) *c06World {
	return newC06WorldResolvedBy(c, cfg, keys, seeds, nil)
}

// newC06WorldResolvedBy: with a non-nil resolver the record arrays resolve
// block references through it (a real block list of the repository); the
// harness resolver then only keeps the absolute block numbering.
func newC06WorldResolvedBy(c *sim.RunCtx, cfg c06Cfg, keys []local.Key, seeds func() uint64, resolver local.BlockReferenceResolver) *c06World {
	w := &c06World{c: c, cfg: cfg, keys: keys, history: make([]c06HistOp, 0, 12)}
	w.rs = newC06Resolver(c, cfg.Epoch0, seeds)
	if resolver == nil {
		resolver = w.rs
	}
	var inner local.LocationRecordArray
	label := "c06mem"
	if cfg.Dev {
		label = "c06dev"
		bytes := int64(cfg.Size) * local.BlockDeviceBackedLocationRecordSize
		sectors := (bytes + int64(cfg.Sector) - 1) / int64(cfg.Sector)
		w.disk = sim.NewDisk("index", cfg.Sector, sectors)
		inner = local.NewBlockDeviceBackedLocationRecordArray(w.disk, resolver)
	} else {
		inner = local.NewInMemoryLocationRecordArray(cfg.Size, resolver)
	}
	w.arr = &c06Array{inner: inner, size: cfg.Size, c: c}
	w.klm = local.NewHashingKeyLocationMap(w.arr, cfg.Size, cfg.HashInit, uint32(cfg.MaxGet), cfg.MaxPut, label)
	w.met = c06MetricsCache[label]
	if w.met == nil {
		w.met = newC06Metrics(label)
		c06MetricsCache[label] = w.met
	}
	w.stored = make([][]c06Loc, len(keys))
	w.obs = make([]c06Res, len(keys))
	return w
}

func (w *c06World) note(format string, a ...interface{}) {
	if !w.quiet {
		w.c.Note(format, a...)
	}
}

func (w *c06World) desc() string {
	var h []string
	for _, o := range w.history {
		h = append(h, o.String())
	}
	return fmt.Sprintf("[%s] ops: %s", w.cfg, strings.Join(h, "; "))
}

func (w *c06World) toLocation(l c06Loc) local.Location {
	return local.Location{BlockIndex: l.Abs - w.rs.released, OffsetBytes: l.Off, SizeBytes: l.Size}
}

func (w *c06World) isStored(k int, l c06Loc) bool {
	for _, s := range w.stored[k] {
		if s == l {
			return true
		}
	}
	return false
}

// best returns the newest live stored location of key k (by the store's own
// age order); ties are reported through the second result.
func (w *c06World) best(k int) (c06Res, []c06Loc) {
	var r c06Res
	var ties []c06Loc
	for _, s := range w.stored[k] {
		if s.Abs < w.rs.released {
			continue
		}
		switch {
		case !r.Found || r.Loc.older(s):
			r = c06Res{true, s}
			ties = ties[:0]
			ties = append(ties, s)
		case r.Loc.sameAge(s):
			ties = append(ties, s)
		}
	}
	return r, ties
}

// lookup performs Get(k) and checks the part of the property that holds for
// every single lookup: nothing, or a location stored for exactly that key in
// a block that has not been released.
func (w *c06World) lookup(k int) (c06Res, bool) {
	loc, err := w.klm.Get(w.keys[k])
	if err != nil {
		if Code(err) != codes.NotFound {
			w.c.Fail("unexpected-error", "Get(key %d) returned %v although no I/O fault was injected %s", k, err, w.desc())
			return c06Res{}, false
		}
		return c06Res{}, true
	}
	if loc.BlockIndex < 0 || loc.BlockIndex >= w.rs.live() {
		w.c.Fail("released-location", "Get(key %d) returned block index %d but only %d blocks are live %s", k, loc.BlockIndex, w.rs.live(), w.desc())
		return c06Res{}, false
	}
	r := c06Res{true, c06Loc{Abs: w.rs.released + loc.BlockIndex, Off: loc.OffsetBytes, Size: loc.SizeBytes}}
	if !w.isStored(k, r.Loc) {
		owner := -1
		for j := range w.stored {
			if j != k && w.isStored(j, r.Loc) {
				owner = j
			}
		}
		if owner >= 0 {
			w.c.Fail("wrong-key-location", "Get(key %d) returned %s, which was stored for key %d but never for key %d %s", k, r, owner, k, w.desc())
		} else {
			w.c.Fail("never-stored-location", "Get(key %d) returned %s, which was never stored for any key (stored for this key: %v) %s", k, r, w.stored[k], w.desc())
		}
		return r, false
	}
	return r, true
}

// strictNewest: as long as the index has not reported a single discard,
// every lookup must return the newest live stored location of its key.
func (w *c06World) strictNewest(k int, r c06Res, after c06HistOp) bool {
	if w.discards > 0 {
		return true
	}
	b, ties := w.best(k)
	ok := r.Found == b.Found
	if ok && r.Found {
		ok = false
		for _, t := range ties {
			if t == r.Loc {
				ok = true
			}
		}
	}
	if !ok {
		w.c.Fail("not-newest", "after %s, with no discard reported so far, Get(key %d) = %s but the newest live stored location is %s %s", after, k, r, b, w.desc())
	}
	return ok
}

// put performs Put(k, l) and the transition oracle.
func (w *c06World) put(k int, l c06Loc, checked bool) {
	opDesc := c06HistOp{Kind: 'p', Key: k, Loc: l}
	w.history = append(w.history, opDesc)
	if l.Abs > w.rs.latestLastAbs() {
		// the real block lists start a new epoch before a block can be referenced
		w.rs.newEpoch()
	}
	var before c06MetVals
	if checked {
		if w.lastMetValid {
			before = w.lastMet
		} else {
			before = w.met.read(!w.quiet)
		}
	}
	w.lastMetValid = false
	p0 := w.arr.puts
	e0 := w.ioErrs()
	w.faultsOn(true)
	err := w.klm.Put(w.keys[k], w.toLocation(l))
	w.faultsOn(false)
	if !w.isStored(k, l) {
		w.stored[k] = append(w.stored[k], l)
	}
	if !checked || w.c.Failed() {
		return
	}
	if w.ioErrs() > e0 {
		w.c.Count("fault_index_device_io_error", w.ioErrs()-e0)
		if err != nil {
			// reported to the caller: nothing silent about it
			w.c.Count("probe_put_failed_on_io_error", 1)
			w.rebaseline()
			return
		}
		// the store claims success: the transition oracle applies in full
		w.c.Count("probe_put_succeeded_despite_io_error", 1)
	}
	if err != nil {
		w.c.Fail("unexpected-error", "Put(key %d, %s) returned %v although no I/O fault was injected %s", k, l, err, w.desc())
		return
	}
	after := w.met.read(!w.quiet)
	w.lastMet, w.lastMetValid = after, true
	D := int(after.discards() - before.discards())
	w.discards += D
	arrayPuts := w.arr.puts - p0
	c := w.c
	if D > 0 {
		c.Count("probe_discard_reported", D)
		if after.TooManyAttempts > before.TooManyAttempts {
			c.Count("probe_discard_too_many_attempts", 1)
		} else {
			c.Count("probe_discard_too_many_iterations", 1)
		}
	}
	if arrayPuts >= 2 {
		c.Count("probe_displacement", 1)
	}
	if after.Ignored > before.Ignored {
		c.Count("probe_put_ignored_older", 1)
	}
	if after.Updated > before.Updated {
		c.Count("probe_put_updated", 1)
	}
	changed := 0
	var results []string
	for j := range w.keys {
		r, ok := w.lookup(j)
		if !ok {
			return
		}
		prev := w.obs[j]
		w.obs[j] = r
		if !w.quiet {
			results = append(results, r.String())
		}
		if j != k {
			if r == prev {
				continue
			}
			changed++
			// "unchanged, except that ... a key may fall back to an older location or to nothing"
			if !prev.Found || (r.Found && !r.Loc.older(prev.Loc)) {
				c.Fail("other-key-changed", "%s changed Get(key %d) from %s to %s, which is not a fall-back to an older location %s", opDesc, j, prev, r, w.desc())
				return
			}
			// "a discarded entry is never newer than the entry being stored"
			if l.older(prev.Loc) {
				c.Fail("newer-entry-lost", "%s made key %d lose %s (now %s), which is newer than the entry being stored %s", opDesc, j, prev.Loc, r, w.desc())
				return
			}
			if r.Found {
				c.Count("probe_fallback_to_older", 1)
			} else {
				c.Count("probe_fallback_to_nothing", 1)
			}
			continue
		}
		// the key being stored
		switch {
		case !prev.Found || prev.Loc.older(l):
			if r == (c06Res{true, l}) {
				continue
			}
		case prev.Loc.sameAge(l):
			if r == prev || r == (c06Res{true, l}) {
				continue
			}
		default: // the index already returns a newer location for this key
			c.Count("probe_put_out_of_order_same_key", 1)
			if r == prev {
				continue
			}
			c.Fail("newer-entry-lost", "%s (an older location) changed Get(key %d) from the newer %s to %s %s", opDesc, k, prev, r, w.desc())
			return
		}
		// the new entry is not what is returned: only admissible as the
		// victim of a reported discard, falling back to something older
		changed++
		if r.Found && !r.Loc.older(l) {
			c.Fail("stored-key-wrong", "after %s Get(key %d) = %s (before: %s) %s", opDesc, k, r, prev, w.desc())
			return
		}
		c.Count("probe_new_entry_discarded", 1)
	}
	w.note("%s D=%d w=%d -> %s", opDesc, D, arrayPuts, strings.Join(results, " "))
	if changed > D {
		c.Fail("silent-loss", "%s: %d key(s) lost their entry or fell back but the metrics report %d discard(s) (lookups now: %v) %s", opDesc, changed, D, w.obs, w.desc())
		return
	}
	if changed > 0 {
		c.Count("probe_discard_visible", 1)
	}
	for j := range w.keys {
		if !w.strictNewest(j, w.obs[j], opDesc) {
			return
		}
	}
}

// release releases the oldest block and checks that exactly the entries
// pointing into it disappear.
func (w *c06World) release(checked bool) {
	gone := w.rs.released
	opDesc := c06HistOp{Kind: 'r', Block: gone}
	w.history = append(w.history, opDesc)
	w.rs.release()
	if !checked || w.c.Failed() {
		return
	}
	w.c.Count("fault_block_release", 1)
	var results []string
	removed := 0
	for j := range w.keys {
		r, ok := w.lookup(j)
		if !ok {
			return
		}
		prev := w.obs[j]
		w.obs[j] = r
		if !w.quiet {
			results = append(results, r.String())
		}
		if prev.Found && prev.Loc.Abs == gone {
			// lookup() has established that r is nothing or a live stored location of j
			removed++
			if r.Found {
				w.c.Count("probe_release_fallback", 1)
			}
			continue
		}
		if r != prev {
			w.c.Fail("release-removed-other", "releasing block b%d changed Get(key %d) from %s to %s, which did not point into the released block %s", gone, j, prev, r, w.desc())
			return
		}
	}
	w.note("release b%d -> %s", gone, strings.Join(results, " "))
	if removed > 0 {
		w.c.Count("probe_release_removed_entries", 1)
	}
	for j := range w.keys {
		if !w.strictNewest(j, w.obs[j], opDesc) {
			return
		}
	}
}

// neutral performs an operation of the resolver that is neither a store nor
// a release (new block, new epoch) and checks that no lookup changes.
func (w *c06World) neutral(what c06HistOp, f func(), checked bool) {
	w.history = append(w.history, what)
	f()
	if !checked || w.c.Failed() {
		return
	}
	for j := range w.keys {
		r, ok := w.lookup(j)
		if !ok {
			return
		}
		if r != w.obs[j] {
			w.c.Fail("changed-without-store-or-release", "%s changed Get(key %d) from %s to %s %s", what, j, w.obs[j], r, w.desc())
			return
		}
	}
	w.note("%s", what)
}

func (w *c06World) push(epoch bool, checked bool) {
	kind := byte('b')
	if epoch {
		kind = 'B'
	}
	w.neutral(c06HistOp{Kind: kind, Block: w.rs.pushed}, func() {
		w.rs.push()
		w.cursor = append(w.cursor, 0)
		if epoch {
			w.rs.newEpoch()
		}
	}, checked)
}

// crossCheckMetrics compares the fast reading with a full Gather.
func (w *c06World) crossCheckMetrics() {
	if w.met.fast {
		if a, b := w.met.read(true), w.met.slow(); a != b {
			panic(sim.HarnessError{Msg: fmt.Sprintf("C06: fast metric reading %+v differs from gathered %+v", a, b)})
		}
	}
}

// ---- random profile ----

var c06Sizes = []int{3, 1, 2, 5, 7, 4, 11, 13, 17, 23, 31}

// c06U64 draws 64 bits (tape values are 32 bits wide, so in four parts).
func c06U64(t *sim.Tape) uint64 {
	var v uint64
	for i := 0; i < 4; i++ {
		v = v<<16 | uint64(t.Choose(1<<16))
	}
	return v
}

func drawC06Cfg(t *sim.Tape) c06Cfg {
	var g c06Cfg
	g.Dev = t.Chance(1, 2)
	if t.Chance(1, 4) {
		g.Size = t.Range(1, 31)
	} else {
		g.Size = c06Sizes[t.Choose(len(c06Sizes))]
	}
	switch t.Pick(2, 1, 3) {
	case 0:
		g.HashInit = 14695981039346656037
	case 1:
		g.HashInit = 0
	default:
		g.HashInit = c06U64(t)
	}
	g.MaxGet = t.Range(1, 8)
	g.MaxPut = t.Range(1, 16)
	g.Keys = t.Range(2, 12)
	g.KeyMode = t.Pick(3, 2, 2)
	g.Sector = []int{512, 1, 8, 16, 32, 64}[t.Choose(6)]
	g.Epoch0 = []uint32{1, 2, 1000, 70000, 4000000000, 4294967294, 4294967295}[t.Choose(7)] // the last two make the epoch counter wrap through 0 during the run
	g.BigOff = t.Chance(1, 5)
	return g
}

func c06Random(c *sim.RunCtx) { c06RandomOpt(c, false) }

// c06ConcurrentLookups: the random profile followed by a phase in which 2-3
// simulated goroutines look up every key at the same time, as callers holding
// the store's read lock do. Nothing is stored or released meanwhile, so every
// lookup must return what the same lookup returned sequentially after the
// last operation. Record reads and device transfers are scheduling points
// before and after (fine-grained run), so state a lookup keeps outside its
// own frame is exposed.
func c06ConcurrentLookups(c *sim.RunCtx) {
	c.AtomicYields = true
	c06RandomOpt(c, true)
}

func c06RandomOpt(c *sim.RunCtx, concurrent bool) {
	t := c.T.Plan
	cfg := drawC06Cfg(t)
	keys := c06MakeKeys(cfg, t)
	maxLive := t.Range(1, 5)
	nOps := t.Range(8, 90)
	c.Sample["case"] = fmt.Sprintf("%s maxlive=%d ops=%d", cfg, maxLive, nOps)
	c06RunCounter++
	c.Sim(sim.SimOpts{MaxSteps: 1000000}, func(s *rt.Sched) {
		c.Note("case %s maxlive=%d ops=%d", cfg, maxLive, nOps)
		w := newC06World(c, cfg, keys, func() uint64 { return c06U64(t) })
		if cfg.Dev && t.Chance(1, 3) {
			w.df = &sim.DiskFaults{ReadErr: []int{20, 60}[t.Choose(2)], WriteErr: []int{0, 30}[t.Choose(2)], T: c.T.Fault}
			c.Count("c06_runs_dev_faults", 1)
		}
		stride := int64(1)
		if cfg.BigOff {
			stride = 0x100000001
		}
		var all []c06Loc // every location handed out, in order
		for i, n := 0, t.Range(1, maxLive); i < n; i++ {
			w.push(i == 0 || t.Chance(1, 2), true)
		}
		lastKey := 0
		for i := 0; i < nOps && !c.Failed(); i++ {
			switch t.Pick(14, 2, 1, 1, 3) {
			case 4: // a lookup, under device faults in the fault runs
				w.getFaulted(t.Choose(cfg.Keys))
			case 0: // store
				k := t.Choose(cfg.Keys)
				if t.Chance(1, 6) {
					k = lastKey
				}
				lastKey = k
				newest := w.rs.pushed - 1
				var l c06Loc
				kind := t.Pick(6, 3, 2, 2)
				if kind == 3 {
					// a location handed out before (possibly to another key), still live
					var live []c06Loc
					for _, x := range all {
						if x.Abs >= w.rs.released {
							live = append(live, x)
						}
					}
					if len(live) == 0 {
						kind = 0
					} else {
						l = live[t.Choose(len(live))]
						if t.Chance(1, 3) {
							l.Size = int64(t.Choose(4)) * stride
						}
						c.Count("probe_put_equal_location", 1)
					}
				}
				switch kind {
				case 0, 1:
					b := newest
					if kind == 1 {
						b = w.rs.released + t.Choose(w.rs.live())
					}
					size := int64(t.Choose(5))
					l = c06Loc{Abs: b, Off: w.cursor[b] * stride, Size: size * stride}
					w.cursor[b] += size
				case 2:
					b := w.rs.released + t.Choose(w.rs.live())
					l = c06Loc{Abs: b, Off: int64(t.Choose(int(w.cursor[b])+3)) * stride, Size: int64(t.Choose(4)) * stride}
					c.Count("probe_put_out_of_order", 1)
				}
				all = append(all, l)
				w.put(k, l, true)
			case 1: // release the oldest block
				w.release(true)
				if !c.Failed() && w.rs.live() == 0 {
					w.push(t.Chance(1, 2), true)
				}
			case 2: // rotate: a new block (releasing the oldest one when full)
				if w.rs.live() >= maxLive {
					w.release(true)
				}
				if !c.Failed() {
					w.push(t.Chance(1, 2), true)
				}
			case 3:
				w.neutral(c06HistOp{Kind: 'e'}, w.rs.newEpoch, true)
			}
		}
		if c06RunCounter%64 == 1 {
			w.crossCheckMetrics()
		}
		if concurrent && !c.Failed() && w.df == nil {
			w.faultsOn(false)
			for j := range w.keys { // sequential baseline, taken now
				r, ok := w.lookup(j)
				if !ok {
					return
				}
				w.obs[j] = r
			}
			w.arr.yields = true
			n, done := 2+t.Choose(2), 0
			for g := 0; g < n; g++ {
				order := make([]int, 0, 2*len(w.keys))
				for i := 0; i < 2*len(w.keys); i++ {
					order = append(order, t.Choose(len(w.keys)))
				}
				g := g
				s.Go("lookup", func() {
					defer func() { done++ }()
					for _, j := range order {
						if c.Failed() {
							return
						}
						r, ok := w.lookup(j)
						if !ok {
							return
						}
						if r != w.obs[j] {
							c.Fail("concurrent-lookup-differs", "Get(key %d) by concurrent reader %d returned %s, sequentially (nothing was stored or released since) it returns %s %s", j, g, r, w.obs[j], w.desc())
							return
						}
					}
				})
			}
			s.WaitUntil("concurrent lookups", func() bool { return done == n })
			w.arr.yields = false
			c.Count("probe_concurrent_lookups", 1)
		}
		c.Stats["c06_ops"] += len(w.history)
		if cfg.Dev {
			c.Stats["c06_runs_dev"]++
		} else {
			c.Stats["c06_runs_mem"]++
		}
	})
	if c.Stats["probe_displacement"] > 0 || c.Stats["probe_discard_reported"] > 0 || c.Stats["probe_release_removed_entries"] > 0 || c.Stats["probe_put_ignored_older"] > 0 {
		c.Nontrivial = true
	}
}

// ---- real block lists as resolvers ----
//
// The index's "block which has not been released" is decided by the
// BlockReferenceResolver the record array is given. In the repository that is
// a block list (volatile or persistent): here the real lists resolve the
// references, driven through their own API (PushBack, PopFront, Put with its
// finalizer - which is what starts epochs in the persistent list -, sync
// notifications), over the in-memory block allocator. The transition oracle
// is the same as in the random profile; the harness resolver only keeps the
// absolute block numbering.
func c06RealLists(c *sim.RunCtx) {
	t := c.T.Plan
	cfg := drawC06Cfg(t)
	cfg.BigOff = false
	keys := c06MakeKeys(cfg, t)
	persistent := t.Chance(1, 2)
	maxLive := t.Range(1, 5)
	nOps := t.Range(8, 70)
	c.Sample["case"] = fmt.Sprintf("%s real-list persistent=%v maxlive=%d ops=%d", cfg, persistent, maxLive, nOps)
	c.Sim(sim.SimOpts{MaxSteps: 1000000}, func(s *rt.Sched) {
		c.Note("case %s real-list persistent=%v maxlive=%d ops=%d", cfg, persistent, maxLive, nOps)
		const blockSize = 64
		alloc := local.NewInMemoryBlockAllocator(blockSize)
		var bl local.BlockList
		var pbl *local.PersistentBlockList
		if persistent {
			pbl, _ = local.NewPersistentBlockList(alloc, cfg.Epoch0, nil)
			bl = pbl
		} else {
			bl = local.NewVolatileBlockList(alloc)
		}
		restore := installDetRandom(int64(c06U64(t) >> 1))
		defer restore()
		w := newC06WorldResolvedBy(c, cfg, keys, func() uint64 { return 0 }, bl)
		push := func() {
			if err := bl.PushBack(); err != nil {
				panic(sim.HarnessError{Msg: "C06 real lists: PushBack failed: " + err.Error()})
			}
			w.push(false, true)
		}
		release := func() {
			bl.PopFront()
			w.release(true)
		}
		for i, n := 0, t.Range(1, maxLive); i < n; i++ {
			push()
		}
		var all []c06Loc
		lastKey := 0
		for i := 0; i < nOps && !c.Failed(); i++ {
			switch t.Pick(12, 2, 2, 2, 3) {
			case 0: // store: write through the block list (its finalizer starts epochs), then index the location
				k := t.Choose(cfg.Keys)
				if t.Chance(1, 6) {
					k = lastKey
				}
				lastKey = k
				var l c06Loc
				if len(all) > 0 && t.Chance(1, 6) {
					// a location handed out before (possibly to another key), still live
					var live []c06Loc
					for _, x := range all {
						if x.Abs >= w.rs.released {
							live = append(live, x)
						}
					}
					if len(live) > 0 {
						l = live[t.Choose(len(live))]
						c.Count("probe_put_equal_location", 1)
						w.put(k, l, true)
						continue
					}
				}
				idx := w.rs.live() - 1
				if t.Chance(1, 3) {
					idx = t.Choose(w.rs.live())
				}
				size := int64(t.Choose(5))
				if !bl.HasSpace(idx, size) {
					continue
				}
				data := make([]byte, size)
				off, err := bl.Put(idx, size)(buffer.NewValidatedBufferFromByteSlice(data))()
				if err != nil {
					panic(sim.HarnessError{Msg: "C06 real lists: block Put failed: " + err.Error()})
				}
				l = c06Loc{Abs: w.rs.released + idx, Off: off, Size: size}
				all = append(all, l)
				c.Count("probe_real_list_store", 1)
				w.put(k, l, true)
			case 1:
				release()
				if !c.Failed() && w.rs.live() == 0 {
					push()
				}
			case 2:
				if w.rs.live() >= maxLive {
					release()
				}
				if !c.Failed() {
					push()
				}
			case 3:
				if pbl != nil {
					// a sync round: later writes start new epochs
					w.neutral(c06HistOp{Kind: 'e'}, func() {
						pbl.NotifySyncStarting(false)
						pbl.NotifySyncCompleted()
					}, true)
					c.Count("probe_real_list_sync_round", 1)
				}
			case 4:
				w.getFaulted(t.Choose(cfg.Keys))
			}
		}
		if persistent {
			c.Stats["c06_runs_real_persistent"]++
		} else {
			c.Stats["c06_runs_real_volatile"]++
		}
	})
	c.Nontrivial = true
}

// ---- exhaustive prologue ----
//
// For every listed (table size <= 5, get attempts, put attempts) and both
// backends, with 3 keys and 2 live blocks: ALL sequences of up to
// c06ExhDepth operations over the alphabet
//   N0 N1 N2  store key i at the next free offset of the newest block
//   O0 O1 O2  store key i at offset 0 of the oldest live block (out of
//             order, and an equal location under different keys)
//   R         rotate: release the oldest block, then add a new one
// are executed and checked with the same transition oracle. The in-memory
// backend is re-executed from scratch for every prefix (its state cannot be
// snapshotted from outside); the device backend is explored depth-first
// with snapshots of the device image and the resolver.

const c06ExhOps = 7

var c06ExhNames = []string{"N0", "N1", "N2", "O0", "O1", "O2", "R"}

type c06ExhCfg struct{ Size, MaxGet, MaxPut, DepthMem, DepthDev int }

// c06ExhConfigs: quick tier = 25 configurations to depth 5 on both backends
// and 3 of them to depth 6 on the device backend (which is explored with
// snapshots and therefore cheaper); thorough tier = 45 configurations to
// depth 6 on both backends.
func c06ExhConfigs(tier string) []c06ExhCfg {
	var out []c06ExhCfg
	for size := 1; size <= 5; size++ {
		if tier == "thorough" {
			for _, gp := range [][2]int{{1, 1}, {2, 1}, {1, 2}, {2, 2}, {2, 3}, {3, 2}, {3, 3}, {3, 4}, {4, 6}} {
				out = append(out, c06ExhCfg{size, gp[0], gp[1], 6, 6})
			}
			continue
		}
		for _, gp := range [][2]int{{1, 1}, {2, 2}, {3, 2}, {3, 4}, {4, 6}} {
			ec := c06ExhCfg{size, gp[0], gp[1], 5, 5}
			if (size == 2 && gp == [2]int{2, 2}) || (size == 3 && gp == [2]int{3, 4}) || (size == 5 && gp == [2]int{3, 4}) {
				ec.DepthDev = 6
			}
			out = append(out, ec)
		}
	}
	return out
}

func (w *c06World) exhInit() {
	w.quiet = true
	w.push(true, false)
	w.push(true, false)
}

func (w *c06World) exhApply(op int, checked bool) {
	switch {
	case op < 3:
		b := w.rs.pushed - 1
		l := c06Loc{Abs: b, Off: w.cursor[b], Size: 1}
		w.cursor[b]++
		w.put(op, l, checked)
	case op < 6:
		w.put(op-3, c06Loc{Abs: w.rs.released, Off: 0, Size: 2}, checked)
	default:
		w.release(checked)
		if !w.c.Failed() {
			w.push(true, checked)
		}
	}
}

func c06Exhaustive(c *sim.RunCtx) {
	nodes := 0
	seeds := func() uint64 { return 0x9e3779b97f4a7c15 }
	c.Sim(sim.SimOpts{MaxSteps: 1 << 30}, func(s *rt.Sched) {
		for _, ec := range c06ExhConfigs(c.Tier) {
			for _, dev := range []bool{false, true} {
				cfg := c06Cfg{Dev: dev, Size: ec.Size, HashInit: 14695981039346656037, MaxGet: ec.MaxGet, MaxPut: ec.MaxPut, Keys: 3, Sector: 16, Epoch0: 1}
				keys := c06MakeKeys(cfg, nil)
				if !dev {
					var rec func(prefix []int, obs []c06Res, discards int)
					rec = func(prefix []int, obs []c06Res, discards int) {
						if len(prefix) == ec.DepthMem {
							return
						}
						for op := 0; op < c06ExhOps && !c.Failed(); op++ {
							w := newC06World(c, cfg, keys, seeds)
							w.exhInit()
							for _, p := range prefix {
								w.exhApply(p, false)
							}
							copy(w.obs, obs)
							w.discards = discards
							w.exhApply(op, true)
							nodes++
							if c.Failed() {
								return
							}
							rec(append(prefix[:len(prefix):len(prefix)], op), w.obs, w.discards)
						}
					}
					rec(nil, make([]c06Res, 3), 0)
				} else {
					w := newC06World(c, cfg, keys, seeds)
					w.disk.NoYield = true
					w.exhInit()
					var rec func(depth int)
					rec = func(depth int) {
						if depth == ec.DepthDev {
							return
						}
						for op := 0; op < c06ExhOps && !c.Failed(); op++ {
							snap := w.snapshot()
							w.exhApply(op, true)
							nodes++
							if c.Failed() {
								return
							}
							rec(depth + 1)
							w.restore(snap)
						}
					}
					rec(0)
				}
				if c.Failed() {
					c.Sample["exhaustive_nodes"] = nodes
					return
				}
			}
		}
		w := newC06World(c, c06Cfg{Size: 1, MaxGet: 1, MaxPut: 1, Keys: 1, Epoch0: 1, HashInit: 1}, c06MakeKeys(c06Cfg{Keys: 1}, nil), seeds)
		w.crossCheckMetrics()
	})
	c.Note("exhaustive nodes=%d", nodes)
	c.Stats["exhaustive_cases"] = nodes
	c.Sample["exhaustive_cases"] = nodes
	c.Nontrivial = true
}

type c06Snap struct {
	img      []byte
	rs       c06Resolver
	epochs   []c06Epoch
	stored   [][]c06Loc
	obs      []c06Res
	cursor   []int64
	discards int
	hist     int
}

func (w *c06World) snapshot() *c06Snap {
	sn := &c06Snap{img: append([]byte{}, w.disk.Visible()...), rs: *w.rs, epochs: append([]c06Epoch{}, w.rs.epochs...),
		obs: append([]c06Res{}, w.obs...), cursor: append([]int64{}, w.cursor...), discards: w.discards, hist: len(w.history)}
	for _, s := range w.stored {
		sn.stored = append(sn.stored, s[:len(s):len(s)])
	}
	return sn
}

func (w *c06World) restore(sn *c06Snap) {
	copy(w.disk.Visible(), sn.img)
	w.disk.Sync() // drops the write log
	*w.rs = sn.rs
	w.rs.epochs = append([]c06Epoch{}, sn.epochs...)
	copy(w.stored, sn.stored)
	copy(w.obs, sn.obs)
	w.cursor = append(w.cursor[:0], sn.cursor...)
	w.discards = sn.discards
	w.history = w.history[:sn.hist]
}

func init() {
	sim.Register(&sim.Check{
		Prop:  "C06",
		Level: "exploration",
		Profiles: []sim.Profile{
			{Name: "random", Weight: 3, Fn: c06Random},
			{Name: "real-block-lists", Weight: 2, Fn: c06RealLists},
			{Name: "concurrent-lookups", Weight: 1, Fn: c06ConcurrentLookups},
			{Name: "exhaustive-small", Prologue: true, Fn: c06Exhaustive},
		},
		Components: map[string][]string{
			"real": {"pkg/blobstore/local/hashing_key_location_map.go", "location_record_key.go", "location.go", "in_memory_location_record_array.go", "block_device_backed_location_record_array.go", "the map's Prometheus collectors (read, never written, by the harness)"},
			"stub": {"BlockReferenceResolver (explicit list of live blocks, several epochs per block, oldest block released first)", "index block device (simdisk, no faults)", "pass-through LocationRecordArray decorator that counts calls"},
		},
		Rule:           "a case = (backend, table size 1..31, hash initialisation, get attempts 1..8, put attempts 1..16, 2..12 keys incl. keys forced to collide, live-block window 1..5, 8..90 store/release/new-block/new-epoch operations with in-order, out-of-order and equal locations); after every operation every key is looked up; non-trivial = at least one displacement, reported discard, ignored older store or release that removed an entry; distinct = distinct event-log hash (operations and all lookup results)",
		RequiredProbes: []string{"probe_displacement", "probe_discard_visible", "probe_discard_too_many_attempts", "probe_discard_too_many_iterations", "probe_fallback_to_older", "probe_fallback_to_nothing", "probe_release_removed_entries", "probe_put_ignored_older", "probe_put_updated", "probe_put_out_of_order", "probe_put_equal_location", "c06_runs_dev", "c06_runs_mem", "exhaustive_cases"},
		Assumptions: []string{
			"blocks are released oldest-first and a released block never becomes valid again (the resolver is harness code)",
			"'newest' is newest by the store's own age order (block, then offset); among stored locations of equal age either may be returned",
			"as long as no discard has been reported, a lookup must return the newest live stored location ('never silently'); afterwards lookups may only change as the statement allows",
			"no I/O faults on the index device (the statement is silent on them)",
		},
	})
}
