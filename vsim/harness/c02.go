package harness

import (
	"fmt"

	"vsim/sim"
)

// ---- C02: after a crash and restart no object is served with wrong bytes ----

type mediaModes struct{ data, index, dir int }

func (m mediaModes) String() string {
	n := []string{"lose-all", "keep-all", "subset", "subset"}
	return fmt.Sprintf("data=%s index=%s dir=%s", n[m.data], n[m.index], n[m.dir])
}

func tierCaps(c *sim.RunCtx) (maxPoints, mediaPerPoint, maxDepth int) {
	if c.Tier == "thorough" {
		return 400, 5, 3
	}
	return 40, 3, 2
}

// selectPoints picks the crash points to explore: all of them when few, else
// every "interesting" one (around syncs / state-file operations) plus a
// tape-chosen sample.
func selectPoints(c *sim.RunCtx, pts []*crashPoint, maxPoints int) []*crashPoint {
	if len(pts) <= maxPoints {
		return pts
	}
	t := c.T.Crash
	chosen := map[int]bool{}
	// always the first and the last
	chosen[0], chosen[len(pts)-1] = true, true
	// (bounded: an exhausted replay tape answers 0 for ever)
	for i := 0; i < 2*maxPoints && len(chosen) < maxPoints; i++ {
		chosen[t.Choose(len(pts))] = true
	}
	for i := 0; len(chosen) < maxPoints; i++ {
		chosen[(i*len(pts))/maxPoints] = true
		if i > len(pts) {
			break
		}
	}
	var out []*crashPoint
	for i, p := range pts {
		if chosen[i] {
			out = append(out, p)
		}
	}
	return out
}

// recoverFrom restarts the store over post-crash media and runs the recovery
// oracle; optionally crashes the recovery itself and recurses.
func recoverFrom(c *sim.RunCtx, pp *persistPlan, prev *storeModel, cp *crashPoint, mm mediaModes, depth, maxDepth int) {
	if c.Failed() {
		return
	}
	m := crashMedia(c, pp.cfg, cp, mm.data, mm.index, mm.dir)
	model := modelAt(prev, cp.Step)
	c.Note("recover depth=%d from step %d (%s) media %s", depth, cp.Step, cp.Why, mm)
	c.Count("recoveries", 1)
	t := c.T.Crash
	nested := depth < maxDepth && t.Chance(1, 2)
	lt := runLifetime(c, pp, m, &lifetimeOpts{proc: 1 + depth, baseAllocs: cp.Allocs, model: model, snapshots: nested,
		script: func(lt *lifetime) {
			before := lt.checkAll("after-restart")
			if c.Failed() {
				return
			}
			if len(before) > 0 {
				c.Count("probe_restart_served_objects", 1)
			}
			// fresh uploads must not overwrite space that holds served objects
			n := 3 + t.Choose(8)
			for i := 0; i < n && !c.Failed(); i++ {
				oi := pp.canon[t.Choose(len(pp.objs))]
				op := &storeOp{Kind: opPut, Obj: oi, Inst: pp.insts[t.Choose(len(pp.insts))], Ctor: ctorSlice, Pad: t.Choose(max(pp.cfg.BlockSize()-24, 1))}
				lt.w.exec(op)
			}
			if c.Failed() {
				return
			}
			lt.checkAll("after-fresh-uploads")
		}})
	if c.Failed() || !nested || len(lt.points) == 0 {
		return
	}
	c.Count("fault_crash_during_recovery", 1)
	np := lt.points[t.Choose(len(lt.points))]
	nm := mediaModes{[]int{sim.CrashLoseAll, sim.CrashKeepAll, sim.CrashSubset}[t.Choose(3)], []int{sim.CrashLoseAll, sim.CrashKeepAll, sim.CrashSubsetAtomic}[t.Choose(3)], []int{sim.CrashLoseAll, sim.CrashKeepAll, sim.CrashSubset}[t.Choose(3)]}
	recoverFrom(c, pp, lt.w.m, np, nm, depth+1, maxDepth)
}

func c02Profile(variant string) func(c *sim.RunCtx) {
	return func(c *sim.RunCtx) {
		t := c.T.Plan
		pp := drawPersistPlan(t, variant, t.Chance(1, 3), false)
		if wconfigPossible(pp.cfg) && t.Chance(1, 2) {
			// half of the CAS runs are wired by new_blob_access.go itself
			pp.cfg.WConfig = true
			if !pp.cfg.Hier {
				if !pp.cfg.AC {
					pp.cfg.KeyFormat = 0
				}
			}
		}
		c.Sample["config"] = pp.cfg.String()
		c.Note("cfg %s", pp.cfg)
		model := &storeModel{cfg: pp.cfg, objs: pp.objs, byTag: map[int]*upload{}}
		m := newMedia(pp.cfg)
		drain := t.Chance(1, 2)
		fwd := runLifetime(c, pp, m, &lifetimeOpts{proc: 1, model: model, snapshots: true, drain: drain, faults: pp.faults,
			script: func(lt *lifetime) { lt.runClients(pp.clients, 1) }})
		if c.Failed() || fwd.w == nil {
			return
		}
		c.Count("forward_runs", 1)
		c.Count("forward_crash_points", len(fwd.points))
		c.Count("puts_ok", fwd.w.putsOK)
		c.Count("data_syncs", fwd.w.e.syncDone)
		c.Count("state_writes", fwd.w.e.stateDone)
		if fwd.w.e.alloc != nil {
			c.Count("block_releases", fwd.w.e.alloc.Releases)
		}
		c.Count("fault_sync_error", m.data.SyncErrs)
		c.Count("fault_state_dir_error", m.dir.OpErrs)
		maxPoints, perPoint, maxDepth := tierCaps(c)
		pts := selectPoints(c, append(fwd.points, fwd.final), maxPoints)
		ct := c.T.Crash
		for _, cp := range pts {
			modes := []mediaModes{
				{sim.CrashLoseAll, sim.CrashLoseAll, sim.CrashLoseAll},
				{sim.CrashLoseAll, sim.CrashKeepAll, sim.CrashLoseAll}, // index survived, unsynced data did not
			}
			for len(modes) < perPoint {
				switch ct.Choose(3) {
				case 0:
					modes = append(modes, mediaModes{sim.CrashSubset, sim.CrashSubsetAtomic, sim.CrashSubset})
				case 1:
					modes = append(modes, mediaModes{sim.CrashKeepAll, sim.CrashKeepAll, sim.CrashLoseAll})
				default:
					modes = append(modes, mediaModes{sim.CrashSubset, sim.CrashKeepAll, sim.CrashKeepAll})
				}
			}
			for _, mm := range modes {
				recoverFrom(c, pp, model, cp, mm, 1, maxDepth)
				if c.Failed() {
					return
				}
			}
		}
		c.Sample["crash_points"] = len(pts)
		c.Nontrivial = fwd.w.putsOK > 0 && len(pts) > 2
	}
}

func init() {
	sim.Register(&sim.Check{
		Prop:  "C02",
		Level: "fault_enumeration",
		Profiles: []sim.Profile{
			{Name: "flat-cas", Weight: 4, Fn: c02Profile("flat")},
			{Name: "hier-cas", Weight: 2, Fn: c02Profile("hier")},
			{Name: "flat-ac", Weight: 2, Fn: c02Profile("ac")},
		},
		Components: map[string][]string{
			"real": {"pkg/blobstore/configuration new_blob_access.go (W-config runs: the store is assembled by the unmodified NewBlobAccessFromConfiguration; top-level decorators, metrics wrappers, allocator collectors)", "pkg/blobstore/local: persistent block list, periodic syncer (both routines), directory-backed state store, block-device-backed allocator and location record array, old/current/new map, hashing index, flat/hierarchical blob access", "pkg/blobstore/buffer", "pkg/proto/blobstore/local"},
			"stub": {"data and index block devices (simdisk: volatile write log, sync, lost/torn writes)", "state directory (simdir: unsynced entries and file content)", "clock (simulated)", "sources/sinks", "scheduling (verifsimrt)"},
		},
		Rule:           "a forward run (1-3 clients, uploads/reads/existence checks/sleeps, both syncer routines, optional sync and state-write failures) records the media after every I/O operation; every recorded crash point (sampled beyond the tier's cap) x post-crash media {everything volatile lost; index kept but unsynced data lost; tape-chosen subsets with torn sector writes, lost index records and lost directory operations; process crash} is restarted and checked: every object served or reported present has exactly its uploaded bytes and no integrity signal fires, before and after fresh uploads; recoveries are themselves crashed (nested); non-trivial = forward run acknowledged uploads and more than two crash points were explored",
		RequiredProbes: []string{"recoveries", "probe_recovery_served_object", "fault_crash_lost_writes", "fault_crash_lost_index_writes", "fault_crash_during_recovery", "state_writes"},
	})
}
