package harness

import (
	"math/big"
	"bytes"
	"context"
	"fmt"
	"io"
	"strings"

	remoteexecution "github.com/bazelbuild/remote-apis/build/bazel/remote/execution/v2"
	"github.com/buildbarn/bb-storage/pkg/blobstore"
	"github.com/buildbarn/bb-storage/pkg/blobstore/buffer"
	"github.com/buildbarn/bb-storage/pkg/blobstore/grpcclients"
	"github.com/buildbarn/bb-storage/pkg/blobstore/grpcservers"
	"github.com/buildbarn/bb-storage/pkg/digest"
	bb_zstd "github.com/buildbarn/bb-storage/pkg/zstd"
	"github.com/google/uuid"
	"github.com/klauspost/compress/zstd"
	"vsim/sim"

	"google.golang.org/genproto/googleapis/bytestream"
	"google.golang.org/grpc"
	"google.golang.org/grpc/codes"
	"google.golang.org/grpc/metadata"
	"google.golang.org/grpc/status"
	"google.golang.org/protobuf/proto"
	rt "verifsimrt"
)

// ---- C14: ByteStream / CAS / AC RPCs ----

// ---- simnet: in-memory server streams ----

type srvStreamBase struct{ ctx context.Context }

func (s *srvStreamBase) SetHeader(metadata.MD) error  { return nil }
func (s *srvStreamBase) SendHeader(metadata.MD) error { return nil }
func (s *srvStreamBase) SetTrailer(metadata.MD)       {}
func (s *srvStreamBase) Context() context.Context     { return s.ctx }
func (s *srvStreamBase) SendMsg(m any) error          { panic("simnet: SendMsg not used") }
func (s *srvStreamBase) RecvMsg(m any) error          { panic("simnet: RecvMsg not used") }

// scriptedWriteStream plays a fixed list of WriteRequests to the server.
type scriptedWriteStream struct {
	srvStreamBase
	msgs    []*bytestream.WriteRequest
	i       int
	abortAt int // Recv number i fails with abortErr (-1: never)
	abort   error
	resp    *bytestream.WriteResponse
	recvs   int
}

func (s *scriptedWriteStream) Recv() (*bytestream.WriteRequest, error) {
	rt.Yield("stream.Recv")
	s.recvs++
	if s.abortAt >= 0 && s.i == s.abortAt {
		return nil, s.abort
	}
	if s.i >= len(s.msgs) {
		return nil, io.EOF
	}
	m := proto.Clone(s.msgs[s.i]).(*bytestream.WriteRequest)
	s.i++
	return m, nil
}

func (s *scriptedWriteStream) SendAndClose(r *bytestream.WriteResponse) error {
	rt.Yield("stream.SendAndClose")
	s.resp = r
	return nil
}

type collectingReadStream struct {
	srvStreamBase
	chunks   [][]byte
	failAt   int // Send number k fails (-1 never)
	sendErr  error
	sends    int
}

func (s *collectingReadStream) Send(r *bytestream.ReadResponse) error {
	rt.Yield("stream.Send")
	if s.failAt >= 0 && s.sends == s.failAt {
		s.sends++
		return s.sendErr
	}
	s.sends++
	s.chunks = append(s.chunks, append([]byte{}, r.Data...))
	return nil
}

func newZstdPool() bb_zstd.Pool {
	return bb_zstd.NewUnboundedPool([]zstd.EOption{zstd.WithEncoderConcurrency(1)}, []zstd.DOption{zstd.WithDecoderConcurrency(1)})
}

func zstdCompress(data []byte) []byte {
	enc, _ := zstd.NewWriter(nil, zstd.WithEncoderConcurrency(1))
	return enc.EncodeAll(data, nil)
}

func zstdDecompress(data []byte) ([]byte, error) {
	dec, _ := zstd.NewReader(nil, zstd.WithDecoderConcurrency(1))
	defer dec.Close()
	return dec.DecodeAll(data, nil)
}

// ---- (a) ByteStream.Write state machine ----

type c14WriteCase struct {
	Content     []byte
	Zstd        bool
	Wire        []byte // bytes put on the wire (content or its zstd encoding, possibly damaged)
	Msgs        []*bytestream.WriteRequest
	AbortAt     int
	BackendFail bool
	Desc        string
	// reference verdict computed while the case is built
	Acceptable bool // the prefix up to the first finish_write is a contiguous, complete, matching upload
	ExtraAfter bool // messages follow the first finish_write (don't care)
	DontCare   bool // damage confined to the compressed framing: whether the decompressed data still matches depends on the decoder
}

func drawC14Write(t *sim.Tape) *c14WriteCase {
	cs := &c14WriteCase{AbortAt: -1}
	n := []int{5, 0, 1, 2, 12, 40}[t.Choose(6)]
	cs.Content = make([]byte, n)
	for i := range cs.Content {
		cs.Content[i] = byte(0x61 + i%13)
	}
	cs.Zstd = t.Chance(1, 2)
	d := RefDigest("inst", remoteexecution.DigestFunction_SHA256, cs.Content)
	compressor := remoteexecution.Compressor_IDENTITY
	wire := cs.Content
	if cs.Zstd {
		compressor = remoteexecution.Compressor_ZSTD
		wire = zstdCompress(cs.Content)
	}
	// content damage
	damage := t.Pick(5, 1, 1, 1, 1)
	nameDigest := d
	switch damage {
	case 4: // the resource name states size zero with the hash of a non-empty object; no data is sent
		if n > 0 {
			nameDigest = digest.MustNewDigest("inst", remoteexecution.DigestFunction_SHA256, d.GetHashString(), 0)
			wire = nil
			if cs.Zstd {
				wire = zstdCompress(nil)
			}
		} else {
			damage = 0
		}
	case 1: // flip a byte of the uncompressed content
		if n > 0 {
			bad := append([]byte{}, cs.Content...)
			bad[t.Choose(n)] ^= 0x20
			wire = bad
			if cs.Zstd {
				wire = zstdCompress(bad)
			}
		} else {
			damage = 0
		}
	case 2: // truncate the wire bytes
		if len(wire) > 0 {
			wire = wire[:len(wire)-1-t.Choose(min(len(wire), 3))]
		} else {
			damage = 0
		}
	case 3: // trailing garbage
		wire = append(append([]byte{}, wire...), 0x00, 0x01)
	}
	cs.Wire = wire
	if cs.Zstd && (damage == 2 || damage == 3) {
		// truncating the frame's trailing checksum or appending bytes after
		// the frame may leave the decompressed data intact: the property
		// speaks about the decompressed data only
		cs.DontCare = true
	}
	name := nameDigest.GetByteStreamWritePath(uuid.MustParse("11111111-2222-3333-4444-555555555555"), compressor)
	// split into messages
	cuts := sim.DrawCuts(t, len(wire), 3)
	var parts [][]byte
	prev := 0
	for _, c := range cuts {
		parts = append(parts, wire[prev:c])
		prev = c
	}
	parts = append(parts, wire[prev:])
	if t.Chance(1, 4) {
		// an empty chunk somewhere
		k := t.Choose(len(parts) + 1)
		parts = append(parts[:k], append([][]byte{{}}, parts[k:]...)...)
	}
	seq := t.Pick(6, 1, 1, 1, 1, 1, 1, 1, 1)
	// 0 well-formed; 1 first offset != 0; 2 gap; 3 overlap; 4 missing finish; 5 repeated finish / data after finish;
	// 6 wrong resource name in a later message (allowed to be empty or equal: we use a different one); 7 bad resource name in the first;
	// 8 premature finish_write: the client declares the write finished before all data was sent and keeps sending
	// contiguous data (the data up to the first finish_write is a strict prefix of the content: never acceptable)
	off := int64(0)
	acceptable := damage == 0
	for i, p := range parts {
		m := &bytestream.WriteRequest{WriteOffset: off, Data: p}
		if i == 0 {
			m.ResourceName = name
		} else if t.Chance(1, 3) {
			m.ResourceName = name
		}
		off += int64(len(p))
		if i == len(parts)-1 {
			m.FinishWrite = true
		}
		cs.Msgs = append(cs.Msgs, m)
	}
	switch seq {
	case 1:
		delta := int64(1 + t.Choose(5))
		for _, m := range cs.Msgs {
			m.WriteOffset += delta
		}
		acceptable = false
	case 2:
		if len(cs.Msgs) >= 2 {
			k := 1 + t.Choose(len(cs.Msgs)-1)
			for _, m := range cs.Msgs[k:] {
				m.WriteOffset += int64(1 + t.Choose(3))
			}
			acceptable = false
		}
	case 3:
		if len(cs.Msgs) >= 2 {
			k := 1 + t.Choose(len(cs.Msgs)-1)
			if cs.Msgs[k].WriteOffset > 0 {
				for _, m := range cs.Msgs[k:] {
					m.WriteOffset--
				}
				acceptable = false
			}
		}
	case 4:
		cs.Msgs[len(cs.Msgs)-1].FinishWrite = false
		acceptable = false
	case 5:
		extra := &bytestream.WriteRequest{WriteOffset: off, Data: []byte("zz"), FinishWrite: t.Chance(1, 2)}
		if t.Chance(1, 2) {
			extra.Data = nil
			extra.FinishWrite = true
		}
		cs.Msgs = append(cs.Msgs, extra)
		cs.ExtraAfter = true
	case 8:
		if len(cs.Msgs) >= 2 {
			k := t.Choose(len(cs.Msgs) - 1)
			rest := 0
			for _, m := range cs.Msgs[k+1:] {
				rest += len(m.Data)
			}
			if rest > 0 {
				cs.Msgs[k].FinishWrite = true
				if t.Chance(1, 2) {
					cs.Msgs[len(cs.Msgs)-1].FinishWrite = false
				}
				acceptable = false
				if cs.Zstd {
					// a truncated frame: whether the decoder notices before the
					// declared size has been produced depends on the decoder
					// (an empty object is never read at all)
					cs.DontCare = true
				}
			}
		}
	case 7:
		// (the last three: a size field that is no valid 64-bit integer but equals the content length modulo 2^64 or 2^32, or carries a sign)
		wrap64 := new(big.Int).Add(new(big.Int).Lsh(big.NewInt(1+int64(t.Choose(3))), 64), big.NewInt(d.GetSizeBytes()))
		cs.Msgs[0].ResourceName = []string{"inst/uploads/not-a-uuid/blobs/zz/1", "inst/blobs/abc/3", "", "inst/uploads/11111111-2222-3333-4444-555555555555/blobs/" + d.GetHashString() + "/-1",
			"inst/uploads/11111111-2222-3333-4444-555555555555/blobs/" + d.GetHashString() + "/" + wrap64.String(),
			"inst/uploads/11111111-2222-3333-4444-555555555555/blobs/" + d.GetHashString() + "/" + fmt.Sprintf("%d", uint64(1<<63)+uint64(d.GetSizeBytes())),
			"inst/uploads/11111111-2222-3333-4444-555555555555/blobs/" + d.GetHashString() + "/+" + fmt.Sprintf("%d", d.GetSizeBytes()) + "x",
		}[t.Choose(7)]
		acceptable = false
	}
	if t.Chance(1, 8) {
		cs.AbortAt = t.Choose(len(cs.Msgs) + 1)
		// an abort before the first finish_write has been received makes the upload incomplete
		firstFinish := len(cs.Msgs)
		for i, m := range cs.Msgs {
			if m.FinishWrite {
				firstFinish = i
				break
			}
		}
		if cs.AbortAt <= firstFinish {
			acceptable = false
		} else {
			cs.ExtraAfter = true
		}
	}
	cs.BackendFail = t.Chance(1, 10)
	cs.Acceptable = acceptable
	var ms []string
	for _, m := range cs.Msgs {
		ms = append(ms, fmt.Sprintf("{off=%d len=%d fin=%v name=%v}", m.WriteOffset, len(m.Data), m.FinishWrite, m.ResourceName != ""))
	}
	cs.Desc = fmt.Sprintf("write zstd=%v content=%d damage=%d seq=%d msgs=%s abortAt=%d backendFail=%v acceptable=%v extraAfter=%v", cs.Zstd, n, damage, seq, strings.Join(ms, ""), cs.AbortAt, cs.BackendFail, cs.Acceptable, cs.ExtraAfter)
	return cs
}

func runC14Write(c *sim.RunCtx, cs *c14WriteCase) {
	c.Note("case %s", cs.Desc)
	d := RefDigest("inst", remoteexecution.DigestFunction_SHA256, cs.Content)
	var rpcErr error
	var backend *modelStore
	c.Sim(sim.SimOpts{MaxSteps: 50000, DeadlockClass: "deadlock"}, func(s *rt.Sched) {
		backend = newModelStore(c, "backend", digest.KeyWithInstance)
		if cs.BackendFail {
			backend.Fault = func(op string, ds []digest.Digest) error {
				if op == "Put" {
					return status.Error(codes.Unavailable, "backend: injected Put failure")
				}
				return nil
			}
		}
		srv := grpcservers.NewByteStreamServer(backend, 16, newZstdPool())
		st := &scriptedWriteStream{srvStreamBase: srvStreamBase{context.Background()}, msgs: cs.Msgs, abortAt: cs.AbortAt, abort: status.Error(codes.Canceled, "stream aborted by the client")}
		if cs.AbortAt >= 0 {
			c.Count("fault_stream_abort", 1)
		}
		rpcErr = srv.Write(st)
		if rpcErr == nil && st.resp == nil {
			c.Fail("write-ok-without-response", "Write returned nil without SendAndClose [%s]", cs.Desc)
		}
	})
	if c.Failed() {
		return
	}
	stored, has := backend.Objs[backend.key(d)]
	if has && !bytes.Equal(stored, cs.Content) {
		c.Fail("stored-wrong-bytes", "backend holds %s for the digest of %s [%s]", short(stored), short(cs.Content), cs.Desc)
		return
	}
	if len(backend.Objs) > 1 || (len(backend.Objs) == 1 && !has) {
		c.Fail("stored-under-other-digest", "backend holds an object under another key [%s]", cs.Desc)
		return
	}
	accepted := rpcErr == nil
	if accepted != has && !(cs.BackendFail) {
		c.Fail("result-disagrees-with-backend", "Write returned %v but backend holds the object: %v [%s]", rpcErr, has, cs.Desc)
		return
	}
	if cs.DontCare {
		c.Count("probe_write_framing_damage", 1)
		return
	}
	if has && (!cs.Acceptable || cs.BackendFail) {
		c.Fail("invalid-upload-stored", "the object became visible although the request sequence is not a contiguous, finished, matching upload [%s]", cs.Desc)
		return
	}
	if accepted && !cs.Acceptable {
		c.Fail("invalid-upload-acknowledged", "Write succeeded although the request sequence is not a contiguous, finished, matching upload [%s]", cs.Desc)
		return
	}
	if !accepted && cs.Acceptable && !cs.ExtraAfter && !cs.BackendFail {
		c.Fail("valid-upload-rejected", "a well-formed upload was rejected: %v [%s]", rpcErr, cs.Desc)
		return
	}
	if accepted {
		c.Count("probe_write_accepted", 1)
	} else {
		c.Count("probe_write_rejected", 1)
	}
	if cs.Zstd {
		c.Count("probe_write_zstd", 1)
	}
	c.Nontrivial = !cs.Acceptable || cs.BackendFail || cs.AbortAt >= 0
}

// ---- (b) ByteStream.Read ----

func c14Read(c *sim.RunCtx) {
	t := c.T.Plan
	n := []int{6, 0, 1, 2, 17, 40}[t.Choose(6)]
	content := make([]byte, n)
	for i := range content {
		content[i] = byte(0x41 + i%23)
	}
	useZstd := t.Chance(1, 2)
	off := int64(t.Choose(n+3)) - 1
	chunk := []int{1, 2, 3, 7, 64}[t.Choose(5)]
	present := t.Chance(5, 6)
	sendFail := -1
	if t.Chance(1, 10) {
		sendFail = t.Choose(4)
	}
	d := RefDigest("inst", remoteexecution.DigestFunction_SHA256, content)
	compressor := remoteexecution.Compressor_IDENTITY
	if useZstd {
		compressor = remoteexecution.Compressor_ZSTD
	}
	desc := fmt.Sprintf("read zstd=%v size=%d offset=%d chunk=%d present=%v sendFail=%d", useZstd, n, off, chunk, present, sendFail)
	c.Sample["case"] = desc
	c.Note("case %s", desc)
	var st *collectingReadStream
	var rpcErr error
	c.Sim(sim.SimOpts{MaxSteps: 50000, DeadlockClass: "deadlock"}, func(s *rt.Sched) {
		backend := newModelStore(c, "backend", digest.KeyWithInstance)
		if present {
			backend.Objs[backend.key(d)] = content
		}
		srv := grpcservers.NewByteStreamServer(backend, chunk, newZstdPool())
		st = &collectingReadStream{srvStreamBase: srvStreamBase{context.Background()}, failAt: sendFail, sendErr: status.Error(codes.Unavailable, "client went away")}
		rpcErr = srv.Read(&bytestream.ReadRequest{ResourceName: d.GetByteStreamReadPath(compressor), ReadOffset: off}, st)
	})
	if c.Failed() {
		return
	}
	var wire []byte
	for _, ch := range st.chunks {
		wire = append(wire, ch...)
	}
	got := wire
	if rpcErr == nil && sendFail >= 0 && sendFail < st.sends {
		// the client went away: what the RPC returns is immaterial
		c.Count("probe_read_send_failed", 1)
		return
	}
	if useZstd && len(wire) > 0 {
		dec, err := zstdDecompress(wire)
		if err != nil {
			if rpcErr == nil {
				c.Fail("read-undecodable-stream", "Read succeeded but the zstd stream does not decode: %v [%s]", err, desc)
			}
			// a failed RPC may leave a truncated frame behind
			return
		}
		got = dec
	}
	inRange := off >= 0 && off <= int64(n)
	if rpcErr == nil {
		if !present {
			c.Fail("read-of-absent-object", "Read succeeded for an object the backend lacks [%s]", desc)
			return
		}
		if sendFail >= 0 && sendFail < st.sends {
			// the client went away: what the RPC returns is immaterial
			c.Count("probe_read_send_failed", 1)
			return
		}
		if inRange {
			if !bytes.Equal(got, content[off:]) {
				c.Fail("read-wrong-suffix", "Read at offset %d streamed %s, expected %s [%s]", off, short(got), short(content[off:]), desc)
				return
			}
			c.Count("probe_read_suffix_ok", 1)
			if useZstd && off > 0 {
				c.Count("probe_read_zstd_offset", 1)
			}
		} else if len(got) > 0 {
			c.Fail("read-out-of-range-delivers-data", "Read at offset %d outside [0,%d] delivered %s [%s]", off, n, short(got), desc)
			return
		}
	} else {
		// a failed read may have delivered a prefix of the right suffix, never other bytes
		if inRange && present && !useZstd && !bytes.HasPrefix(content[off:], got) {
			c.Fail("read-wrong-bytes-before-error", "Read at offset %d failed after streaming %s, which is not a prefix of the suffix [%s]", off, short(got), desc)
			return
		}
		if !inRange || !present || sendFail >= 0 {
			c.Count("probe_read_rejected", 1)
		} else {
			c.Fail("read-spurious-error", "Read at a valid offset of a present object failed: %v [%s]", rpcErr, desc)
			return
		}
	}
	c.Nontrivial = off != 0 || !present || sendFail >= 0
}

// ---- (c) batch RPCs and FindMissingBlobs, AC ----

func c14Batch(c *sim.RunCtx) {
	t := c.T.Plan
	objs := drawSimpleObjs(t, 3+t.Choose(4), "inst")
	maxMsg := int64([]int{1 << 20, 8, 25, 60}[t.Choose(4)])
	kind := t.Choose(4) // 0 BatchUpdate 1 BatchRead 2 FindMissing 3 ActionCache
	failRate := []int{0, 0, 150}[t.Choose(3)]
	desc := fmt.Sprintf("batch kind=%d objs=%d maxMsg=%d failRate=%d", kind, len(objs), maxMsg, failRate)
	c.Sample["case"] = desc
	c.Note("case %s", desc)
	c.Sim(sim.SimOpts{MaxSteps: 50000, DeadlockClass: "deadlock"}, func(s *rt.Sched) {
		backend := newModelStore(c, "backend", digest.KeyWithInstance)
		ft := c.T.Fault
		injectedFor := map[string]bool{}
		backend.Fault = func(op string, ds []digest.Digest) error {
			if failRate > 0 && ft.Chance(failRate, 1000) {
				for _, d := range ds {
					injectedFor[backend.key(d)] = true
				}
				return status.Error(codes.Unavailable, "backend: injected failure")
			}
			return nil
		}
		cas := grpcservers.NewContentAddressableStorageServer(backend, maxMsg)
		ctx := context.Background()
		switch kind {
		case 0:
			req := &remoteexecution.BatchUpdateBlobsRequest{InstanceName: "inst", DigestFunction: remoteexecution.DigestFunction_SHA256}
			type ent struct {
				obj   int
				valid bool
				dp    *remoteexecution.Digest
			}
			var ents []ent
			for i := 0; i < 1+t.Choose(4); i++ {
				x := t.Choose(len(objs))
				data := append([]byte{}, objs[x].Data...)
				valid := true
				dp := objs[x].D.GetProto()
				switch t.Pick(5, 1, 1, 1, 1) {
				case 1:
					data = append(data, 0x77)
					valid = false
				case 2:
					if len(data) > 0 {
						data[0] ^= 1
						valid = false
					}
				case 3:
					// the digest of a non-empty object with its size field zeroed, no data:
					// sizes agree, the hash is not that of the empty object
					if len(data) > 0 {
						dp = &remoteexecution.Digest{Hash: dp.Hash, SizeBytes: 0}
						data = nil
						valid = false
					}
				case 4:
					// right size, hash of another object of the same size
					for y := range objs {
						if y != x && len(objs[y].Data) == len(data) && !bytes.Equal(objs[y].Data, data) {
							dp = objs[y].D.GetProto()
							valid = false
							break
						}
					}
				}
				ents = append(ents, ent{x, valid, dp})
				req.Requests = append(req.Requests, &remoteexecution.BatchUpdateBlobsRequest_Request{Digest: dp, Data: data})
			}
			resp, err := cas.BatchUpdateBlobs(ctx, req)
			if err != nil {
				c.Fail("batch-update-failed-as-a-whole", "BatchUpdateBlobs failed instead of reporting per-object status: %v [%s]", err, desc)
				return
			}
			if len(resp.Responses) != len(ents) {
				c.Fail("batch-update-response-count", "%d responses for %d requests [%s]", len(resp.Responses), len(ents), desc)
				return
			}
			validSeen := map[int]bool{}
			for i, e := range ents {
				code := codes.Code(resp.Responses[i].Status.GetCode())
				if !proto.Equal(resp.Responses[i].Digest, e.dp) {
					c.Fail("batch-update-response-order", "response %d carries another digest [%s]", i, desc)
					return
				}
				if code == codes.OK && !e.valid {
					c.Fail("invalid-upload-acknowledged", "BatchUpdateBlobs entry %d has data that mismatches its digest but status OK [%s]", i, desc)
					return
				}
				if code == codes.OK {
					validSeen[e.obj] = true
				}
			}
			for k, v := range backend.Objs {
				okKey := false
				for x := range validSeen {
					if backend.key(objs[x].D) == k && bytes.Equal(v, objs[x].Data) {
						okKey = true
					}
				}
				if !okKey {
					c.Fail("invalid-upload-stored", "backend holds %s under %s, which no accepted entry justifies [%s]", short(v), k, desc)
					return
				}
			}
			c.Count("probe_batch_update", 1)
		case 1:
			for i, o := range objs {
				if i%2 == 0 || t.Chance(1, 2) {
					backend.Objs[backend.key(o.D)] = o.Data
				}
			}
			req := &remoteexecution.BatchReadBlobsRequest{InstanceName: "inst", DigestFunction: remoteexecution.DigestFunction_SHA256}
			var xs []int
			total := int64(0)
			for i := 0; i < 1+t.Choose(4); i++ {
				x := t.Choose(len(objs))
				xs = append(xs, x)
				total += int64(len(objs[x].Data))
				req.Digests = append(req.Digests, objs[x].D.GetProto())
			}
			// a quarter of the requests carry one malformed digest at a drawn
			// position: the server may refuse the whole request or report it
			// per entry, but whatever it answers with status OK must be the
			// object that the answer's own digest names, and every well-formed
			// digest must be answered
			if t.Chance(1, 4) {
				bad := []*remoteexecution.Digest{
					{Hash: objs[0].D.GetProto().Hash, SizeBytes: -1},
					{Hash: "abc", SizeBytes: 3},
					{Hash: strings.Repeat("g", 64), SizeBytes: 1},
				}[t.Choose(3)]
				pos := t.Choose(len(req.Digests) + 1)
				req.Digests = append(req.Digests[:pos:pos], append([]*remoteexecution.Digest{bad}, req.Digests[pos:]...)...)
				c.Count("fault_batch_read_malformed_digest", 1)
				resp, err := cas.BatchReadBlobs(ctx, req)
				if err != nil {
					if status.Code(err) != codes.InvalidArgument && total <= maxMsg {
						c.Fail("batch-read-failed-as-a-whole", "BatchReadBlobs with one malformed digest failed with %v [%s]", err, desc)
					}
					return
				}
				answered := map[string]bool{}
				for i, r := range resp.Responses {
					if codes.Code(r.Status.GetCode()) != codes.OK {
						if len(r.Data) > 0 {
							c.Fail("batch-read-data-with-error", "entry %d: status %v but data delivered [%s]", i, codes.Code(r.Status.GetCode()), desc)
							return
						}
					} else if r.Digest == nil || int64(len(r.Data)) != r.Digest.SizeBytes || RefHash(remoteexecution.DigestFunction_SHA256, r.Data) != r.Digest.Hash {
						c.Fail("batch-read-wrong-data", "response %d answers digest %v with status OK and data %s, which is not that object (request with a malformed digest at position %d) [%s]", i, r.Digest, short(r.Data), pos, desc)
						return
					}
					if r.Digest != nil {
						answered[fmt.Sprintf("%s/%d", r.Digest.Hash, r.Digest.SizeBytes)] = true
					}
				}
				for _, x := range xs {
					dp := objs[x].D.GetProto()
					if !answered[fmt.Sprintf("%s/%d", dp.Hash, dp.SizeBytes)] {
						c.Fail("batch-read-response-count", "the well-formed digest %v of the request got no response (malformed digest at position %d) [%s]", dp, pos, desc)
						return
					}
				}
				c.Count("probe_batch_read_malformed_reported_per_entry", 1)
				return
			}
			resp, err := cas.BatchReadBlobs(ctx, req)
			if err != nil {
				if total <= maxMsg {
					c.Fail("batch-read-failed-as-a-whole", "BatchReadBlobs of %d bytes (limit %d) failed: %v [%s]", total, maxMsg, err, desc)
				}
				c.Count("probe_batch_read_too_large", 1)
				return
			}
			if total > maxMsg {
				c.Fail("batch-read-exceeds-limit", "BatchReadBlobs returned %d bytes although the limit is %d [%s]", total, maxMsg, desc)
				return
			}
			if len(resp.Responses) != len(xs) {
				c.Fail("batch-read-response-count", "%d responses for %d digests [%s]", len(resp.Responses), len(xs), desc)
				return
			}
			for i, x := range xs {
				r := resp.Responses[i]
				code := codes.Code(r.Status.GetCode())
				has := backend.Has(objs[x].D)
				if code == codes.OK {
					if !bytes.Equal(r.Data, objs[x].Data) || !has {
						c.Fail("batch-read-wrong-data", "entry %d: status OK with data %s, backend holds it: %v [%s]", i, short(r.Data), has, desc)
						return
					}
				} else {
					if len(r.Data) > 0 {
						c.Fail("batch-read-data-with-error", "entry %d: status %v but data delivered [%s]", i, code, desc)
						return
					}
					if has && !injectedFor[backend.key(objs[x].D)] {
						c.Fail("batch-read-spurious-error", "entry %d: status %v although the backend holds the object [%s]", i, code, desc)
						return
					}
					if !has && code != codes.NotFound && !injectedFor[backend.key(objs[x].D)] {
						c.Fail("batch-read-wrong-code", "entry %d: absent object reported with %v [%s]", i, code, desc)
						return
					}
				}
			}
			c.Count("probe_batch_read", 1)
		case 2:
			for _, o := range objs {
				if t.Chance(1, 2) {
					backend.Objs[backend.key(o.D)] = o.Data
				}
			}
			req := &remoteexecution.FindMissingBlobsRequest{InstanceName: "inst", DigestFunction: remoteexecution.DigestFunction_SHA256}
			asked := map[string]bool{}
			for i := 0; i < t.Choose(5); i++ {
				x := t.Choose(len(objs))
				req.BlobDigests = append(req.BlobDigests, objs[x].D.GetProto())
				asked[backend.key(objs[x].D)] = true
			}
			resp, err := cas.FindMissingBlobs(ctx, req)
			if err != nil {
				if len(injectedFor) == 0 {
					c.Fail("find-missing-spurious-error", "FindMissingBlobs failed: %v [%s]", err, desc)
				}
				return
			}
			got := map[string]bool{}
			for _, pd := range resp.MissingBlobDigests {
				dd, e := digest.MustNewFunction("inst", remoteexecution.DigestFunction_SHA256).NewDigestFromProto(pd)
				if e != nil {
					c.Fail("find-missing-malformed-answer", "malformed digest in the answer [%s]", desc)
					return
				}
				got[backend.key(dd)] = true
			}
			for k := range asked {
				_, has := backend.Objs[k]
				if got[k] == has {
					c.Fail("find-missing-wrong-answer", "FindMissingBlobs: %s reported missing=%v but backend holds it=%v [%s]", k, got[k], has, desc)
					return
				}
			}
			for k := range got {
				if !asked[k] {
					c.Fail("find-missing-wrong-answer", "FindMissingBlobs reports %s, which was not asked about [%s]", k, desc)
					return
				}
			}
			c.Count("probe_find_missing", 1)
		case 3:
			backend.ProtoAC = true
			ac := grpcservers.NewActionCacheServer(backend, int(maxMsg))
			ad := objs[0].D
			ar := &remoteexecution.ActionResult{ExitCode: 3, StdoutRaw: []byte("out")}
			_, err := ac.UpdateActionResult(ctx, &remoteexecution.UpdateActionResultRequest{InstanceName: "inst", DigestFunction: remoteexecution.DigestFunction_SHA256, ActionDigest: ad.GetProto(), ActionResult: ar})
			stored, has := backend.Objs[backend.key(ad)]
			if (err == nil) != has {
				c.Fail("ac-update-disagrees-with-backend", "UpdateActionResult returned %v, backend holds it: %v [%s]", err, has, desc)
				return
			}
			if has {
				var back remoteexecution.ActionResult
				if proto.Unmarshal(stored, &back) != nil || !proto.Equal(&back, ar) {
					c.Fail("ac-stored-wrong-message", "backend holds a different ActionResult [%s]", desc)
					return
				}
			}
			got, err := ac.GetActionResult(ctx, &remoteexecution.GetActionResultRequest{InstanceName: "inst", DigestFunction: remoteexecution.DigestFunction_SHA256, ActionDigest: ad.GetProto()})
			if err == nil && (!has || !proto.Equal(got, ar)) {
				c.Fail("ac-get-wrong-message", "GetActionResult returned a result the backend does not hold [%s]", desc)
				return
			}
			if err != nil && has && len(injectedFor) == 0 && int64(len(stored)) <= maxMsg {
				c.Fail("ac-get-spurious-error", "GetActionResult failed: %v [%s]", err, desc)
				return
			}
			c.Count("probe_action_cache", 1)
		}
	})
	c.Nontrivial = true
}

// ---- (d) back to back: client <-> simnet <-> server <-> backend ----

type simConn struct {
	bs  bytestream.ByteStreamServer
	cas remoteexecution.ContentAddressableStorageServer
	ac  remoteexecution.ActionCacheServer
	s   *rt.Sched
	c   *sim.RunCtx
	// compressors announced by GetCapabilities (the client negotiates zstd from it)
	compressors []remoteexecution.Compressor_Value
	// handlers, if set, counts the streaming server handlers currently running
	handlers *int
}

func (n *simConn) handlerStarted() func() {
	if n.handlers == nil {
		return func() {}
	}
	*n.handlers++
	return func() { *n.handlers-- }
}

func (n *simConn) Invoke(ctx context.Context, method string, args, reply any, opts ...grpc.CallOption) error {
	rt.Yield("net.Invoke " + method)
	if err := ctx.Err(); err != nil {
		return status.FromContextError(err).Err()
	}
	in := proto.Clone(args.(proto.Message))
	var out proto.Message
	var err error
	switch method {
	case "/build.bazel.remote.execution.v2.ContentAddressableStorage/FindMissingBlobs":
		out, err = n.cas.FindMissingBlobs(ctx, in.(*remoteexecution.FindMissingBlobsRequest))
	case "/build.bazel.remote.execution.v2.ContentAddressableStorage/BatchUpdateBlobs":
		out, err = n.cas.BatchUpdateBlobs(ctx, in.(*remoteexecution.BatchUpdateBlobsRequest))
	case "/build.bazel.remote.execution.v2.ContentAddressableStorage/BatchReadBlobs":
		out, err = n.cas.BatchReadBlobs(ctx, in.(*remoteexecution.BatchReadBlobsRequest))
	case "/build.bazel.remote.execution.v2.ActionCache/GetActionResult":
		out, err = n.ac.GetActionResult(ctx, in.(*remoteexecution.GetActionResultRequest))
	case "/build.bazel.remote.execution.v2.ActionCache/UpdateActionResult":
		out, err = n.ac.UpdateActionResult(ctx, in.(*remoteexecution.UpdateActionResultRequest))
	case "/build.bazel.remote.execution.v2.Capabilities/GetCapabilities":
		out = &remoteexecution.ServerCapabilities{CacheCapabilities: &remoteexecution.CacheCapabilities{
			DigestFunctions: AllDigestFunctions, SupportedCompressors: n.compressors}}
	default:
		return status.Errorf(codes.Unimplemented, "simnet: method %s", method)
	}
	if err != nil {
		return status.Convert(err).Err()
	}
	proto.Reset(reply.(proto.Message))
	proto.Merge(reply.(proto.Message), out)
	return nil
}

// simClientStream connects a generated client stub to a server handler that
// runs in its own simulated goroutine.
type simClientStream struct {
	ctx      context.Context
	s        *rt.Sched
	toSrv    []proto.Message
	srvEOF   bool // client called CloseSend
	toCli    []proto.Message
	srvDone  bool
	srvErr   error
	abortAt  int
	sent     int
}

func (cs *simClientStream) Header() (metadata.MD, error) { return nil, nil }
func (cs *simClientStream) Trailer() metadata.MD         { return nil }
func (cs *simClientStream) Context() context.Context     { return cs.ctx }
func (cs *simClientStream) CloseSend() error {
	rt.Yield("net.CloseSend")
	cs.srvEOF = true
	return nil
}

func (cs *simClientStream) SendMsg(m any) error {
	rt.Yield("net.SendMsg")
	if err := cs.ctx.Err(); err != nil {
		return status.FromContextError(err).Err()
	}
	if cs.srvDone {
		return io.EOF
	}
	cs.toSrv = append(cs.toSrv, proto.Clone(m.(proto.Message)))
	cs.sent++
	return nil
}

func (cs *simClientStream) RecvMsg(m any) error {
	cs.s.WaitUntil("net.RecvMsg", func() bool { return len(cs.toCli) > 0 || cs.srvDone || cs.ctx.Err() != nil })
	if len(cs.toCli) > 0 {
		proto.Reset(m.(proto.Message))
		proto.Merge(m.(proto.Message), cs.toCli[0])
		cs.toCli = cs.toCli[1:]
		return nil
	}
	// a stream whose context ended is aborted on the client side, whatever
	// the handler returned (gRPC reports the caller's own cancellation)
	if err := cs.ctx.Err(); err != nil {
		return status.FromContextError(err).Err()
	}
	if cs.srvErr != nil {
		return status.Convert(cs.srvErr).Err()
	}
	return io.EOF
}

// server side views of the same stream
type simSrvWrite struct {
	srvStreamBase
	cs *simClientStream
}

func (w *simSrvWrite) Recv() (*bytestream.WriteRequest, error) {
	w.cs.s.WaitUntil("srv.Recv", func() bool { return len(w.cs.toSrv) > 0 || w.cs.srvEOF || w.ctx.Err() != nil })
	if len(w.cs.toSrv) > 0 {
		m := w.cs.toSrv[0].(*bytestream.WriteRequest)
		w.cs.toSrv = w.cs.toSrv[1:]
		return m, nil
	}
	if w.cs.srvEOF {
		return nil, io.EOF
	}
	return nil, status.FromContextError(w.ctx.Err()).Err()
}

func (w *simSrvWrite) SendAndClose(r *bytestream.WriteResponse) error {
	rt.Yield("srv.SendAndClose")
	w.cs.toCli = append(w.cs.toCli, proto.Clone(r))
	return nil
}

type simSrvRead struct {
	srvStreamBase
	cs *simClientStream
}

func (r *simSrvRead) Send(m *bytestream.ReadResponse) error {
	rt.Yield("srv.Send")
	if err := r.ctx.Err(); err != nil {
		return status.FromContextError(err).Err()
	}
	r.cs.toCli = append(r.cs.toCli, proto.Clone(m))
	return nil
}

func (n *simConn) NewStream(ctx context.Context, desc *grpc.StreamDesc, method string, opts ...grpc.CallOption) (grpc.ClientStream, error) {
	rt.Yield("net.NewStream " + method)
	if err := ctx.Err(); err != nil {
		return nil, status.FromContextError(err).Err()
	}
	cs := &simClientStream{ctx: ctx, s: n.s}
	switch method {
	case "/google.bytestream.ByteStream/Write":
		n.s.Go("srv.Write", func() {
			defer n.handlerStarted()()
			err := n.bs.Write(&simSrvWrite{srvStreamBase{ctx}, cs})
			cs.srvErr, cs.srvDone = err, true
		})
	case "/google.bytestream.ByteStream/Read":
		n.s.Go("srv.Read", func() {
			defer n.handlerStarted()()
			// server-streaming: the request is the first (only) client message
			n.s.WaitUntil("srv.Read.request", func() bool { return len(cs.toSrv) > 0 || ctx.Err() != nil })
			if len(cs.toSrv) == 0 {
				cs.srvErr, cs.srvDone = status.FromContextError(ctx.Err()).Err(), true
				return
			}
			req := cs.toSrv[0].(*bytestream.ReadRequest)
			cs.toSrv = cs.toSrv[1:]
			err := n.bs.Read(req, &simSrvRead{srvStreamBase{ctx}, cs})
			cs.srvErr, cs.srvDone = err, true
		})
	default:
		return nil, status.Errorf(codes.Unimplemented, "simnet: stream %s", method)
	}
	return cs, nil
}

func c14BackToBack(c *sim.RunCtx) {
	t := c.T.Plan
	objs := drawSimpleObjs(t, 3+t.Choose(4), "inst")
	// half of the runs use another digest function than SHA-256 (three of them
	// have a hash length that the legacy inference would take for SHA-256 or
	// SHA-1: the function must travel with every request)
	fn := remoteexecution.DigestFunction_SHA256
	if t.Chance(1, 2) {
		fn = AllDigestFunctions[t.Choose(len(AllDigestFunctions))]
	}
	// half of the runs: one or two objects that span several chunks and
	// decoder reads (sizes around and beyond the chunk sizes)
	if t.Chance(1, 2) {
		for k, n := 0, 1+t.Choose(2); k < n; k++ {
			i := t.Choose(len(objs))
			sz := []int{63, 64, 65, 200, 1000, 5000}[t.Choose(6)]
			data := make([]byte, sz)
			for j := range data {
				data[j] = byte(i*41 + j*7 + j/251)
			}
			objs[i].Data = data
		}
	}
	// half of the runs spread the objects over several instance names and
	// digest functions, and their existence checks ask about several objects
	// at once: the client has to split such a set into one request per
	// (instance name, digest function) and merge the answers
	multi := t.Chance(1, 2)
	for i := range objs {
		inst, f := "inst", fn
		if multi {
			inst = []string{"inst", "inst/sub", "other", ""}[t.Choose(4)]
			if t.Chance(1, 2) {
				f = AllDigestFunctions[t.Choose(len(AllDigestFunctions))]
			}
		}
		objs[i].D = RefDigest(inst, f, objs[i].Data)
	}
	clients := 1 + t.Choose(3)
	var plans [][][2]int
	for ci := 0; ci < clients; ci++ {
		var ops [][2]int
		for i := 0; i < 3+t.Choose(8); i++ {
			ops = append(ops, [2]int{t.Pick(4, 5, 3), t.Choose(len(objs))})
		}
		plans = append(plans, ops)
	}
	chunk := []int{1, 3, 8, 64}[t.Choose(4)]
	failRate := []int{0, 0, 100}[t.Choose(3)]
	clientZstd := t.Chance(1, 2)
	eofWithData := t.Chance(1, 2)
	desc := fmt.Sprintf("back-to-back clients=%d chunk=%d failRate=%d fn=%v clientZstd=%v eofWithData=%v", clients, chunk, failRate, fn, clientZstd, eofWithData)
	c.Sample["case"] = desc
	c.Note("case %s plans=%v", desc, plans)
	injected := 0
	c.Sim(sim.SimOpts{MaxSteps: 300000, DeadlockClass: "deadlock"}, func(s *rt.Sched) {
		backend := newModelStore(c, "backend", digest.KeyWithInstance)
		ft := c.T.Fault
		backend.Fault = func(op string, ds []digest.Digest) error {
			if failRate > 0 && ft.Chance(failRate, 1000) {
				injected++
				return status.Error(codes.Unavailable, "backend: injected failure")
			}
			return nil
		}
		conn := &simConn{bs: grpcservers.NewByteStreamServer(backend, chunk, newZstdPool()), cas: grpcservers.NewContentAddressableStorageServer(backend, 1<<20), s: s, c: c}
		// half of the runs: the client negotiates zstd (its read path feeds a
		// decoder through a pipe from its own goroutine: seam S7 substitutes a
		// simulated pipe for io.Pipe there)
		var clientPool bb_zstd.Pool
		if clientZstd {
			// (half of them with decoders that hand out their final bytes
			// together with io.EOF, as io.Reader permits)
			cp := &countingPool{name: "client", base: newZstdPool(), eofWithData: eofWithData}
			clientPool = cp
			conn.compressors = []remoteexecution.Compressor_Value{remoteexecution.Compressor_ZSTD}
			c.Count("probe_b2b_client_zstd", 1)
		}
		var ba blobstore.BlobAccess = grpcclients.NewCASBlobAccess(conn, func() (uuid.UUID, error) {
			return uuid.MustParse("11111111-2222-3333-4444-555555555555"), nil
		}, chunk, clientPool)
		ctx := context.Background()
		done := 0
		for ci := range plans {
			ops := plans[ci]
			s.Go(fmt.Sprintf("client%d", ci), func() {
				defer func() { done++ }()
				for oi, o := range ops {
					if c.Failed() {
						return
					}
					ob := objs[o[1]]
					inj0 := injected
					if o[0] == 2 && multi && (oi+o[1])%3 != 0 {
						// an existence check over several objects (objects are only
						// ever added, so: held before the call => not reported missing,
						// not held after the call => reported missing, nothing else reported)
						n := 2 + (oi*7+o[1])%(len(objs)-1)
						sb := digest.NewSetBuilder(n)
						var asked []int
						for k := 0; k < n; k++ {
							j := (o[1] + k) % len(objs)
							asked = append(asked, j)
							sb.Add(objs[j].D)
						}
						hadBefore := map[int]bool{}
						for _, j := range asked {
							hadBefore[j] = backend.Has(objs[j].D)
						}
						missing, err := ba.FindMissing(ctx, sb.Build())
						c.Count("probe_b2b_find_multi", 1)
						if err != nil {
							if injected == inj0 {
								c.Fail("spurious-error", "FindMissing over %v failed with %v [%s]", asked, err, desc)
							}
							continue
						}
						reported := map[string]bool{}
						for _, d := range missing.Items() {
							reported[d.GetKey(digest.KeyWithInstance)] = true
						}
						for _, j := range asked {
							k := objs[j].D.GetKey(digest.KeyWithInstance)
							if reported[k] && hadBefore[j] {
								c.Fail("present-reported-missing", "FindMissing over objects %v reports o%d missing although the backend held it before the call [%s]", asked, j, desc)
							} else if !reported[k] && !backend.Has(objs[j].D) {
								c.Fail("absent-reported-present", "FindMissing over objects %v reports o%d present although the backend lacks it [%s]", asked, j, desc)
							}
							delete(reported, k)
						}
						if len(reported) > 0 {
							c.Fail("find-missing-wrong-answer", "FindMissing over objects %v reports digests that were not asked about: %v [%s]", asked, reported, desc)
						}
						continue
					}
					switch o[0] {
					case 0:
						src := sim.NewChunkSource("up", &sim.SrcScript{Data: ob.Data, Cuts: []int{len(ob.Data) / 2}, ErrAt: -1})
						err := ba.Put(ctx, ob.D, buffer.NewCASBufferFromChunkReader(ob.D, src, buffer.UserProvided))
						c.Logf("Put(o%d, %d bytes) -> %v", o[1], len(ob.Data), err)
						if err == nil && !backend.Has(ob.D) {
							c.Fail("put-ok-but-not-stored", "Put(o%d) through client and server succeeded but the backend lacks it [%s]", o[1], desc)
						}
						if err != nil && injected == inj0 {
							c.Fail("spurious-error", "Put(o%d) failed with %v without any backend failure [%s]", o[1], err, desc)
						}
						if src.St.Closes != 1 {
							c.Fail("upload-source-close-count", "upload source closed %d times [%s]", src.St.Closes, desc)
						}
						c.Count("probe_b2b_put", 1)
					case 1:
						had := backend.Has(ob.D)
						gctx := ctx
						cancelled := false
						if (o[1]+len(ob.Data))%4 == 0 {
							// the caller gives up at some point during the read
							var cancel context.CancelFunc
							gctx, cancel = context.WithCancel(ctx)
							delay := 1 + (o[1]*7+len(ob.Data))%23
							s.Go("canceller", func() {
								for i := 0; i < delay; i++ {
									rt.Yield("cancel-delay")
								}
								cancelled = true
								cancel()
							})
						}
						data, err := ba.Get(gctx, ob.D).ToByteSlice(1 << 20)
						c.Logf("Get(o%d, %d bytes) had=%v cancelled=%v -> %d bytes, %v", o[1], len(ob.Data), had, cancelled, len(data), err)
						if err != nil && cancelled {
							// giving up is not corruption: the caller sees its own cancellation
							// (or NOT_FOUND / a backend failure that arrived first), never INTERNAL
							if status.Code(err) == codes.Internal {
								c.Fail("cancellation-reported-as-corruption", "Get(o%d) was cancelled by its caller and failed with %v [%s]", o[1], err, desc)
							}
							c.Count("fault_caller_cancelled_read", 1)
							continue
						}
						if err == nil {
							if !bytes.Equal(data, ob.Data) {
								c.Fail("wrong-bytes", "Get(o%d) returned %s [%s]", o[1], short(data), desc)
							} else if !backend.Has(ob.D) {
								c.Fail("get-of-absent-object", "Get(o%d) succeeded although the backend lacks it [%s]", o[1], desc)
							}
							c.Count("probe_b2b_get_ok", 1)
						} else if status.Code(err) == codes.NotFound {
							if had && injected == inj0 {
								c.Fail("present-object-not-found", "Get(o%d) returned NOT_FOUND although the backend held it [%s]", o[1], desc)
							}
						} else if injected == inj0 {
							c.Fail("spurious-error", "Get(o%d) failed with %v without any backend failure [%s]", o[1], err, desc)
						}
					case 2:
						had := backend.Has(ob.D)
						missing, err := ba.FindMissing(ctx, ob.D.ToSingletonSet())
						if err != nil {
							if injected == inj0 {
								c.Fail("spurious-error", "FindMissing failed with %v [%s]", err, desc)
							}
						} else if missing.Empty() && !backend.Has(ob.D) {
							c.Fail("absent-reported-present", "FindMissing reports o%d present although the backend lacks it [%s]", o[1], desc)
						} else if !missing.Empty() && had {
							c.Fail("present-reported-missing", "FindMissing reports o%d missing although the backend held it [%s]", o[1], desc)
						}
						c.Count("probe_b2b_find", 1)
					}
				}
			})
		}
		s.WaitUntil("clients", func() bool { return done == len(plans) })
	})
	c.Nontrivial = true
}

// (e) Action Cache back to back: the repository's AC client over the simulated
// connection to its AC server must behave like the backend, for every digest
// function and instance name: what was stored under a digest is what a read
// of that digest returns, nothing else becomes visible.
func c14ACBackToBack(c *sim.RunCtx) {
	t := c.T.Plan
	type aobj struct {
		D  digest.Digest
		AR *remoteexecution.ActionResult
	}
	var objs []aobj
	for i, n := 0, 2+t.Choose(4); i < n; i++ {
		fn := AllDigestFunctions[t.Choose(len(AllDigestFunctions))]
		inst := []string{"inst", "", "a/b"}[t.Choose(3)]
		action := []byte{byte(i), 0xAC, byte(t.Choose(4))}
		objs = append(objs, aobj{RefDigest(inst, fn, action), &remoteexecution.ActionResult{ExitCode: int32(100 + i), StdoutRaw: []byte{byte(i), 1, 2}}})
	}
	var ops [][2]int
	for i, n := 0, 4+t.Choose(10); i < n; i++ {
		ops = append(ops, [2]int{t.Pick(3, 5), t.Choose(len(objs))})
	}
	failRate := []int{0, 0, 100}[t.Choose(3)]
	desc := fmt.Sprintf("ac-back-to-back objs=%d ops=%v failRate=%d", len(objs), ops, failRate)
	c.Sample["case"] = desc
	c.Note("case %s", desc)
	c.Sim(sim.SimOpts{MaxSteps: 100000, DeadlockClass: "deadlock"}, func(s *rt.Sched) {
		backend := newModelStore(c, "backend", digest.KeyWithInstance)
		backend.ProtoAC = true
		injected := 0
		ft := c.T.Fault
		backend.Fault = func(op string, ds []digest.Digest) error {
			if failRate > 0 && ft.Chance(failRate, 1000) {
				injected++
				return status.Error(codes.Unavailable, "backend: injected failure")
			}
			return nil
		}
		conn := &simConn{ac: grpcservers.NewActionCacheServer(backend, 1<<20), s: s, c: c}
		ba := grpcclients.NewACBlobAccess(conn, 1<<20)
		ctx := context.Background()
		stored := map[string]int{} // backend key -> object index the model says it holds
		for _, o := range ops {
			if c.Failed() {
				return
			}
			ob := objs[o[1]]
			inj0 := injected
			switch o[0] {
			case 0:
				err := ba.Put(ctx, ob.D, buffer.NewProtoBufferFromProto(ob.AR, buffer.UserProvided))
				c.Logf("Put(a%d %s) -> %v", o[1], ob.D, err)
				if err != nil {
					if injected == inj0 {
						c.Fail("spurious-error", "AC Put(%s) failed with %v without any backend failure [%s]", ob.D, err, desc)
					}
					continue
				}
				if !backend.Has(ob.D) {
					c.Fail("put-ok-but-not-stored", "AC Put(%s) succeeded but the backend does not hold an entry under that digest (it holds %d entries) [%s]", ob.D, len(backend.Objs), desc)
					return
				}
				stored[backend.key(ob.D)] = o[1]
				c.Count("probe_ac_b2b_put", 1)
			default:
				m, err := ba.Get(ctx, ob.D).ToProto(&remoteexecution.ActionResult{}, 1<<20)
				c.Logf("Get(a%d %s) -> %v", o[1], ob.D, err)
				_, has := stored[backend.key(ob.D)]
				if err != nil {
					if status.Code(err) == codes.NotFound && !has {
						continue
					}
					if injected == inj0 {
						c.Fail("spurious-error", "AC Get(%s) failed with %v although the backend holds it: %v [%s]", ob.D, err, has, desc)
					}
					continue
				}
				if !has {
					c.Fail("get-of-absent-object", "AC Get(%s) returned a result although nothing was stored under that digest [%s]", ob.D, desc)
					return
				}
				if !proto.Equal(m, objs[stored[backend.key(ob.D)]].AR) {
					c.Fail("wrong-bytes", "AC Get(%s) returned another ActionResult than the one stored under that digest [%s]", ob.D, desc)
					return
				}
				c.Count("probe_ac_b2b_get_ok", 1)
			}
		}
		// nothing but the stored keys became visible in the backend
		for k := range backend.Objs {
			if _, ok := stored[k]; !ok {
				c.Fail("stored-under-other-digest", "the backend holds an entry under %s, which no successful Put named [%s]", k, desc)
				return
			}
		}
	})
	c.Nontrivial = true
}

func c14WriteRandom(c *sim.RunCtx) {
	cs := drawC14Write(c.T.Plan)
	c.Sample["case"] = cs.Desc
	runC14Write(c, cs)
}

func init() {
	sim.Register(&sim.Check{
		Prop:  "C14",
		Level: "exploration",
		Profiles: []sim.Profile{
			{Name: "write-state-machine", Weight: 5, Fn: c14WriteRandom},
			{Name: "read-offsets", Weight: 3, Fn: c14Read},
			{Name: "batch-and-ac", Weight: 3, Fn: c14Batch},
			{Name: "back-to-back", Weight: 3, Fn: c14BackToBack},
			{Name: "ac-back-to-back", Weight: 1, Fn: c14ACBackToBack},
		},
		Components: map[string][]string{
			"real": {"pkg/blobstore/grpcservers: ByteStream, ContentAddressableStorage, ActionCache servers", "pkg/blobstore/grpcclients.casBlobAccess (identity and negotiated zstd compression)", "pkg/digest resource-name codecs", "pkg/zstd (pool, read closer) with klauspost/compress in synchronous mode", "pkg/blobstore/buffer"},
			"stub": {"transport (simnet: scripted/adversarial request streams, in-memory client connection with per-message scheduling points, stream aborts, Send failures)", "backend (model store with injected failures)"},
		},
		Rule:           "write-state-machine: adversarial WriteRequest sequences (first offset != 0, gaps, overlaps, missing/repeated finish_write, data after finish, empty chunks, bad resource names, damaged content, identity and zstd, stream abort at message k, backend failure) with a reference verdict 'contiguous from zero, finished, matching'; read-offsets: every offset in -1..size+1, chunk sizes, identity and zstd, absent objects, failing Send; batch-and-ac: BatchUpdateBlobs/BatchReadBlobs with mixed valid/invalid/absent entries and size limits, FindMissingBlobs, ActionCache round trip; back-to-back: the repository's client over an in-memory connection to its servers must behave like the model backend under 1-3 concurrent clients and injected backend failures; non-trivial = an invalid sequence, a fault, a non-zero offset or the back-to-back profile",
		RequiredProbes: []string{"probe_write_accepted", "probe_write_rejected", "probe_write_zstd", "probe_read_suffix_ok", "probe_read_zstd_offset", "probe_batch_update", "probe_batch_read", "probe_find_missing", "probe_action_cache", "probe_b2b_put", "probe_b2b_get_ok"},
		Assumptions:    []string{"messages after the first finish_write are don't-care (acceptance and rejection both allowed)"},
	})
}
