package harness

import (
	"bytes"
	"fmt"
	"io"
	"strings"

	remoteexecution "github.com/bazelbuild/remote-apis/build/bazel/remote/execution/v2"
	"github.com/buildbarn/bb-storage/pkg/blobstore/buffer"
	"github.com/buildbarn/bb-storage/pkg/digest"
	"vsim/sim"

	"google.golang.org/grpc/codes"
	rt "verifsimrt"
)

// ---- C09: CAS buffers never complete a read of mismatching content ----

const (
	ctorSlice = iota
	ctorReader
	ctorChunk
	nCtors
)

var ctorNames = []string{"byte_slice", "reader", "chunk_reader"}

const (
	mmNone = iota
	mmShort
	mmLong
	mmFlip
	nMismatch
)

var mmNames = []string{"match", "short", "long", "flip"}

const (
	consByteSlice = iota
	consReader
	consChunkReader
	consReadAt
	consIntoWriter
	consProto
	consCloneCopy
	consCloneStream
	consDiscard
	nConsumers
)

var consNames = []string{"ToByteSlice", "ToReader", "ToChunkReader", "ReadAt", "IntoWriter", "ToProto", "CloneCopy", "CloneStream", "Discard"}

type c09Case struct {
	Fn       remoteexecution.DigestFunction_Value
	Content  []byte // what the digest describes
	Mismatch int
	MMArg    int // bytes removed/added, or flipped position
	Ctor     int
	Backend  bool
	Cuts     []int
	Empty    []int
	ErrAt    int
	EOFMix   bool
	Cons     int
	Off      int
	MaxChunk int
	ReadBuf  int
	SinkFail int // IntoWriter: fail after this many bytes; -1 never
	MaxSize  int // ToByteSlice/CloneCopy limit
	ErrWithData bool // reader sources: the failing Read hands out bytes together with the error
	Task     bool // a succeeding background task is attached before consumption (what replicating decorators do)
}

func (cs *c09Case) String() string {
	return fmt.Sprintf("fn=%v content=%s %s(%d) ctor=%s backend=%v cuts=%v empty=%v errAt=%d eofmix=%v cons=%s off=%d maxChunk=%d readBuf=%d sinkFail=%d maxSize=%d task=%v errWithData=%v",
		cs.Fn, short(cs.Content), mmNames[cs.Mismatch], cs.MMArg, ctorNames[cs.Ctor], cs.Backend, cs.Cuts, cs.Empty, cs.ErrAt, cs.EOFMix, consNames[cs.Cons], cs.Off, cs.MaxChunk, cs.ReadBuf, cs.SinkFail, cs.MaxSize, cs.Task, cs.ErrWithData)
}

// delivered returns the bytes the source will present.
func (cs *c09Case) delivered() []byte {
	d := append([]byte{}, cs.Content...)
	switch cs.Mismatch {
	case mmShort:
		k := cs.MMArg
		if k > len(d) {
			k = len(d)
		}
		d = d[:len(d)-k]
	case mmLong:
		for i := 0; i < cs.MMArg; i++ {
			d = append(d, byte(0xA0+i))
		}
	case mmFlip:
		if len(d) > 0 {
			d[cs.MMArg%len(d)] ^= 0x01
		}
	}
	return d
}

type failingWriter struct {
	buf   bytes.Buffer
	limit int
}

func (w *failingWriter) Write(p []byte) (int, error) {
	rt.Yield("sink.Write")
	if w.limit >= 0 && w.buf.Len()+len(p) > w.limit {
		n := w.limit - w.buf.Len()
		if n < 0 {
			n = 0
		}
		w.buf.Write(p[:n])
		return n, errSinkFull
	}
	w.buf.Write(p)
	return len(p), nil
}

var errSinkFull = InjectedError(codes.ResourceExhausted, "sink-full")

// consumeResult is what a consumer observed.
type consumeResult struct {
	Got       []byte // bytes received through successful reads
	Completed bool   // the consumption method reported successful completion
	Err       error
	Sticky    bool // a second read after an error returned data (violation)
	Partial   bool // the method by design does not see the whole object (ReadAt, Discard, sink failure)
}

// consume applies consumption method cons to b.
func consume(b buffer.Buffer, cons, off, maxChunk, readBuf, sinkFail, maxSize int, size int) consumeResult {
	var r consumeResult
	switch cons {
	case consByteSlice:
		data, err := b.ToByteSlice(maxSize)
		if err == nil {
			r.Got, r.Completed = data, true
		} else {
			r.Err = err
		}
	case consReader:
		rd := b.ToReader()
		p := make([]byte, readBuf)
		for {
			n, err := rd.Read(p)
			r.Got = append(r.Got, p[:n]...)
			if err == io.EOF {
				r.Completed = true
				break
			}
			if err != nil {
				r.Err = err
				// stickiness: a further read must not yield data
				n2, err2 := rd.Read(p)
				if n2 > 0 || err2 == nil || err2 == io.EOF {
					r.Sticky = true
				}
				break
			}
		}
		rd.Close()
	case consChunkReader:
		cr := b.ToChunkReader(int64(off), maxChunk)
		for {
			chunk, err := cr.Read()
			if err == io.EOF {
				r.Completed = true
				break
			}
			if err != nil {
				r.Err = err
				c2, err2 := cr.Read()
				if len(c2) > 0 || err2 == nil || err2 == io.EOF {
					r.Sticky = true
				}
				break
			}
			r.Got = append(r.Got, chunk...)
		}
		cr.Close()
	case consReadAt:
		p := make([]byte, readBuf)
		n, err := b.ReadAt(p, int64(off))
		r.Partial = true
		if err == nil || err == io.EOF {
			r.Got, r.Completed = p[:n], true
		} else {
			r.Err = err
			if n > 0 {
				r.Got = p[:n]
			}
		}
	case consIntoWriter:
		w := &failingWriter{limit: sinkFail}
		err := b.IntoWriter(w)
		r.Got = w.buf.Bytes()
		if err == nil {
			r.Completed = true
		} else {
			r.Err = err
			if err == errSinkFull {
				r.Partial = true
			}
		}
	case consProto:
		m, err := b.ToProto(&remoteexecution.Digest{}, maxSize)
		if err == nil {
			_ = m
			r.Completed = true
			r.Partial = true // content not observable here
		} else {
			r.Err = err
		}
	case consCloneCopy:
		b1, b2 := b.CloneCopy(maxSize)
		d1, err1 := b1.ToByteSlice(maxSize)
		d2, err2 := b2.ToByteSlice(maxSize)
		if err1 == nil && err2 == nil {
			if !bytes.Equal(d1, d2) {
				r.Err = fmt.Errorf("clone copies differ")
			}
			r.Got, r.Completed = d1, true
		} else if err1 != nil {
			r.Err = err1
		} else {
			r.Err = err2
		}
	case consCloneStream:
		b1, b2 := b.CloneStream()
		var d1, d2 []byte
		var err1, err2 error
		done := 0
		s := rt.Active()
		// the second clone either reads as well, or is discarded, or reads
		// one chunk and closes (chosen by the offset parameter): a consumer
		// that does not need validation must not switch it off for the other
		mode := off % 3
		s.Go("clone1", func() { d1, err1 = b1.ToByteSlice(maxSize); done++ })
		s.Go("clone2", func() {
			switch mode {
			case 0:
				d2, err2 = b2.ToByteSlice(maxSize)
			case 1:
				b2.Discard()
				d2, err2 = nil, nil
			default:
				cr := b2.ToChunkReader(0, 1)
				cr.Read()
				cr.Close()
			}
			done++
		})
		s.WaitUntil("clones done", func() bool { return done == 2 })
		if mode != 0 {
			if err1 == nil {
				r.Got, r.Completed = d1, true
			} else {
				r.Err = err1
			}
		} else if err1 == nil && err2 == nil {
			if !bytes.Equal(d1, d2) {
				r.Err = fmt.Errorf("stream clones differ")
			}
			r.Got, r.Completed = d1, true
		} else if err1 != nil {
			r.Err = err1
		} else {
			r.Err = err2
		}
	case consDiscard:
		b.Discard()
		r.Partial = true
	}
	return r
}

func runC09Case(c *sim.RunCtx, cs *c09Case) {
	delivered := cs.delivered()
	c.Note("case %s", cs)
	matches := bytes.Equal(delivered, cs.Content)
	size := len(cs.Content)
	d := digest.MustNewDigest("inst", cs.Fn, RefHash(cs.Fn, cs.Content), int64(size))

	var cbTrue, cbFalse int
	source := buffer.UserProvided
	wantCode := codes.InvalidArgument
	if cs.Backend {
		source = buffer.BackendProvided(func(valid bool) {
			if valid {
				cbTrue++
			} else {
				cbFalse++
			}
		})
		wantCode = codes.Internal
	}
	ioErr := InjectedError(codes.Unavailable, "c09")
	script := &sim.SrcScript{Data: delivered, Cuts: cs.Cuts, Empty: cs.Empty, ErrAt: cs.ErrAt, Err: ioErr, EOFMix: cs.EOFMix, ErrWithData: cs.ErrWithData}
	var st *sim.SrcStats
	var res consumeResult
	c.Sim(sim.SimOpts{MaxSteps: 20000, DeadlockClass: "deadlock"}, func(s *rt.Sched) {
		var b buffer.Buffer
		switch cs.Ctor {
		case ctorSlice:
			b = buffer.NewCASBufferFromByteSlice(d, delivered, source)
			st = &sim.SrcStats{Closes: 1}
		case ctorReader:
			src := sim.NewReaderSource("up", script)
			st = src.St
			b = buffer.NewCASBufferFromReader(d, src, source)
		case ctorChunk:
			src := sim.NewChunkSource("up", script)
			st = src.St
			b = buffer.NewCASBufferFromChunkReader(d, src, source)
		}
		if n, err := b.GetSizeBytes(); cs.Ctor != ctorSlice || matches {
			// (a byte-slice buffer of mismatching content is an error buffer
			// whose size is unknown)
			if err != nil || n != int64(size) {
				c.Fail("size-report", "GetSizeBytes() = %d, %v; digest says %d [%s]", n, err, size, cs)
			}
		}
		if cs.Task {
			// the wrapper must not weaken anything: a task that succeeds changes no outcome
			b = b.WithTask(func() error { rt.Yield("task"); return nil })
			c.Count("probe_with_succeeding_task", 1)
		}
		res = consume(b, cs.Cons, cs.Off, cs.MaxChunk, cs.ReadBuf, cs.SinkFail, cs.MaxSize, size)
	})
	if c.Failed() {
		return
	}
	ioFired := st.ErrFired
	desc := cs.String()
	c.Count("cons_"+consNames[cs.Cons], 1)
	c.Count("case_"+mmNames[cs.Mismatch], 1)
	if ioFired {
		c.Count("fault_source_io_error", 1)
	}
	if len(cs.Empty) > 0 {
		c.Count("fault_empty_chunk", 1)
	}

	// (1) success only for matching content
	if res.Completed && !matches && cs.Cons != consDiscard {
		c.Fail("completed-mismatch", "consumer completed successfully although content mismatches digest: got=%s [%s]", short(res.Got), desc)
		return
	}
	if res.Completed && !res.Partial {
		exp := cs.Content
		if cs.Cons == consChunkReader {
			if cs.Off > len(cs.Content) {
				c.Fail("completed-at-invalid-offset", "a chunk reader opened at offset %d of a %d byte object completed successfully [%s]", cs.Off, len(cs.Content), desc)
				return
			}
			exp = cs.Content[cs.Off:]
		}
		if !bytes.Equal(res.Got, exp) {
			c.Fail("wrong-bytes", "completed with bytes %s, expected %s [%s]", short(res.Got), short(exp), desc)
			return
		}
	}
	if res.Completed && cs.Cons == consReadAt {
		end := cs.Off + cs.ReadBuf
		if end > size {
			end = size
		}
		exp := []byte{}
		if cs.Off < size {
			exp = cs.Content[cs.Off:end]
		}
		if !bytes.Equal(res.Got, exp) {
			c.Fail("wrong-bytes", "ReadAt returned %s, expected %s [%s]", short(res.Got), short(exp), desc)
			return
		}
	}
	// (2) received bytes are always a prefix (from the start offset) of what the source presented
	if cs.Cons == consReader || cs.Cons == consChunkReader || cs.Cons == consIntoWriter {
		base := delivered
		o := 0
		if cs.Cons == consChunkReader {
			o = cs.Off
		}
		if o <= len(base) {
			if !bytes.HasPrefix(base[o:], res.Got) {
				c.Fail("wrong-bytes", "consumer received %s which is not a prefix of the presented data from offset %d [%s]", short(res.Got), o, desc)
				return
			}
		} else if len(res.Got) > 0 {
			c.Fail("wrong-bytes", "consumer received data beyond the end [%s]", desc)
			return
		}
	}
	// (3) errors
	if res.Err != nil {
		code := Code(res.Err)
		isIO := strings.Contains(res.Err.Error(), "injected-io-error-c09")
		if isIO && !ioFired {
			c.Fail("phantom-io-error", "I/O error reported that the source never raised [%s]", desc)
			return
		}
		if isIO {
			if code != codes.Unavailable {
				c.Fail("io-error-not-passed-through", "source error came back with code %v: %v [%s]", code, res.Err, desc)
				return
			}
		} else if res.Err == errSinkFull {
			// consumer-side failure: fine
		} else if !matches && !ioFired {
			// a pure content mismatch must be reported with the source's code, unless
			// the request itself was invalid (offset / size limit)
			invalidRequest := (cs.Cons == consChunkReader && (cs.Off > size)) ||
				((cs.Cons == consByteSlice || cs.Cons == consCloneCopy || cs.Cons == consCloneStream || cs.Cons == consProto) && size > cs.MaxSize)
			if code != wantCode && !(invalidRequest && code == codes.InvalidArgument) {
				c.Fail("wrong-error-code", "mismatch reported with code %v, want %v: %v [%s]", code, wantCode, res.Err, desc)
				return
			}
		} else if matches && !ioFired {
			// matching content, no I/O fault: only request-level errors are legitimate
			legit := (cs.Cons == consChunkReader && cs.Off > size) ||
				((cs.Cons == consByteSlice || cs.Cons == consCloneCopy || cs.Cons == consCloneStream || cs.Cons == consProto) && size > cs.MaxSize) ||
				(cs.Cons == consProto && code == codes.InvalidArgument)
			if !legit {
				c.Fail("spurious-error", "matching content without faults failed: %v [%s]", res.Err, desc)
				return
			}
		}
		if res.Sticky {
			c.Fail("error-not-sticky", "a read after an error returned data or success [%s]", desc)
			return
		}
	}
	// (4) the final portion is withheld on a mismatch
	if !matches && (cs.Cons == consReader || cs.Cons == consChunkReader || cs.Cons == consIntoWriter) {
		o := 0
		if cs.Cons == consChunkReader {
			o = cs.Off
		}
		full := size - o
		if full < 1 {
			full = 1
		}
		if len(res.Got) >= full && o <= size {
			c.Fail("final-portion-not-withheld", "consumer received %d bytes (stated size %d, offset %d) of mismatching content [%s]", len(res.Got), size, o, desc)
			return
		}
	}
	// (5) integrity callback
	if cbTrue > 0 && !matches {
		c.Fail("callback-true-on-mismatch", "integrity callback reported valid for mismatching content [%s]", desc)
		return
	}
	if cbFalse > 0 && matches {
		c.Fail("callback-false-on-match", "integrity callback reported invalid for matching content [%s]", desc)
		return
	}
	if cs.Backend && !matches && !ioFired && res.Err != nil && cbFalse == 0 && Code(res.Err) == codes.Internal {
		c.Fail("callback-missing", "mismatch detected but integrity callback not told [%s]", desc)
		return
	}
	if st.Closes != 1 {
		c.Count("note_source_close_count_not_1", 1)
	}
	if !matches || ioFired {
		c.Nontrivial = true
	}
}

func drawC09Case(t *sim.Tape) *c09Case {
	cs := &c09Case{ErrAt: -1, SinkFail: -1}
	cs.Fn = AllDigestFunctions[t.Choose(len(AllDigestFunctions))]
	n := []int{0, 1, 2, 3, 5, 8, 16, 17, 31, 33, 64, 100, 200}[t.Choose(13)]
	cs.Content = t.Bytes(n)
	cs.Mismatch = t.Pick(4, 2, 2, 3)
	switch cs.Mismatch {
	case mmShort:
		if n == 0 {
			cs.Mismatch = mmLong
			cs.MMArg = 1 + t.Choose(3)
		} else {
			cs.MMArg = 1 + t.Choose(min(n, 4))
		}
	case mmLong:
		cs.MMArg = 1 + t.Choose(4)
	case mmFlip:
		if n == 0 {
			cs.Mismatch = mmLong
			cs.MMArg = 1
		} else {
			// bias to the last byte
			if t.Chance(1, 3) {
				cs.MMArg = n - 1
			} else {
				cs.MMArg = t.Choose(n)
			}
		}
	}
	cs.Ctor = t.Pick(1, 3, 3)
	cs.Backend = t.Chance(1, 2)
	dl := len(cs.delivered())
	cs.Cuts = sim.DrawCuts(t, dl, 4)
	if t.Chance(1, 4) {
		cs.Empty = []int{t.Choose(len(cs.Cuts) + 2)}
	}
	if t.Chance(1, 4) {
		cs.ErrAt = t.Choose(len(cs.Cuts) + 3)
	}
	cs.EOFMix = t.Chance(1, 3)
	cs.Cons = t.Choose(nConsumers)
	switch cs.Cons {
	case consChunkReader:
		cs.Off = []int{0, 0, 1, n / 2, n, n + 1}[t.Choose(6)]
		if cs.Off < 0 {
			cs.Off = 0
		}
		cs.MaxChunk = []int{1, 2, 3, 7, 64, 1 << 16}[t.Choose(6)]
	case consReadAt:
		cs.Off = []int{0, 1, n / 2, n, n + 1}[t.Choose(5)]
		cs.ReadBuf = []int{0, 1, 2, n, n + 1, 7}[t.Choose(6)]
	case consReader:
		cs.ReadBuf = []int{1, 2, 3, 7, 64, 300}[t.Choose(6)]
	case consIntoWriter:
		if t.Chance(1, 4) {
			cs.SinkFail = t.Choose(n + 1)
		}
	case consCloneStream:
		cs.Off = t.Choose(3)
	}
	cs.MaxSize = 1000
	if t.Chance(1, 10) {
		cs.MaxSize = t.Choose(n + 2)
	}
	cs.Task = t.Chance(1, 5)
	cs.ErrWithData = cs.Ctor == ctorReader && cs.ErrAt >= 0 && t.Chance(1, 2)
	return cs
}

func c09Random(c *sim.RunCtx) {
	cs := drawC09Case(c.T.Plan)
	c.Sample["case"] = cs.String()
	runC09Case(c, cs)
}

// c09Exhaustive enumerates all small cases: sizes <= 3, <= 3 chunks, every
// constructor x mismatch x consumer x error position.
func c09Exhaustive(c *sim.RunCtx) {
	n := 0
	contents := [][]byte{{}, {0x41}, {0x41, 0x42}, {0x41, 0x42, 0x43}}
	for _, content := range contents {
		for mm := 0; mm < nMismatch; mm++ {
			var args []int
			switch mm {
			case mmNone:
				args = []int{0}
			case mmShort:
				for k := 1; k <= len(content); k++ {
					args = append(args, k)
				}
			case mmLong:
				args = []int{1, 2}
			case mmFlip:
				for k := 0; k < len(content); k++ {
					args = append(args, k)
				}
			}
			for _, arg := range args {
				for ctor := 0; ctor < nCtors; ctor++ {
					base := c09Case{Fn: remoteexecution.DigestFunction_SHA256, Content: content, Mismatch: mm, MMArg: arg, Ctor: ctor, ErrAt: -1, SinkFail: -1, MaxSize: 100}
					dl := len(base.delivered())
					var cutSets [][]int
					cutSets = append(cutSets, nil)
					if ctor != ctorSlice {
						for a := 1; a < dl; a++ {
							cutSets = append(cutSets, []int{a})
							for b := a + 1; b < dl; b++ {
								cutSets = append(cutSets, []int{a, b})
							}
						}
					}
					for _, cuts := range cutSets {
						errPositions := []int{-1}
						if ctor != ctorSlice {
							for e := 0; e <= len(cuts)+1; e++ {
								errPositions = append(errPositions, e)
							}
						}
						for _, errAt := range errPositions {
							for _, backend := range []bool{false, true} {
								for cons := 0; cons < nConsumers; cons++ {
									variants := []c09Case{base}
									variants[0].Cuts, variants[0].ErrAt, variants[0].Backend, variants[0].Cons = cuts, errAt, backend, cons
									v := &variants[0]
									switch cons {
									case consChunkReader:
										for off := 0; off <= len(content)+1; off++ {
											for _, mc := range []int{1, 2, 100} {
												x := *v
												x.Off, x.MaxChunk = off, mc
												variants = append(variants, x)
											}
										}
										variants = variants[1:]
									case consReadAt:
										for off := 0; off <= len(content)+1; off++ {
											for rb := 0; rb <= len(content)+1; rb++ {
												x := *v
												x.Off, x.ReadBuf = off, rb
												variants = append(variants, x)
											}
										}
										variants = variants[1:]
									case consReader:
										for _, rb := range []int{1, 2, 100} {
											x := *v
											x.ReadBuf = rb
											x.EOFMix = false
											variants = append(variants, x)
											x.EOFMix = true
											variants = append(variants, x)
										}
										variants = variants[1:]
									}
									for i := range variants {
										runC09Case(c, &variants[i])
										n++
										if c.Failed() {
											c.Sample["cases"] = n
											return
										}
									}
								}
							}
						}
					}
				}
			}
		}
	}
	c.Stats["exhaustive_cases"] = n
	c.Sample["exhaustive_cases"] = n
	c.Nontrivial = true
}

func init() {
	sim.Register(&sim.Check{
		Prop:  "C09",
		Level: "exploration",
		Profiles: []sim.Profile{
			{Name: "random", Weight: 3, Fn: c09Random},
			{Name: "validation-cache", Weight: 1, Fn: c09ValidationCache},
			{Name: "exhaustive-small", Prologue: true, Fn: c09Exhaustive},
		},
		Components: map[string][]string{
			"real": {"pkg/blobstore/buffer (all CAS buffer kinds, validating readers, conversions, clones)", "pkg/digest (hashers)"},
			"stub": {"upload/download source (simsource: chunking, short reads, empty chunks, early EOF, trailing data, I/O error)", "sink (failing writer)"},
		},
		Rule: "a case = (digest function, content, mismatch kind, constructor, source chunking/empty chunks/EOF style/error position, consumption method, offset, chunk size); non-trivial = content mismatches the digest or a source I/O error fired; distinct = distinct event-log hash",
		Assumptions: []string{"reference hashes computed with the Go standard library / upstream BLAKE3 and SHA256TREE libraries, not pkg/digest"},
	})
}
