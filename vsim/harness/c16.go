package harness

import (
	"bytes"
	"fmt"
	"io"
	"strings"

	remoteexecution "github.com/bazelbuild/remote-apis/build/bazel/remote/execution/v2"
	"github.com/buildbarn/bb-storage/pkg/blobstore/buffer"
	"github.com/buildbarn/bb-storage/pkg/digest"
	"vsim/sim"

	"google.golang.org/grpc/codes"
	"google.golang.org/grpc/status"
	rt "verifsimrt"
)

// ---- C16: I/O-error recovery resumes at the right offset ----
//
// A case is: an object (content + digest), an original buffer, 1..3 error
// handlers stacked on it, and one consumption method. Sources fail at byte
// positions drawn from the fault tape; handlers answer every OnError() call
// with a response drawn from the plan tape: a replacement buffer (of any
// kind, any chunking, possibly failing again, possibly an error buffer,
// possibly carrying wrong bytes, possibly with an error handler of its own),
// a fresh ("translated") error, or the same error.
//
// The oracle is observational plus a small reference model: sources record
// how many bytes they handed out, handlers record every call. From that the
// stitched stream the consumer should have seen is recomputed independently
// (c16_model.go) and compared with what it did see.

const (
	c16KChunk = iota
	c16KReader
	c16KCASSlice
	c16KValidSlice
	c16KReaderAt
	c16KError
	c16NKinds
)

var c16KindNames = []string{"cas_chunk", "cas_reader", "cas_slice", "valid_slice", "reader_at", "error"}

const (
	c16WNone = iota
	c16WFlip
	c16WShort
	c16WLong
)

var c16WrongNames = []string{"ok", "flip", "short", "long"}

const (
	c16RReplace = iota
	c16RTranslate
	c16RPass
)

var c16RespNames = []string{"replace", "translate", "pass"}

// c16BufSpec describes one buffer (the original or a replacement).
type c16BufSpec struct {
	Kind        int
	Wrong       int
	WArg        int
	Cuts        []int
	Empty       []int
	FailAt      int  // byte position at which the source starts failing; -1 never
	ErrWithData bool // reader / reader-at: the failing call also returns the bytes in front of FailAt
	EOFMix      bool // reader: last data read returns (n, io.EOF)
	Own         *c16HandlerSpec
	// Cloned: the replacement is one handle of a stream-clone pair whose
	// sibling is drained by another goroutine (what a replicating backend
	// hands out). Only drawn for intact, non-failing replacements of
	// transfers that are consumed to the end.
	Cloned bool
}

func (b *c16BufSpec) String() string {
	s := c16KindNames[b.Kind]
	if b.Wrong != c16WNone {
		s += fmt.Sprintf(" %s(%d)", c16WrongNames[b.Wrong], b.WArg)
	}
	if len(b.Cuts) > 0 {
		s += fmt.Sprintf(" cuts=%v", b.Cuts)
	}
	if len(b.Empty) > 0 {
		s += fmt.Sprintf(" empty=%v", b.Empty)
	}
	if b.FailAt >= 0 {
		s += fmt.Sprintf(" failAt=%d", b.FailAt)
		if b.ErrWithData {
			s += "+data"
		}
	}
	if b.EOFMix {
		s += " eofmix"
	}
	if b.Own != nil {
		s += " own-handler"
	}
	if b.Cloned {
		s += " stream-clone"
	}
	return s
}

type c16Resp struct {
	Kind int
	Buf  *c16BufSpec
}

// c16HandlerSpec is the script of one handler. When Lazy, responses beyond
// the recorded ones are drawn from the plan tape at the time of the call.
type c16HandlerSpec struct {
	Resps []c16Resp
	Lazy  bool
}

type c16Case struct {
	Fn       remoteexecution.DigestFunction_Value
	N        int
	Base     byte
	Step     byte
	Proto    bool
	Backend  bool
	Orig     *c16BufSpec
	Handlers []*c16HandlerSpec // innermost first
	Cons     int
	Off      int
	MaxChunk int
	ReadBuf  int
	SinkFail int
	MaxSize  int
	Stop     int // Reader/ChunkReader: stop and Close after this many bytes; -1 = read to the end
	OwnNum   int // lazy draws: chance (of 6) that a replacement gets a handler of its own
	MaxRepl  int
	Task     bool // a succeeding background task is attached on top of the handlers (what replicating backends build)
}

func (cs *c16Case) String() string {
	s := fmt.Sprintf("fn=%v n=%d base=%#x step=%d handlers=%d task=%v cons=%s", cs.Fn, cs.N, cs.Base, cs.Step, len(cs.Handlers), cs.Task, consNames[cs.Cons])
	switch cs.Cons {
	case consReader:
		s += fmt.Sprintf(" readBuf=%d stop=%d", cs.ReadBuf, cs.Stop)
	case consChunkReader:
		s += fmt.Sprintf(" off=%d maxChunk=%d stop=%d", cs.Off, cs.MaxChunk, cs.Stop)
	case consReadAt:
		s += fmt.Sprintf(" off=%d len=%d", cs.Off, cs.ReadBuf)
	case consIntoWriter:
		s += fmt.Sprintf(" sinkFail=%d", cs.SinkFail)
	case consByteSlice, consProto, consCloneCopy, consCloneStream:
		s += fmt.Sprintf(" maxSize=%d", cs.MaxSize)
	}
	if cs.Backend {
		s += " backend"
	}
	return s
}

func c16Content(cs *c16Case) []byte {
	n := cs.N
	out := make([]byte, n)
	step := int(cs.Step) | 1
	if cs.Proto {
		// a valid remoteexecution.Digest message: field 1 (hash), n-2 ASCII bytes
		if n == 0 {
			return out
		}
		if n < 2 {
			panic(sim.HarnessError{Msg: "c16: proto content needs n=0 or n>=2"})
		}
		out[0] = 0x0a
		out[1] = byte(n - 2)
		if step%47 == 0 {
			step = 1
		}
		for i := 2; i < n; i++ {
			out[i] = byte(0x21 + (int(cs.Base)+(i-2)*step)%94)
		}
		return out
	}
	for i := range out {
		out[i] = byte(int(cs.Base) + i*step)
	}
	return out
}

// c16Data returns the bytes a buffer of this spec presents.
func c16Data(content []byte, b *c16BufSpec) []byte {
	d := append([]byte{}, content...)
	switch b.Wrong {
	case c16WFlip:
		if len(d) > 0 {
			d[b.WArg%len(d)] ^= 0x80
		}
	case c16WShort:
		k := b.WArg
		if k > len(d) {
			k = len(d)
		}
		d = d[:len(d)-k]
	case c16WLong:
		for i := 0; i < b.WArg; i++ {
			d = append(d, byte(0xE0+i))
		}
	}
	return d
}

// ---------------------------------------------------------------------
// run state

type c16Inst struct {
	idx     int
	spec    *c16BufSpec
	data    []byte
	correct bool
	err     error
	errTag  string
	handler *c16Handler // innermost handler responsible for this buffer's errors (nil: none)
	attachedDirectly bool // the handler was attached to this very buffer by WithErrorHandler
	direct           bool // handed out before consumption started (original, or substitute for an original in a known error state)

	// observations
	closable       bool
	delivered      int // bytes handed out (stream) / furthest byte handed out (reader-at)
	reads          int
	raised         int
	closes         int
	readAfterClose int
	closed         bool
	failed         bool
}

type c16Call struct {
	err    error
	tag    string
	resp   int
	ret    error
	retTag string
	buf    int
}

type c16Handler struct {
	r      *c16Run
	id     int
	spec   *c16HandlerSpec
	parent *c16Handler
	depth  int
	calls  []c16Call
	done   int
	afterDone int
	nonError  int
}

type c16Run struct {
	c       *sim.RunCtx
	cs      *c16Case
	s        *rt.Sched // set while a random case runs: replacements may have siblings
	siblings int
	content []byte
	dg      digest.Digest
	source  buffer.Source
	insts   []*c16Inst
	hs      []*c16Handler
	tops    []*c16Handler // handlers stacked on the original, innermost first
	nextErr int
	repl    int
	res     consumeResult
	stopped bool
	// attaching > 0 while buffer.WithErrorHandler is running: a replacement
	// requested now substitutes a buffer in a known error state before any
	// consumption, and is handed on as is (no error-handling buffer, hence no
	// stitched validation, is put around a validated replacement).
	attaching int
	consuming bool
	cbTrue, cbFalse int
}

func (r *c16Run) newErr(what string) (error, string) {
	r.nextErr++
	tag := fmt.Sprintf("c16e%d-", r.nextErr)
	code := []codes.Code{codes.Unavailable, codes.Internal, codes.NotFound, codes.DeadlineExceeded}[r.nextErr%4]
	return status.Error(code, "injected-io-error-"+tag+what), tag
}

// c16Tag extracts the tag of an injected error ("" when err is not one of ours).
func c16Tag(err error) string {
	if err == nil {
		return ""
	}
	msg := err.Error()
	i := strings.Index(msg, "c16e")
	if i < 0 {
		return ""
	}
	j := i + 4
	for j < len(msg) && msg[j] >= '0' && msg[j] <= '9' {
		j++
	}
	if j < len(msg) && msg[j] == '-' {
		return msg[i : j+1]
	}
	return ""
}

func c16SameErr(a, b error) bool {
	if a == nil || b == nil {
		return a == nil && b == nil
	}
	ta, tb := c16Tag(a), c16Tag(b)
	if ta != "" || tb != "" {
		return ta == tb
	}
	return a.Error() == b.Error()
}

func (r *c16Run) newHandler(spec *c16HandlerSpec, parent *c16Handler, depth int) *c16Handler {
	h := &c16Handler{r: r, id: len(r.hs), spec: spec, parent: parent, depth: depth}
	r.hs = append(r.hs, h)
	return h
}

func (h *c16Handler) OnError(err error) (buffer.Buffer, error) {
	rt.Yield(fmt.Sprintf("H%d.OnError", h.id))
	r := h.r
	idx := len(h.calls)
	if h.done > 0 {
		h.afterDone++
	}
	if err == nil || err == io.EOF {
		h.nonError++
	}
	call := c16Call{err: err, tag: c16Tag(err), buf: -1}
	var resp c16Resp
	if idx < len(h.spec.Resps) {
		resp = h.spec.Resps[idx]
	} else if h.spec.Lazy {
		resp = r.drawResp(h.depth)
		h.spec.Resps = append(h.spec.Resps, resp)
	} else {
		resp = c16Resp{Kind: c16RPass}
	}
	call.resp = resp.Kind
	switch resp.Kind {
	case c16RReplace:
		r.repl++
		call.buf = len(r.insts)
		r.c.Note("H%d.OnError#%d(%s) -> replace b%d{%s}", h.id, idx, c16ErrName(err), call.buf, resp.Buf)
		h.calls = append(h.calls, call)
		return r.build(resp.Buf, h), nil
	case c16RTranslate:
		e, tag := r.newErr("translated")
		call.ret, call.retTag = e, tag
		r.c.Note("H%d.OnError#%d(%s) -> translate %s", h.id, idx, c16ErrName(err), tag)
		h.calls = append(h.calls, call)
		return nil, e
	default:
		call.ret, call.retTag = err, call.tag
		r.c.Note("H%d.OnError#%d(%s) -> pass", h.id, idx, c16ErrName(err))
		h.calls = append(h.calls, call)
		return nil, err
	}
}

func (h *c16Handler) Done() {
	rt.Yield(fmt.Sprintf("H%d.Done", h.id))
	h.done++
	h.r.c.Logf("H%d.Done (#%d)", h.id, h.done)
}

func c16ErrName(err error) string {
	if err == nil {
		return "<nil>"
	}
	if t := c16Tag(err); t != "" {
		return t
	}
	m := err.Error()
	if len(m) > 60 {
		m = m[:60] + "…"
	}
	return "foreign:" + m
}

// build creates the buffer described by spec. provider is the handler that
// hands it out (nil for the original, whose handlers are r.tops).
func (r *c16Run) build(spec *c16BufSpec, provider *c16Handler) buffer.Buffer {
	inst := &c16Inst{idx: len(r.insts), spec: spec, data: c16Data(r.content, spec)}
	inst.correct = bytes.Equal(inst.data, r.content)
	r.insts = append(r.insts, inst)
	inst.direct = !r.consuming
	inst.handler = provider
	if provider == nil && len(r.tops) > 0 {
		inst.handler = r.tops[0]
		inst.attachedDirectly = true
	}
	var own *c16Handler
	if spec.Own != nil {
		depth := 1
		if provider != nil {
			depth = provider.depth + 1
		}
		own = r.newHandler(spec.Own, provider, depth)
		inst.handler = own
		inst.attachedDirectly = true
	}
	if spec.FailAt >= 0 || spec.Kind == c16KError {
		inst.err, inst.errTag = r.newErr(fmt.Sprintf("b%d", inst.idx))
	}
	var b buffer.Buffer
	switch spec.Kind {
	case c16KChunk:
		inst.closable = true
		b = buffer.NewCASBufferFromChunkReader(r.dg, newC16ChunkSrc(inst), r.source)
	case c16KReader:
		inst.closable = true
		b = buffer.NewCASBufferFromReader(r.dg, newC16ReaderSrc(inst), r.source)
	case c16KCASSlice:
		b = buffer.NewCASBufferFromByteSlice(r.dg, append([]byte{}, inst.data...), r.source)
	case c16KValidSlice:
		b = buffer.NewValidatedBufferFromByteSlice(append([]byte{}, inst.data...))
	case c16KReaderAt:
		inst.closable = true
		b = buffer.NewValidatedBufferFromReaderAt(&c16ReaderAtSrc{in: inst}, int64(len(inst.data)))
	case c16KError:
		b = buffer.NewBufferFromError(inst.err)
	default:
		panic(sim.HarnessError{Msg: "c16: unknown buffer kind"})
	}
	if own != nil {
		r.attaching++
		b = buffer.WithErrorHandler(b, own)
		r.attaching--
	}
	if spec.Cloned && r.s != nil {
		b1, b2 := b.CloneStream()
		b = b1
		r.siblings++
		r.s.Go("replacement-sibling", func() {
			defer func() { r.siblings-- }()
			b2.IntoWriter(io.Discard)
		})
		r.c.Count("probe_replacement_is_stream_clone", 1)
	}
	return b
}

// ---------------------------------------------------------------------
// sources: fail at a byte position; errors are sticky

func c16Chunks(in *c16Inst) [][]byte {
	sp := in.spec
	cuts := append([]int{}, sp.Cuts...)
	if sp.FailAt > 0 && sp.FailAt < len(in.data) {
		cuts = append(cuts, sp.FailAt)
		for i := len(cuts) - 1; i > 0 && cuts[i-1] > cuts[i]; i-- {
			cuts[i-1], cuts[i] = cuts[i], cuts[i-1]
		}
	}
	sc := &sim.SrcScript{Data: in.data, Cuts: cuts, Empty: sp.Empty}
	return sc.Chunks()
}

type c16ChunkSrc struct {
	in     *c16Inst
	chunks [][]byte
	i      int
	pos    int
}

func newC16ChunkSrc(in *c16Inst) *c16ChunkSrc {
	return &c16ChunkSrc{in: in, chunks: c16Chunks(in)}
}

func (s *c16ChunkSrc) Read() ([]byte, error) {
	in := s.in
	rt.Yield(fmt.Sprintf("b%d.Read", in.idx))
	if in.closed {
		in.readAfterClose++
		return nil, status.Error(codes.Internal, "c16 source: read after close")
	}
	in.reads++
	if in.failed || (in.spec.FailAt >= 0 && s.pos >= in.spec.FailAt) {
		in.failed = true
		in.raised++
		return nil, in.err
	}
	if s.i >= len(s.chunks) {
		return nil, io.EOF
	}
	ch := s.chunks[s.i]
	s.i++
	s.pos += len(ch)
	in.delivered += len(ch)
	return append([]byte{}, ch...), nil
}

func (s *c16ChunkSrc) Close() {
	rt.Yield(fmt.Sprintf("b%d.Close", s.in.idx))
	s.in.closed = true
	s.in.closes++
}

type c16ReaderSrc struct {
	in     *c16Inst
	chunks [][]byte
	i      int
	off    int
	pos    int
}

func newC16ReaderSrc(in *c16Inst) *c16ReaderSrc {
	return &c16ReaderSrc{in: in, chunks: c16Chunks(in)}
}

func (s *c16ReaderSrc) Read(p []byte) (int, error) {
	in := s.in
	rt.Yield(fmt.Sprintf("b%d.Read", in.idx))
	if in.closed {
		in.readAfterClose++
		return 0, status.Error(codes.Internal, "c16 source: read after close")
	}
	in.reads++
	fa := in.spec.FailAt
	if in.failed || (fa >= 0 && s.pos >= fa) {
		in.failed = true
		in.raised++
		return 0, in.err
	}
	for s.i < len(s.chunks) && len(s.chunks[s.i]) > 0 && s.off >= len(s.chunks[s.i]) {
		s.i++
		s.off = 0
	}
	if s.i >= len(s.chunks) {
		return 0, io.EOF
	}
	ch := s.chunks[s.i]
	if len(ch) == 0 {
		// zero-length read without error
		s.i++
		s.off = 0
		return 0, nil
	}
	if len(p) == 0 {
		return 0, nil
	}
	k := copy(p, ch[s.off:])
	s.off += k
	s.pos += k
	in.delivered += k
	if s.off >= len(ch) {
		s.i++
		s.off = 0
	}
	if fa >= 0 && s.pos >= fa && in.spec.ErrWithData {
		in.failed = true
		in.raised++
		return k, in.err
	}
	if in.spec.EOFMix && s.pos == len(in.data) {
		return k, io.EOF
	}
	return k, nil
}

func (s *c16ReaderSrc) Close() error {
	rt.Yield(fmt.Sprintf("b%d.Close", s.in.idx))
	s.in.closed = true
	s.in.closes++
	return nil
}

type c16ReaderAtSrc struct {
	in *c16Inst
}

func (s *c16ReaderAtSrc) ReadAt(p []byte, off int64) (int, error) {
	in := s.in
	rt.Yield(fmt.Sprintf("b%d.ReadAt(%d,%d)", in.idx, off, len(p)))
	if in.closed {
		in.readAfterClose++
		return 0, status.Error(codes.Internal, "c16 source: read after close")
	}
	in.reads++
	m := len(in.data)
	o := int(off)
	if o >= m {
		return 0, io.EOF
	}
	n := len(p)
	if n > m-o {
		n = m - o
	}
	fa := in.spec.FailAt
	if fa >= 0 && o+n > fa {
		in.raised++
		in.failed = true
		if in.spec.ErrWithData && fa > o {
			k := copy(p, in.data[o:fa])
			if o+k > in.delivered {
				in.delivered = o + k
			}
			return k, in.err
		}
		return 0, in.err
	}
	copy(p, in.data[o:o+n])
	if n > 0 && o+n > in.delivered {
		in.delivered = o + n
	}
	if n < len(p) {
		return n, io.EOF
	}
	return n, nil
}

func (s *c16ReaderAtSrc) Close() error {
	rt.Yield(fmt.Sprintf("b%d.Close", s.in.idx))
	s.in.closed = true
	s.in.closes++
	return nil
}

// ---------------------------------------------------------------------
// lazy drawing of handler responses / buffers

func c16Whole(cons int) bool {
	return cons == consByteSlice || cons == consReadAt || cons == consProto || cons == consCloneCopy
}

func (r *c16Run) drawResp(depth int) c16Resp {
	t := r.c.T.Plan
	if r.repl >= r.cs.MaxRepl {
		return c16Resp{Kind: c16RPass}
	}
	k := t.Pick(6, 2, 1)
	if k != c16RReplace {
		return c16Resp{Kind: k}
	}
	return c16Resp{Kind: c16RReplace, Buf: c16DrawBuf(r.c, r.cs, true, depth, r.attaching > 0)}
}

// c16DrawBuf draws a buffer. trusted: the buffer is handed to the consumer
// without an error-handling buffer around it when it is of a validated
// (non-CAS) kind, so its content and its I/O errors are outside the property.
func c16DrawBuf(c *sim.RunCtx, cs *c16Case, repl bool, depth int, trusted bool) *c16BufSpec {
	t, ft := c.T.Plan, c.T.Fault
	b := &c16BufSpec{FailAt: -1}
	if repl {
		b.Kind = t.Pick(4, 4, 2, 2, 2, 1)
	} else {
		b.Kind = []int{c16KChunk, c16KReader, c16KError, c16KCASSlice, c16KValidSlice}[t.Pick(5, 5, 1, 1, 1)]
	}
	n := cs.N
	if b.Kind != c16KError {
		b.Wrong = t.Pick(10, 2, 1, 1)
		if (c16Whole(cs.Cons) || trusted) && (b.Kind == c16KValidSlice || b.Kind == c16KReaderAt) {
			// Whole-object operations hand out a validated replacement
			// as is: its content is the handler's responsibility.
			b.Wrong = c16WNone
		}
		if n == 0 && (b.Wrong == c16WFlip || b.Wrong == c16WShort) {
			b.Wrong = c16WLong
		}
		switch b.Wrong {
		case c16WFlip:
			b.WArg = t.Choose(n)
		case c16WShort:
			b.WArg = 1 + t.Choose(min(n, 3))
		case c16WLong:
			b.WArg = 1 + t.Choose(3)
		}
	}
	m := len(c16Data(make([]byte, n), b))
	switch b.Kind {
	case c16KChunk, c16KReader:
		b.Cuts = sim.DrawCuts(t, m, 3)
		if t.Chance(1, 6) {
			b.Empty = []int{t.Choose(len(b.Cuts) + 2)}
		}
		num := 1
		if !repl {
			num = 5
		} else {
			num = 3
		}
		if ft.Chance(num, 6) {
			b.FailAt = ft.Choose(m + 1)
		}
		if b.Kind == c16KReader {
			if b.FailAt > 0 {
				b.ErrWithData = ft.Chance(1, 3)
			}
			b.EOFMix = t.Chance(1, 3)
		}
	case c16KReaderAt:
		if m > 0 && !trusted && ft.Chance(2, 6) {
			b.FailAt = ft.Choose(m)
			if b.FailAt > 0 {
				b.ErrWithData = ft.Chance(1, 2)
			}
		}
	}
	if repl && depth < 3 && b.Kind != c16KReaderAt && cs.OwnNum > 0 && t.Chance(cs.OwnNum, 6) {
		b.Own = &c16HandlerSpec{Lazy: true}
	}
	if repl && (b.Kind == c16KChunk || b.Kind == c16KReader) && b.FailAt < 0 && b.Wrong == c16WNone && b.Own == nil &&
		cs.Stop < 0 && cs.SinkFail < 0 && (cs.Cons == consReader || cs.Cons == consChunkReader || cs.Cons == consIntoWriter) && t.Chance(1, 3) {
		b.Cloned = true
	}
	return b
}

func c16DrawCase(c *sim.RunCtx, nested bool) *c16Case {
	t := c.T.Plan
	cs := &c16Case{SinkFail: -1, Stop: -1, MaxSize: 1000, MaxRepl: 5}
	cs.Fn = AllDigestFunctions[t.Pick(8, 1, 1, 1, 1, 1, 1, 1)]
	cs.N = []int{0, 1, 2, 3, 4, 5, 6, 8, 13, 16, 17, 33, 64, 100}[t.Choose(14)]
	cs.Base = byte(t.Choose(256))
	cs.Step = byte(1 + 2*t.Choose(4))
	cs.Backend = t.Chance(1, 2)
	cs.Cons = []int{consByteSlice, consReader, consChunkReader, consReadAt, consIntoWriter, consProto, consCloneCopy, consCloneStream, consDiscard}[t.Pick(3, 5, 6, 3, 3, 1, 1, 1, 1)]
	n := cs.N
	if cs.Cons == consProto {
		cs.Proto = true
		if n == 1 {
			cs.N = 2
			n = 2
		}
	}
	switch cs.Cons {
	case consReader:
		cs.ReadBuf = []int{1, 2, 3, 7, 64, 300}[t.Choose(6)]
		if t.Chance(1, 8) {
			cs.Stop = t.Choose(n + 1)
		}
	case consChunkReader:
		cs.Off = []int{0, 0, 1, n / 2, n - 1, n, n + 1}[t.Choose(7)]
		if cs.Off < 0 {
			cs.Off = 0
		}
		cs.MaxChunk = []int{1, 2, 3, 7, 64, 1 << 16}[t.Choose(6)]
		if t.Chance(1, 8) {
			cs.Stop = t.Choose(n + 1)
		}
	case consReadAt:
		cs.Off = []int{0, 1, n / 2, n, n + 1}[t.Choose(5)]
		cs.ReadBuf = []int{0, 1, 2, n, n + 1, 7}[t.Choose(6)]
	case consIntoWriter:
		if t.Chance(1, 6) {
			cs.SinkFail = t.Choose(n + 1)
		}
	case consByteSlice, consProto, consCloneCopy, consCloneStream:
		if t.Chance(1, 12) {
			cs.MaxSize = t.Choose(n + 2)
		}
		if cs.Cons == consCloneStream {
			// what the sibling clone does: reads too / is discarded / reads one chunk and closes
			cs.Off = t.Choose(3)
		}
	}
	nh := 1
	if nested {
		cs.OwnNum = 2
		nh = 1 + t.Pick(2, 5, 2)
	}
	for i := 0; i < nh; i++ {
		cs.Handlers = append(cs.Handlers, &c16HandlerSpec{Lazy: true})
	}
	cs.Orig = c16DrawBuf(c, cs, false, 0, true)
	cs.Task = t.Chance(1, 5)
	return cs
}

// ---------------------------------------------------------------------
// execution

func newC16Run(c *sim.RunCtx, cs *c16Case) *c16Run {
	r := &c16Run{c: c, cs: cs}
	r.content = c16Content(cs)
	r.dg = digest.MustNewDigest("inst", cs.Fn, RefHash(cs.Fn, r.content), int64(len(r.content)))
	r.source = buffer.UserProvided
	if cs.Backend {
		r.source = buffer.BackendProvided(func(valid bool) {
			if valid {
				r.cbTrue++
			} else {
				r.cbFalse++
			}
		})
	}
	return r
}

// exec builds the buffer and consumes it; must run inside a simulation.
func (r *c16Run) exec() {
	cs := r.cs
	r.c.Note("case %s | b0{%s}", cs, cs.Orig)
	var parentOf = make([]*c16Handler, len(cs.Handlers))
	// create outermost first so that parents exist
	for i := len(cs.Handlers) - 1; i >= 0; i-- {
		var parent *c16Handler
		if i+1 < len(cs.Handlers) {
			parent = parentOf[i+1]
		}
		parentOf[i] = r.newHandler(cs.Handlers[i], parent, 0)
	}
	r.tops = parentOf
	b := r.build(cs.Orig, nil)
	for _, h := range r.tops {
		r.attaching++
		b = buffer.WithErrorHandler(b, h)
		r.attaching--
	}
	if cs.Task {
		// must change nothing: the task succeeds
		b = b.WithTask(func() error { rt.Yield("task"); return nil })
		r.c.Count("probe_task_over_handlers", 1)
	}
	r.consuming = true
	r.res = r.consume(b)
}

func (r *c16Run) consume(b buffer.Buffer) consumeResult {
	cs := r.cs
	var res consumeResult
	switch cs.Cons {
	case consReader:
		rd := b.ToReader()
		p := make([]byte, cs.ReadBuf)
		for {
			if cs.Stop >= 0 && len(res.Got) >= cs.Stop {
				r.stopped = true
				break
			}
			n, err := rd.Read(p)
			res.Got = append(res.Got, p[:n]...)
			if err == io.EOF {
				res.Completed = true
				break
			}
			if err != nil {
				res.Err = err
				n2, err2 := rd.Read(p)
				if n2 > 0 || err2 == nil || err2 == io.EOF {
					res.Sticky = true
				}
				break
			}
		}
		rd.Close()
	case consChunkReader:
		cr := b.ToChunkReader(int64(cs.Off), cs.MaxChunk)
		for {
			if cs.Stop >= 0 && len(res.Got) >= cs.Stop {
				r.stopped = true
				break
			}
			chunk, err := cr.Read()
			if err == io.EOF {
				res.Completed = true
				break
			}
			if err != nil {
				res.Err = err
				c2, err2 := cr.Read()
				if len(c2) > 0 || err2 == nil || err2 == io.EOF {
					res.Sticky = true
				}
				break
			}
			if len(chunk) > cs.MaxChunk {
				res.Err = fmt.Errorf("c16: chunk of %d bytes exceeds the maximum of %d", len(chunk), cs.MaxChunk)
				res.Sticky = true
				break
			}
			res.Got = append(res.Got, chunk...)
		}
		cr.Close()
	case consProto:
		m, err := b.ToProto(&remoteexecution.Digest{}, cs.MaxSize)
		if err != nil {
			res.Err = err
		} else if d, ok := m.(*remoteexecution.Digest); ok {
			res.Completed = true
			res.Got = []byte(d.Hash)
		} else {
			res.Err = fmt.Errorf("c16: ToProto returned a %T", m)
		}
	default:
		res = consume(b, cs.Cons, cs.Off, cs.MaxChunk, cs.ReadBuf, cs.SinkFail, cs.MaxSize, len(r.content))
	}
	return res
}

func (r *c16Run) describe() string {
	var sb strings.Builder
	sb.WriteString(r.cs.String())
	for _, in := range r.insts {
		h := "-"
		if in.handler != nil {
			h = fmt.Sprintf("H%d", in.handler.id)
		}
		fmt.Fprintf(&sb, " | b%d{%s}->%s handed=%d raised=%d closes=%d", in.idx, in.spec, h, in.delivered, in.raised, in.closes)
	}
	for _, h := range r.hs {
		p := "consumer"
		if h.parent != nil {
			p = fmt.Sprintf("H%d", h.parent.id)
		}
		fmt.Fprintf(&sb, " | H%d(->%s) done=%d calls=[", h.id, p, h.done)
		for i, cl := range h.calls {
			if i > 0 {
				sb.WriteString(", ")
			}
			fmt.Fprintf(&sb, "%s=>%s", c16ErrName(cl.err), c16RespNames[cl.resp])
			if cl.resp == c16RReplace {
				fmt.Fprintf(&sb, " b%d", cl.buf)
			} else if cl.resp == c16RTranslate {
				fmt.Fprintf(&sb, " %s", cl.retTag)
			}
		}
		sb.WriteString("]")
	}
	res := r.res
	fmt.Fprintf(&sb, " | result: completed=%v got=%s err=%s stoppedEarly=%v", res.Completed, short(res.Got), c16ErrName(res.Err), r.stopped)
	return sb.String()
}

func runC16Case(c *sim.RunCtx, cs *c16Case, readerAtProfile bool) {
	r := newC16Run(c, cs)
	c.Sim(sim.SimOpts{MaxSteps: 200000, DeadlockClass: "deadlock"}, func(s *rt.Sched) {
		r.s = s
		r.exec()
		s.WaitUntil("replacement siblings", func() bool { return r.siblings == 0 })
		r.s = nil
	})
	if c.Failed() {
		return
	}
	r.check(readerAtProfile)
	c.Sample["case"] = r.describe()
}

func c16Single(c *sim.RunCtx) {
	runC16Case(c, c16DrawCase(c, false), false)
}

func c16Nested(c *sim.RunCtx) {
	runC16Case(c, c16DrawCase(c, true), false)
}

// c16ReaderAtOrig: the buffer the handler is attached to is itself backed by
// a ReadAtCloser that fails.
func c16ReaderAtOrig(c *sim.RunCtx) {
	cs := c16DrawCase(c, false)
	t, ft := c.T.Plan, c.T.Fault
	n := cs.N
	if n == 0 {
		cs.N = 1 + t.Choose(6)
		n = cs.N
		if cs.Proto && n == 1 {
			cs.N, n = 2, 2
		}
	}
	cs.Orig = &c16BufSpec{Kind: c16KReaderAt, FailAt: ft.Choose(n)}
	if cs.Orig.FailAt > 0 {
		cs.Orig.ErrWithData = ft.Chance(1, 2)
	}
	runC16Case(c, cs, true)
}

func init() {
	sim.Register(&sim.Check{
		Prop:  "C16",
		Level: "exploration",
		Profiles: []sim.Profile{
			{Name: "single-handler", Weight: 6, Fn: c16Single},
			{Name: "nested-handlers", Weight: 4, Fn: c16Nested},
			{Name: "reader-at-original", Weight: 1, Fn: c16ReaderAtOrig},
			{Name: "exhaustive-small", Prologue: true, Fn: c16Exhaustive},
		},
		Components: map[string][]string{
			"real": {"pkg/blobstore/buffer (WithErrorHandler, casErrorHandlingBuffer, errorHandlingReader, errorHandlingChunkReader, offsetChunkReader, discard helpers, error buffer, all CAS/validated buffer kinds as originals and replacements, validating readers)", "pkg/digest (hashers)"},
			"stub": {"sources (chunk reader, reader, reader-at) failing at a byte position with a sticky uniquely tagged error", "error handlers scripted from the tape (replace / translate / pass through; stacked and per-replacement)", "sink (failing writer)"},
		},
		Rule: "a case = (digest function, content, original buffer kind/chunking/failure position, 1..3 stacked handlers whose responses (replacement of any kind incl. failing again, error buffer, wrong bytes, own handler; translated error; same error) are drawn per OnError call, consumption method with offset/chunk size/limits/early stop); non-trivial = at least one OnError call; distinct = distinct event-log hash",
		RequiredProbes: []string{"fault_source_io_error", "probe_success_after_recovery", "probe_resumed_mid_stream", "probe_fail_during_discard", "probe_handler_error_delivered", "probe_wrong_bytes_rejected", "probe_replacement_failed_again"},
		Assumptions: []string{
			"injected errors are sticky: a source that failed keeps returning the same error (an error returned together with the last requested bytes may be swallowed by io.CopyN/io.ReadFull and is then observed on the next read)",
			"a validated (non-CAS) replacement handed to a whole-object operation (ToByteSlice, ReadAt, ToProto, CloneCopy) is trusted by design; wrong bytes are only injected there through CAS-typed replacements",
			"the stitched stream is reconstructed from the number of bytes each source handed out; an implementation that re-requested bytes it had already been handed would need a different model",
			"reference hashes computed with the Go standard library / upstream BLAKE3 and SHA256TREE libraries, not pkg/digest",
		},
	})
}
