package harness

import (
	"bytes"
	"context"
	"fmt"
	"io"

	remoteexecution "github.com/bazelbuild/remote-apis/build/bazel/remote/execution/v2"
	"github.com/buildbarn/bb-storage/pkg/blobstore"
	"github.com/buildbarn/bb-storage/pkg/blobstore/grpcclients"
	"github.com/buildbarn/bb-storage/pkg/blobstore/grpcservers"
	"github.com/buildbarn/bb-storage/pkg/digest"
	bb_zstd "github.com/buildbarn/bb-storage/pkg/zstd"
	"github.com/google/uuid"
	"github.com/klauspost/compress/zstd"
	"vsim/sim"

	"google.golang.org/grpc/codes"
	"google.golang.org/grpc/status"
	rt "verifsimrt"
)

// ---- C04, last sentence, for the RPC layer: the repository's CAS client
// talks to its ByteStream/CAS servers over the simulated connection, with
// zstd on either side drawn per run. Whatever fails, is aborted or is
// consumed only partially, once every operation returned and the system is
// quiescent: every upload source and every stream the backend handed out has
// been closed exactly once, no server handler is still running, and every
// encoder and decoder taken from the (bounded, real) zstd pools has been
// given back. ----

type countingPool struct {
	base                   bb_zstd.Pool
	name                   string
	// eofWithData: decoders hand out their final bytes together with io.EOF
	// (which io.Reader permits, and which klauspost's decoder does with its
	// default, concurrent, options)
	eofWithData            bool
	encAcquired, encOut    int
	decAcquired, decOut    int
}

type countingEncoder struct {
	bb_zstd.Encoder
	p      *countingPool
	closed bool
}

func (e *countingEncoder) Close() error {
	if !e.closed {
		e.closed = true
		e.p.encOut--
	}
	return e.Encoder.Close()
}

type countingDecoder struct {
	bb_zstd.Decoder
	p       *countingPool
	closed  bool
	pending []byte
	perr    error
}

func (d *countingDecoder) Read(b []byte) (int, error) {
	if !d.p.eofWithData {
		return d.Decoder.Read(b)
	}
	n := 0
	if len(d.pending) > 0 {
		n = copy(b, d.pending)
		d.pending = d.pending[n:]
	} else if d.perr != nil {
		return 0, d.perr
	} else {
		var err error
		n, err = d.Decoder.Read(b)
		if err != nil {
			d.perr = err
			return n, err
		}
	}
	if len(d.pending) == 0 && d.perr == nil && n > 0 {
		// look one byte ahead: if that is the end, say so right away
		var one [1]byte
		m, err := d.Decoder.Read(one[:])
		d.pending = append([]byte{}, one[:m]...)
		if err != nil {
			d.perr = err
			if err == io.EOF && m == 0 {
				return n, io.EOF
			}
		}
	}
	return n, nil
}

func (d *countingDecoder) Close() {
	if !d.closed {
		d.closed = true
		d.p.decOut--
	}
	d.Decoder.Close()
}

func (p *countingPool) NewEncoder(ctx context.Context, w io.Writer) (bb_zstd.Encoder, error) {
	e, err := p.base.NewEncoder(ctx, w)
	if err != nil {
		return nil, err
	}
	p.encAcquired++
	p.encOut++
	return &countingEncoder{Encoder: e, p: p}, nil
}

func (p *countingPool) NewDecoder(ctx context.Context, r io.Reader) (bb_zstd.Decoder, error) {
	d, err := p.base.NewDecoder(ctx, r)
	if err != nil {
		return nil, err
	}
	p.decAcquired++
	p.decOut++
	return &countingDecoder{Decoder: d, p: p}, nil
}

func newCountingPool(name string, limit int64) *countingPool {
	return &countingPool{name: name, base: bb_zstd.NewBoundedPool(limit, limit,
		[]zstd.EOption{zstd.WithEncoderConcurrency(1)}, []zstd.DOption{zstd.WithDecoderConcurrency(1)})}
}

func c04GRPCStreams(c *sim.RunCtx) {
	t := c.T.Plan
	type gobj struct {
		Data []byte
		D    digest.Digest
	}
	fn := remoteexecution.DigestFunction_SHA256
	if t.Chance(1, 3) {
		fn = AllDigestFunctions[t.Choose(len(AllDigestFunctions))]
	}
	var objs []gobj
	for i, n := 0, 2+t.Choose(4); i < n; i++ {
		sz := []int{3, 0, 1, 9, 40, 200}[t.Choose(6)]
		data := make([]byte, sz)
		for j := range data {
			data[j] = byte(i*37 + j*3 + 1)
		}
		objs = append(objs, gobj{data, RefDigest("inst", fn, data)})
	}
	clientZstd := t.Chance(1, 2)
	eofWithData := t.Chance(1, 2)
	poolLimit := int64(1 + t.Choose(2))
	chunk := []int{1, 3, 8, 64}[t.Choose(4)]
	faultRate := []int{0, 80, 250}[t.Choose(3)]
	streamRate := []int{0, 100, 300}[t.Choose(3)]
	clients := 1 + t.Choose(3)
	// Cancel > 0: the caller gives up after that many scheduling steps
	type gop struct{ Kind, Obj, Mode, How, Arg, Cancel int }
	var plans [][]gop
	for ci := 0; ci < clients; ci++ {
		var ops []gop
		for i, n := 0, 2+t.Choose(8); i < n; i++ {
			ops = append(ops, gop{Kind: t.Pick(4, 5, 1), Obj: t.Choose(len(objs)), Mode: t.Pick(4, 1, 1, 1, 1), How: t.Choose(nConsumeKinds), Arg: t.Choose(16), Cancel: t.Pick(5, 1) * (1 + t.Choose(40))})
		}
		plans = append(plans, ops)
	}
	placement := make([]bool, len(objs))
	for i := range placement {
		placement[i] = t.Chance(2, 3)
	}
	desc := fmt.Sprintf("grpc-streams fn=%v clientZstd=%v eofWithData=%v poolLimit=%d chunk=%d faultRate=%d streamRate=%d clients=%d objs=%d placement=%v", fn, clientZstd, eofWithData, poolLimit, chunk, faultRate, streamRate, clients, len(objs), placement)
	c.Sample["case"] = desc
	c.Note("case %s plans=%v", desc, plans)
	var uploads []*sim.SrcStats
	var backend *modelStore
	srvPool, cliPool := newCountingPool("server", poolLimit), newCountingPool("client", poolLimit)
	srvPool.eofWithData, cliPool.eofWithData = eofWithData, eofWithData
	handlersRunning := 0
	opsDone := 0
	poolWhole := true
	c.Sim(sim.SimOpts{MaxSteps: 300000, DeadlockClass: "deadlock"}, func(s *rt.Sched) {
		backend = newModelStore(c, "backend", digest.KeyWithInstance)
		backend.TrackSources = true
		for i, p := range placement {
			if p {
				backend.Objs[backend.key(objs[i].D)] = objs[i].Data
			}
		}
		ft := c.T.Fault
		backend.Fault = func(op string, ds []digest.Digest) error {
			if faultRate > 0 && ft.Chance(faultRate, 1000) {
				return status.Errorf(injectableCodes[ft.Choose(len(injectableCodes))], "backend: injected failure of %s", op)
			}
			return nil
		}
		backend.StreamFault = func(d digest.Digest) int {
			if streamRate > 0 && ft.Chance(streamRate, 1000) {
				return ft.Choose(3)
			}
			return -1
		}
		backend.CommitFault = func(d digest.Digest) error {
			if faultRate > 0 && ft.Chance(faultRate, 1000) {
				return status.Error(codes.Unavailable, "backend: injected commit failure")
			}
			return nil
		}
		conn := &simConn{bs: grpcservers.NewByteStreamServer(backend, chunk, srvPool), cas: grpcservers.NewContentAddressableStorageServer(backend, 1<<20), s: s, c: c, handlers: &handlersRunning}
		var clientPool bb_zstd.Pool
		if clientZstd {
			clientPool = cliPool
			conn.compressors = []remoteexecution.Compressor_Value{remoteexecution.Compressor_ZSTD}
		}
		var ba blobstore.BlobAccess = grpcclients.NewCASBlobAccess(conn, func() (uuid.UUID, error) {
			return uuid.MustParse("11111111-2222-3333-4444-555555555555"), nil
		}, chunk, clientPool)
		ctx := context.Background()
		done := 0
		for ci := range plans {
			ops := plans[ci]
			tag := fmt.Sprintf("c%d", ci)
			s.Go("client"+tag, func() {
				defer func() { done++ }()
				for oi, o := range ops {
					if c.Failed() {
						return
					}
					ob := objs[o.Obj]
					ctx := ctx
					if o.Cancel > 0 {
						var cancel context.CancelFunc
						ctx, cancel = context.WithCancel(ctx)
						delay := o.Cancel
						s.Go("canceller", func() {
							for i := 0; i < delay; i++ {
								rt.Yield("cancel-delay")
							}
							cancel()
						})
						c.Count("fault_caller_cancelled", 1)
					}
					switch o.Kind {
					case 0:
						b := trackedUpload(t, &uploads, ob.D, ob.Data, o.Mode, fmt.Sprintf("%s.%d", tag, oi))
						err := ba.Put(ctx, ob.D, b)
						c.Logf("%s Put(o%d mode=%d) -> %v", tag, o.Obj, o.Mode, err)
						c.Count("probe_grpc_put", 1)
					case 1:
						b := ba.Get(ctx, ob.D)
						consumeTracked(s, b, o.How, o.Arg)
						c.Logf("%s Get(o%d how=%d) done", tag, o.Obj, o.How)
						c.Count("probe_grpc_get", 1)
					default:
						_, err := ba.FindMissing(ctx, ob.D.ToSingletonSet())
						c.Logf("%s FindMissing(o%d) -> %v", tag, o.Obj, err)
					}
					opsDone++
				}
			})
		}
		s.WaitUntil("clients done", func() bool { return done == len(plans) })
		c.Picker.Fair = true
			s.WaitUntil("quiescence", func() bool { return s.Quiescent(0) && s.PendingTimers() == 0 })
		// the pools themselves are whole again: their full capacity can
		// be taken out once more (a wrapper that was closed without the
		// pool getting its slot back would leave this waiting forever)
		probed := false
		s.Go("pool-probe", func() {
			for _, p := range []*countingPool{srvPool, cliPool} {
				var encs []bb_zstd.Encoder
				var decs []bb_zstd.Decoder
				for i := int64(0); i < poolLimit; i++ {
					e, err1 := p.base.NewEncoder(context.Background(), io.Discard)
					d, err2 := p.base.NewDecoder(context.Background(), bytes.NewReader(nil))
					if err1 != nil || err2 != nil {
						return
					}
					encs, decs = append(encs, e), append(decs, d)
				}
				for i := range encs {
					encs[i].Close()
					decs[i].Close()
				}
			}
			probed = true
		})
		s.WaitUntil("pool probe", func() bool { return probed || s.Quiescent(0) })
		c.Picker.Fair = false
		poolWhole = probed
	})
	if c.Failed() {
		return
	}
	if handlersRunning != 0 {
		c.Fail("server-handler-still-running", "%d ByteStream handler(s) of the server are still running although every client operation returned and the system is quiescent [%s]", handlersRunning, desc)
		return
	}
	for _, st := range uploads {
		if st.Closes != 1 {
			c.Fail("buffer-never-released", "upload source %q was closed %d times after every operation returned (reads=%d) [%s]", st.Name, st.Closes, st.Reads, desc)
			return
		}
		c.Count("probe_upload_source_closed_once", 1)
	}
	for _, st := range backend.Sources {
		if st.Closes != 1 {
			c.Fail("buffer-never-released", "backend stream %q was closed %d times after every operation returned (reads=%d) [%s]", st.Name, st.Closes, st.Reads, desc)
			return
		}
		c.Count("probe_backend_stream_closed_once", 1)
	}
	if !poolWhole {
		c.Fail("pooled-resource-not-returned", "after every operation returned, the zstd pools' full capacity (%d encoders and decoders each) can no longer be taken out: a slot was never given back [%s]", poolLimit, desc)
		return
	}
	c.Count("probe_zstd_pool_capacity_whole", 1)
	for _, p := range []*countingPool{srvPool, cliPool} {
		if p.encOut != 0 || p.decOut != 0 {
			c.Fail("pooled-resource-not-returned", "the %s's zstd pool is still missing %d encoder(s) and %d decoder(s) (acquired %d/%d) after every operation returned [%s]", p.name, p.encOut, p.decOut, p.encAcquired, p.decAcquired, desc)
			return
		}
		c.Count("probe_zstd_encoders_returned", p.encAcquired)
		c.Count("probe_zstd_decoders_returned", p.decAcquired)
	}
	c.Nontrivial = opsDone > 0
}
