package harness

import (
	"context"
	"fmt"
	"time"

	"github.com/buildbarn/bb-storage/pkg/digest"
	"vsim/sim"

	rt "verifsimrt"
)

// ---- persistent store: process lifetimes, crash points, recovery ----

type persistPlan struct {
	cfg     *storeCfg
	objs    []*object
	canon   map[int]int
	clients [][]*storeOp
	insts   []string
	seed    int64
	faults  bool // inject sync / state-write failures during the forward run
}

func drawPersistPlan(t *sim.Tape, variant string, faults bool, generousIndex bool) *persistPlan {
	pp := &persistPlan{faults: faults}
	cfg := drawStoreCfg(t, true, generousIndex)
	cfg.IndexSlots = []int{31, 13, 61}[t.Choose(3)]
	if generousIndex {
		cfg.IndexSlots = 127
	}
	if cfg.Spare == 0 {
		cfg.Spare = 1
	}
	pp.insts = []string{""}
	switch variant {
	case "hier":
		cfg.Hier = true
		cfg.KeyFormat = digest.KeyWithInstance
		pp.insts = []string{"", "a", "a/b"}
	case "ac":
		cfg.AC = true
		cfg.Mutable = true
		cfg.New = 1
		cfg.KeyFormat = digest.KeyWithInstance
		if cfg.BlockSize() < 48 {
			cfg.BlockSectors = (48 + cfg.SectorSize - 1) / cfg.SectorSize
		}
	}
	pp.cfg = cfg
	wo := &workloadOpts{
		Objects:      3 + t.Choose(8),
		Clients:      1 + t.Choose(3),
		OpsPerClient: 3 + t.Choose(12),
		Insts:        pp.insts,
		FailedPuts:   true,
		MaxHolds:     []int{0, 2}[t.Choose(2)],
		PutWeight:    6, GetWeight: 3, FindWeight: 2, CompWeight: 0,
		SleepWeight: 2, SleepMax: 2 * cfg.MinEpoch,
	}
	pp.objs = drawObjects(t, cfg, wo.Objects, false)
	pp.canon = canonicalise(pp.objs)
	pp.clients = drawOps(t, cfg, pp.objs, pp.canon, wo)
	pp.seed = int64(t.Choose(1 << 30))
	return pp
}

// crashPoint is the state of the media between two I/O operations.
type crashPoint struct {
	Step   int
	T      time.Duration
	Data   *sim.DiskSnapshot
	Index  *sim.DiskSnapshot
	Dir    *sim.DirSnapshot
	Allocs int // blocks allocated (NewBlock) since the very first start
	Why    string
	// Part B of C03: no operation in flight, a commit ran to completion and
	// no upload or refresh happened since that commit started.
	CleanCommit    bool
	CommitStartSeq int
	Interesting    bool
}

// lifetime is one process run over a set of media.
type lifetime struct {
	opts   *lifetimeOpts
	c      *sim.RunCtx
	pp     *persistPlan
	w      *storeWorld
	points []*crashPoint
	steps  int
	// bookkeeping for CleanCommit
	opsInFlight  int
	lastWriteSeq int // seq of the last block put finalizer or refresh (any data-changing event)
	final        *crashPoint
	snap         func(why string) *crashPoint // snapshot of the media right now
}

type lifetimeOpts struct {
	proc        int
	baseAllocs  int
	model       *storeModel
	snapshots   bool
	shutdownAt  int // step at which shutdown is requested (0 = never)
	// shutdownSyncFails / shutdownDirFails: transient failures forced on the
	// data device's next Sync calls and the state directory's next operations
	// from the moment shutdown is requested (the commit a graceful shutdown
	// performs must retry them like any other)
	shutdownSyncFails, shutdownDirFails int
	drain       bool
	noEarly     bool
	faults      bool
	maxSteps    int
	script      func(lt *lifetime) // run by the root once the store is up (may spawn clients and wait)
	afterDrain  func(lt *lifetime)
	deadlockCls string
}

func mediaVersion(m *media) int {
	v := 0
	if m.data != nil {
		v += m.data.Seq() + m.data.SyncsDone*7919
	}
	if m.index != nil {
		v += m.index.Seq() * 3
	}
	if m.dir != nil {
		v += m.dir.Ops * 5
	}
	return v
}

func snapshotMedia(m *media) (d, i *sim.DiskSnapshot, dir *sim.DirSnapshot) {
	if m.data != nil {
		d = m.data.Snapshot()
	}
	if m.index != nil {
		i = m.index.Snapshot()
	}
	if m.dir != nil {
		dir = m.dir.Snapshot()
	}
	return
}

// armShutdownFaults forces the transient failures of the shutdown commit.
func (lt *lifetime) armShutdownFaults(m *media) {
	o := lt.opts
	if o.shutdownSyncFails > 0 && m.data != nil {
		m.data.FailNextSyncs = o.shutdownSyncFails
		lt.c.Count("fault_sync_error_during_shutdown", o.shutdownSyncFails)
	}
	if o.shutdownDirFails > 0 && m.dir != nil {
		m.dir.FailNext = o.shutdownDirFails
		lt.c.Count("fault_state_write_error_during_shutdown", o.shutdownDirFails)
	}
}

// runLifetime starts a store process over media m and runs o.script.
func runLifetime(c *sim.RunCtx, pp *persistPlan, m *media, o *lifetimeOpts) *lifetime {
	lt := &lifetime{c: c, pp: pp, opts: o}
	cfg := pp.cfg
	if o.maxSteps == 0 {
		o.maxSteps = 300000
	}
	cls := o.deadlockCls
	if cls == "" {
		cls = "deadlock"
	}
	c.Sim(sim.SimOpts{MaxSteps: o.maxSteps, DeadlockClass: cls}, func(s *rt.Sched) {
		if o.noEarly {
			c.Picker.NoEarly = true
		}
		var e *storeEnv
		if cfg.WConfig {
			e = buildStoreConfig(c, s, cfg, m, o.proc, pp.seed+int64(o.proc)*7717)
			c.Count("probe_wconfig_lifetime", 1)
		} else {
			e = buildStoreParts(c, s, cfg, m, o.proc, pp.seed+int64(o.proc)*7717)
		}
		defer e.close()
		if o.faults {
			// (after start-up: an I/O error while reading the state file makes
			// the process exit, which is not what is being explored here)
			ft := c.T.Fault
			sy := []int{0, 100, 300}[c.T.Plan.Choose(3)]
			de := []int{0, 50, 150}[c.T.Plan.Choose(3)]
			m.data.Faults = &sim.DiskFaults{SyncErr: sy, T: ft}
			m.dir.Faults = &sim.DirFaults{OpErr: de, T: ft}
		}
		w := &storeWorld{c: c, s: s, cfg: cfg, e: e, ctx: context.Background(), insts: pp.insts, m: o.model}
		w.allocs = func() int {
			if e.alloc == nil {
				return o.baseAllocs + e.collectorAllocations()
			}
			return o.baseAllocs + e.alloc.Allocs
		}
		lt.w = w
		lastVersion := mediaVersion(m)
		takePoint := func(why string) *crashPoint {
			d, i, dir := snapshotMedia(m)
			cp := &crashPoint{Step: s.Steps, T: s.Now(), Data: d, Index: i, Dir: dir, Allocs: w.allocs(), Why: why}
			return cp
		}
		lt.snap = takePoint
		s.StepHook = func() {
			if o.shutdownAt > 0 && s.Steps == o.shutdownAt && e.shutdownSeq == 0 {
				e.shutdownSeq = s.Steps
				c.Logf("shutdown requested")
				c.Count("fault_graceful_shutdown", 1)
				lt.armShutdownFaults(m)
				e.group.cancel()
			}
			if !o.snapshots {
				return
			}
			if v := mediaVersion(m); v != lastVersion {
				lastVersion = v
				cp := takePoint("io")
				lt.classifyPoint(cp)
				lt.points = append(lt.points, cp)
			}
		}
		o.script(lt)
		if o.drain && !c.Failed() {
			// faults stop, fair scheduling, the clock jumps to the next timer
			// whenever nothing is runnable
			if m.data != nil {
				m.data.Faults = nil
			}
			if m.dir != nil {
				m.dir.Faults = nil
			}
			lt.drain(s, o)
			if o.afterDrain != nil && !c.Failed() {
				o.afterDrain(lt)
			}
		}
		s.StepHook = nil
		if n := e.log.integrity(); n > 0 && !w.tolerateIntegrity && !c.Failed() {
			c.Fail("integrity-error-on-clean-medium", "error log reports a data integrity release although the medium only lost unsynced writes: %v", e.log.Msgs)
		}
		lt.final = takePoint("end")
		lt.classifyPoint(lt.final)
		lt.steps = s.Steps
		// the process ends here: make its media inert for the unwinding goroutines
		if m.data != nil {
			m.data.Dead = true
		}
		if m.index != nil {
			m.index.Dead = true
		}
		if m.dir != nil {
			m.dir.Dead = true
		}
	})
	return lt
}

// drainStepBudget bounds the drain phase: faults have stopped, scheduling is
// fair and the clock jumps whenever nothing is runnable, so a correct store
// reaches quiescence (no runnable goroutine, no pending timer) after the
// in-flight operations and at most a few syncer rounds. The budget is more
// than two orders of magnitude above the longest drain observed on the
// unchanged tree (max_drain_steps in the evidence).
const drainStepBudget = 20000

// drain waits for quiescence of the store process. Where the property under
// check is liveness (deadlockCls "stalled": C07) exceeding the budget is the
// violation "retries never succeed / the store never settles"; elsewhere the
// run-wide step budget turns it into a harness error.
func (lt *lifetime) drain(s *rt.Sched, o *lifetimeOpts) {
	c := lt.c
	c.Picker.Fair = true
	start := s.Steps
	over := false
	s.WaitUntil("drain", func() bool {
		if o.deadlockCls == "stalled" && s.Steps-start > drainStepBudget {
			over = true
			return true
		}
		return s.Quiescent(o.proc) && s.PendingTimers() == 0
	})
	c.Picker.Fair = false
	c.Max("max_drain_steps", s.Steps-start)
	if over && !c.Failed() {
		c.Fail("no-quiescence-after-faults-stopped", "faults stopped %d steps ago (fair scheduling, clock jumps to the next timer) and the store still has runnable goroutines or pending timers: %v; error log tail: %v", s.Steps-start, s.Blocked(), lt.w.e.log.tail(3))
	}
}

// classifyPoint decides whether cp is a quiescent point after a completed
// commit with no data-changing activity since the commit started.
func (lt *lifetime) classifyPoint(cp *crashPoint) {
	e := lt.w.e
	if lt.opsInFlight > 0 {
		return
	}
	// the last completed commit: a completed data sync round followed by a
	// completed state write that started after the sync completed
	for i := len(e.swrites) - 1; i >= 0; i-- {
		sw := e.swrites[i]
		if !sw.OK {
			continue
		}
		for j := len(e.rounds) - 1; j >= 0; j-- {
			r := e.rounds[j]
			if r.DoneSeq == 0 || r.DoneSeq > sw.GetSeq {
				continue
			}
			// commit = (r, sw); clean iff nothing wrote data since r started
			if e.lastFinalizeSeq < r.StartSeq {
				cp.CleanCommit = true
				cp.CommitStartSeq = r.StartSeq
			}
			return
		}
		return
	}
}

// runClients runs the plan's clients and waits for them.
func (lt *lifetime) runClients(clients [][]*storeOp, proc int) {
	w := lt.w
	s := w.s
	done := 0
	prevPut := w.onPutDone
	w.onPutDone = func(op *storeOp, u *upload, err error) {
		if prevPut != nil {
			prevPut(op, u, err)
		}
	}
	for ci := range clients {
		ops := clients[ci]
		s.GoProc(fmt.Sprintf("client%d", ci), proc, false, func() {
			defer func() { done++ }()
			for _, op := range ops {
				if lt.c.Failed() {
					return
				}
				if op.Kind != opSleep {
					lt.opsInFlight++
				}
				w.exec(op)
				if op.Kind != opSleep {
					lt.opsInFlight--
					// any operation may have written data (upload or refresh)
					lt.lastWriteSeq = s.Steps
				}
			}
		})
	}
	s.WaitUntil("clients done", func() bool { return done == len(clients) })
}

// modelAt freezes the forward model as of step k: uploads invoked later did
// not happen; uploads still in flight at k stay in flight for ever.
func modelAt(m *storeModel, k int) *storeModel {
	n := &storeModel{cfg: m.cfg, objs: m.objs, byTag: map[int]*upload{}, nextTag: m.nextTag}
	for _, u := range m.uploads {
		if u.Invoke > k {
			continue
		}
		cu := *u
		if cu.Status == upInflight || cu.Return > k {
			cu.Status = upInflight
		}
		cu.Invoke, cu.Return = 0, 0
		n.uploads = append(n.uploads, &cu)
		if cu.Tag != 0 {
			n.byTag[cu.Tag] = &cu
		}
	}
	return n
}

// crashMedia builds post-crash media from a crash point.
func crashMedia(c *sim.RunCtx, cfg *storeCfg, cp *crashPoint, dataMode, indexMode, dirMode int) *media {
	t := c.T.Crash
	m := &media{}
	m.data = sim.NewDiskFromImage("data", cfg.SectorSize, cp.Data.CrashImage(dataMode, t, c.Stats))
	if cp.Index != nil {
		st := map[string]int{}
		m.index = sim.NewDiskFromImage("index", cfg.SectorSize, cp.Index.CrashImage(indexMode, t, st))
		if n := st["fault_crash_lost_writes"]; n > 0 {
			c.Stats["fault_crash_lost_index_writes"] += n
		}
	}
	m.dir = cp.Dir.CrashDir("state", dirMode, t, c.Stats)
	return m
}

var crashModeNames = []string{"lose-all", "keep-all", "subset"}

// checkAll probes every object under every name: FindMissing then Get.
func (lt *lifetime) checkAll(tag string) (present map[string]bool) {
	w := lt.w
	present = map[string]bool{}
	for oi := range w.m.objs {
		if lt.pp.canon[oi] != oi {
			continue
		}
		for _, in := range lt.pp.insts {
			if lt.c.Failed() {
				return
			}
			fop := &storeOp{Kind: opFind, Set: []int{oi}, SetInst: []string{in}}
			var found bool
			prev := w.onFindDone
			w.onFindDone = func(op *storeOp, p []bool, a int) { found = p[0] }
			w.exec(fop)
			w.onFindDone = prev
			gop := &storeOp{Kind: opGet, Obj: oi, Inst: in, Cons: consByteSlice}
			if w.cfg.AC {
				gop.Cons = consProto
			}
			var res int = -1
			prevG := w.onGetDone
			w.onGetDone = func(op *storeOp, r int, a int) { res = r }
			w.exec(gop)
			w.onGetDone = prevG
			if res == getFoundWhole {
				present[fmt.Sprintf("%d/%s", oi, in)] = true
				lt.c.Count("probe_recovery_served_object", 1)
			}
			_ = found
		}
	}
	return present
}
