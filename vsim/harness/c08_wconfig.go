package harness

import (
	"bytes"
	"context"

	remoteexecution "github.com/bazelbuild/remote-apis/build/bazel/remote/execution/v2"
	"github.com/buildbarn/bb-storage/pkg/blobstore/buffer"
	"github.com/buildbarn/bb-storage/pkg/digest"
	"vsim/sim"

	"google.golang.org/grpc/codes"
	"google.golang.org/grpc/status"
	rt "verifsimrt"
)

// ---- C08 on a store assembled by NewBlobAccessFromConfiguration (black
// box: no block identities). One client, objects with distinct contents of
// at least eight bytes, so that a copy can be found on the device by its
// content. What the statement gives without knowing blocks:
//   - a read of a copy that was damaged on the medium fails with INTERNAL
//     (or NOT_FOUND if it rotated out), never succeeds;
//   - once that read failed, the object lies in a quarantined block: it is
//     NOT_FOUND and reported missing by every later call until it is
//     uploaded again (this is what needs the index to resolve locations
//     through the map that knows about the quarantine);
//   - uploads keep being accepted afterwards and read back. ----

func c08Configured(c *sim.RunCtx) {
	t := c.T.Plan
	cfg := drawStoreCfg(t, false, true)
	cfg.Disk = true
	cfg.ValCache = false
	cfg.Hier = false
	cfg.AC, cfg.Mutable = false, false
	cfg.KeyFormat = digest.KeyWithoutInstance
	cfg.WConfig = true
	cfg.IndexDev = t.Chance(2, 3)
	cfg.SectorSize = []int{1, 4, 16}[t.Choose(3)]
	cfg.BlockSectors = (48 + cfg.SectorSize - 1) / cfg.SectorSize * (1 + t.Choose(2))
	cfg.Spare = 3
	if cfg.BlockCount() == 0 {
		cfg.New = 1
	}
	nObj := 4 + t.Choose(6)
	type cobj struct {
		Data []byte
		D    digest.Digest
	}
	var objs []cobj
	for i := 0; i < nObj; i++ {
		sz := 8 + t.Choose(13)
		data := make([]byte, sz)
		for j := range data {
			data[j] = byte(0x40 + i*17 + j*3)
		}
		data[0], data[1] = byte(0xC0+i), byte(0x5A^i)
		objs = append(objs, cobj{data, RefDigest("", remoteexecution.DigestFunction_SHA256, data)})
	}
	type cop struct{ Kind, Obj int } // 0 put 1 get 2 find 3 corrupt-and-read
	var ops []cop
	for i, n := 0, 8+t.Choose(24); i < n; i++ {
		ops = append(ops, cop{t.Pick(5, 3, 2, 3), t.Choose(nObj)})
	}
	seed := int64(t.Choose(1 << 30))
	c.Sample["config"] = cfg.String()
	c.Note("cfg %s ops=%v", cfg, ops)
	detected := 0
	c.Sim(sim.SimOpts{MaxSteps: 200000, DeadlockClass: "deadlock"}, func(s *rt.Sched) {
		m := newMedia(cfg)
		e := buildStoreConfig(c, s, cfg, m, 1, seed)
		defer e.close()
		ctx := context.Background()
		// quarantined[i]: a read of object i detected corruption and no upload of i succeeded since
		quarantined := make([]bool, nObj)
		uploaded := make([]bool, nObj)
		get := func(i int) ([]byte, error) { return e.ba.Get(ctx, objs[i].D).ToByteSlice(1 << 20) }
		missing := func(i int) (bool, error) {
			ms, err := e.ba.FindMissing(ctx, objs[i].D.ToSingletonSet())
			return !ms.Empty(), err
		}
		for oi, o := range ops {
			if c.Failed() {
				return
			}
			ob := objs[o.Obj]
			switch o.Kind {
			case 0:
				err := e.ba.Put(ctx, ob.D, buffer.NewCASBufferFromByteSlice(ob.D, ob.Data, buffer.UserProvided))
				c.Logf("op%d Put(o%d) -> %v", oi, o.Obj, err)
				if err != nil {
					if status.Code(err) != codes.Unavailable {
						c.Fail("valid-upload-rejected", "Put(o%d) failed with %v", o.Obj, err)
					}
					continue
				}
				uploaded[o.Obj], quarantined[o.Obj] = true, false
				if detected > 0 {
					// the store keeps accepting uploads after a detection, and they read back
					data, err := get(o.Obj)
					if err != nil || !bytes.Equal(data, ob.Data) {
						c.Fail("upload-after-detection-unreadable", "o%d was uploaded after a detection and acknowledged, but reads back as %s, %v", o.Obj, short(data), err)
						return
					}
					c.Count("probe_upload_after_detection_readable", 1)
				}
			case 1, 2:
				var absent bool
				var err error
				if o.Kind == 1 {
					var data []byte
					data, err = get(o.Obj)
					absent = status.Code(err) == codes.NotFound
					if err == nil && !bytes.Equal(data, ob.Data) {
						c.Fail("wrong-bytes", "Get(o%d) returned %s", o.Obj, short(data))
						return
					}
					if err == nil && !uploaded[o.Obj] {
						c.Fail("present-but-never-uploaded", "Get(o%d) succeeded although it was never uploaded", o.Obj)
						return
					}
				} else {
					absent, err = missing(o.Obj)
					if err != nil {
						c.Fail("spurious-error", "FindMissing(o%d) failed with %v", o.Obj, err)
						return
					}
				}
				c.Logf("op%d kind=%d o%d -> absent=%v err=%v quarantined=%v", oi, o.Kind, o.Obj, absent, err, quarantined[o.Obj])
				if quarantined[o.Obj] && !absent {
					c.Fail("served-from-quarantined-block", "o%d was found damaged by an earlier read (INTERNAL) and has not been uploaded since, yet a later call (%s) does not report it absent: err=%v", o.Obj, []string{"", "Get", "FindMissing"}[o.Kind], err)
					return
				}
				if quarantined[o.Obj] {
					c.Count("probe_quarantined_object_absent", 1)
				}
			case 3:
				// damage the copy on the medium, then read it
				if !uploaded[o.Obj] || quarantined[o.Obj] {
					continue
				}
				img := m.data.Visible()
				pos := bytes.Index(img, ob.Data)
				if pos < 0 {
					continue // rotated out, or partly overwritten
				}
				if bytes.Index(img[pos+1:], ob.Data) >= 0 {
					continue // more than one copy on the device: which one is current is unknown
				}
				m.data.Corrupt(int64(pos+t.Choose(len(ob.Data))), byte(1+t.Choose(255)))
				c.Count("fault_medium_corruption", 1)
				data, err := get(o.Obj)
				c.Logf("op%d corrupted o%d at %d; Get -> %s, %v", oi, o.Obj, pos, short(data), err)
				switch {
				case err == nil:
					c.Fail("corrupted-read-completed", "Get(o%d) completed with %s although its only copy on the medium was damaged", o.Obj, short(data))
					return
				case status.Code(err) == codes.Internal:
					quarantined[o.Obj] = true
					detected++
					c.Count("probe_detection_internal_error", 1)
				case status.Code(err) == codes.NotFound:
					// the index no longer pointed at that copy
				default:
					c.Fail("wrong-error-code", "Get(o%d) of a damaged copy failed with %v, expected INTERNAL", o.Obj, err)
					return
				}
			}
		}
	})
	c.Count("probe_wconfig_run", 1)
	c.Nontrivial = detected > 0
}
