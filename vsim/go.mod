module vsim

go 1.26.5
