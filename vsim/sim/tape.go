// Package sim holds the harness-side core of the simulator: tapes (the one
// source of every decision), pickers (scheduling strategies drawn from the
// sched tape), simulated media and clock, the run context, the batch runner,
// replay and minimisation.
package sim

import (
	"math/rand/v2"
)

// Tape is a recorded stream of bounded choices. A fresh run draws from a
// PRNG and records; a replay reads the recorded values (modulo the bound)
// and yields 0 once exhausted. 0 is always the "benign" choice: no fault, no
// preemption, smallest size.
type Tape struct {
	Name   string
	Vals   []uint32
	pos    int
	replay bool
	rng    *rand.Rand
	Draws  int
}

func newTape(name string, seed uint64, salt uint64) *Tape {
	return &Tape{Name: name, rng: rand.New(rand.NewPCG(seed, salt))}
}

func ReplayTape(name string, vals []uint32) *Tape {
	return &Tape{Name: name, Vals: vals, replay: true}
}

// Choose returns a value in [0,n). n<=1 consumes nothing.
func (t *Tape) Choose(n int) int {
	if n <= 1 {
		return 0
	}
	if n > 1<<31 {
		n = 1 << 31 // recorded values are 32 bits wide
	}
	t.Draws++
	if t.replay {
		if t.pos >= len(t.Vals) {
			t.pos++
			return 0
		}
		v := int(t.Vals[t.pos] % uint32(n))
		t.pos++
		return v
	}
	v := t.rng.IntN(n)
	t.Vals = append(t.Vals, uint32(v))
	t.pos++
	return v
}

// Chance is true with probability num/den; the all-zero tape says false.
func (t *Tape) Chance(num, den int) bool {
	if num <= 0 {
		return false
	}
	return t.Choose(den) >= den-num
}

// Range returns a value in [lo,hi]; the all-zero tape says lo.
func (t *Tape) Range(lo, hi int) int {
	if hi <= lo {
		return lo
	}
	return lo + t.Choose(hi-lo+1)
}

// Pick returns an index chosen by weights; the all-zero tape says 0.
func (t *Tape) Pick(weights ...int) int {
	total := 0
	for _, w := range weights {
		total += w
	}
	v := t.Choose(total)
	for i, w := range weights {
		if v < w {
			return i
		}
		v -= w
	}
	return len(weights) - 1
}

// Bytes returns n pseudo-random bytes (one draw per byte).
func (t *Tape) Bytes(n int) []byte {
	b := make([]byte, n)
	for i := range b {
		b[i] = byte(t.Choose(256))
	}
	return b
}

// Used returns the recorded prefix actually consumed.
func (t *Tape) Used() []uint32 {
	if t.pos < len(t.Vals) {
		return t.Vals[:t.pos]
	}
	return t.Vals
}

// Tapes is the complete decision record of one run.
type Tapes struct {
	Plan  *Tape // configuration, workload, fault plan
	Sched *Tape // scheduling strategy and choices, clock advances
	Fault *Tape // on-the-fly fault decisions at seam calls
	Crash *Tape // crash points and post-crash media
}

// NewTapes creates fresh recording tapes for runSeed.
func NewTapes(runSeed uint64) *Tapes {
	return &Tapes{
		Plan:  newTape("plan", runSeed, 1),
		Sched: newTape("sched", runSeed, 2),
		Fault: newTape("fault", runSeed, 3),
		Crash: newTape("crash", runSeed, 4),
	}
}

// TapeData is the serialisable form.
type TapeData struct {
	Plan  []uint32 `json:"plan"`
	Sched []uint32 `json:"sched"`
	Fault []uint32 `json:"fault"`
	Crash []uint32 `json:"crash"`
}

func (t *Tapes) Data() TapeData {
	c := func(v []uint32) []uint32 { return append([]uint32{}, v...) }
	return TapeData{c(t.Plan.Used()), c(t.Sched.Used()), c(t.Fault.Used()), c(t.Crash.Used())}
}

func ReplayTapes(d TapeData) *Tapes {
	return &Tapes{
		Plan:  ReplayTape("plan", d.Plan),
		Sched: ReplayTape("sched", d.Sched),
		Fault: ReplayTape("fault", d.Fault),
		Crash: ReplayTape("crash", d.Crash),
	}
}

func (d *TapeData) get(i int) *[]uint32 {
	switch i {
	case 0:
		return &d.Plan
	case 1:
		return &d.Crash
	case 2:
		return &d.Fault
	default:
		return &d.Sched
	}
}

func (d TapeData) clone() TapeData {
	c := func(v []uint32) []uint32 { return append([]uint32{}, v...) }
	return TapeData{c(d.Plan), c(d.Sched), c(d.Fault), c(d.Crash)}
}

func (d TapeData) Len() int { return len(d.Plan) + len(d.Sched) + len(d.Fault) + len(d.Crash) }
