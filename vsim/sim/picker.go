package sim

import (
	rt "verifsimrt"
)

// Strategy names, for evidence.
var StrategyNames = []string{"sticky", "uniform", "pct", "roundrobin"}

// TapePicker implements verifsimrt.Picker on top of the sched tape.
// In every strategy the choice value 0 means "continue the current goroutine
// if enabled, else the lowest id", so that the all-zero tape is the
// sequential execution.
type TapePicker struct {
	T        *Tape
	Strategy int
	switchN  int // sticky: switch with probability switchN/100
	advN     int // AdvanceEarly with probability advN/200
	pctDepth int
	pctSteps []int
	step     int
	nextPrio int
	rr       int
	Fair     bool // when set (drain phases): round robin, no early clock advance
	NoEarly  bool // never fire timers early
	Switches int
}

// NewTapePicker draws the run's strategy from the sched tape.
func NewTapePicker(t *Tape) *TapePicker {
	p := &TapePicker{T: t}
	p.Strategy = t.Pick(4, 3, 2, 1)
	switch p.Strategy {
	case 0:
		p.switchN = []int{2, 5, 10, 20, 30}[t.Choose(5)]
	case 2:
		p.pctDepth = 1 + t.Choose(3)
		for i := 0; i < p.pctDepth-1; i++ {
			p.pctSteps = append(p.pctSteps, t.Choose(400))
		}
	}
	p.advN = []int{0, 0, 1, 4, 20}[t.Choose(5)]
	p.nextPrio = 1000
	return p
}

func (p *TapePicker) Spawned(g *rt.G) {
	if p.Strategy == 2 {
		// random priority: draw a position; higher = runs first
		g.SetPrio(1 + p.T.Choose(1000))
	}
}

// ChooseBranch resolves a select statement with several ready cases.
func (p *TapePicker) ChooseBranch(n int) int { return p.T.Choose(n) }

func (p *TapePicker) AdvanceEarly() bool {
	if p.Fair || p.NoEarly || p.advN == 0 {
		return false
	}
	return p.T.Chance(p.advN, 200)
}

func indexOf(en []*rt.G, g *rt.G) int {
	for i, x := range en {
		if x == g {
			return i
		}
	}
	return -1
}

func (p *TapePicker) Pick(en []*rt.G, cur *rt.G) *rt.G {
	p.step++
	if len(en) == 1 {
		return en[0]
	}
	ci := -1
	if cur != nil {
		ci = indexOf(en, cur)
	}
	if p.Fair {
		p.rr++
		return en[p.rr%len(en)]
	}
	// k-th alternative: 0 = current (or lowest id), others in id order
	alt := func(k int) *rt.G {
		if ci < 0 {
			return en[k]
		}
		if k == 0 {
			return en[ci]
		}
		if k-1 < ci {
			return en[k-1]
		}
		return en[k]
	}
	var g *rt.G
	switch p.Strategy {
	case 0: // sticky
		if ci >= 0 && !p.T.Chance(p.switchN, 100) {
			g = en[ci]
		} else if ci >= 0 {
			g = alt(1 + p.T.Choose(len(en)-1))
		} else {
			g = en[p.T.Choose(len(en))]
		}
	case 1: // uniform
		g = alt(p.T.Choose(len(en)))
	case 2: // PCT
		for _, cp := range p.pctSteps {
			if cp == p.step && cur != nil {
				p.nextPrio--
				cur.SetPrio(-p.step) // lowest so far
			}
		}
		best := en[0]
		for _, x := range en[1:] {
			if x.Prio() > best.Prio() {
				best = x
			}
		}
		g = best
	default: // round robin
		p.rr++
		g = en[p.rr%len(en)]
	}
	if g != cur {
		p.Switches++
	}
	return g
}
