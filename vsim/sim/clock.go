package sim

import (
	"context"
	"time"

	"github.com/buildbarn/bb-storage/pkg/clock"
	rt "verifsimrt"
)

// Clock implements clock.Clock on top of the scheduler's simulated time.
type Clock struct {
	S    *rt.Sched
	Base time.Time
	Skew time.Duration // added to Now(); may be changed (clock jumps)

	TimersCreated int
	NowCalls      int
	Timers        []*TimerRec // every timer created through NewTimer
	// OnTimer observes timer creation (duration, creating goroutine id).
	OnTimer func(d time.Duration, g int)
}

// TimerRec observes one timer.
type TimerRec struct {
	G        int           // creating goroutine
	Created  time.Duration // simulated time at creation
	D        time.Duration // requested duration
	Deadline time.Duration
	Fired    bool
	FireT    time.Duration // simulated time at which it fired (value sent = Base+FireT+Skew)
}

var _ clock.Clock = (*Clock)(nil)

// NewClock creates a clock starting at a fixed epoch.
func NewClock(s *rt.Sched) *Clock {
	return &Clock{S: s, Base: time.Unix(1700000000, 0)}
}

func (c *Clock) Now() time.Time {
	c.NowCalls++
	return c.Base.Add(c.S.Now() + c.Skew)
}

type simTimer struct{ t rt.Timer }

func (t simTimer) Stop() bool { return t.t.Stop() }

type simTicker struct{ t rt.Timer }

func (t simTicker) Stop() { t.t.Stop() }

func (c *Clock) NewTimer(d time.Duration) (clock.Timer, <-chan time.Time) {
	c.TimersCreated++
	if c.OnTimer != nil {
		c.OnTimer(d, c.S.Cur().ID)
	}
	ch := make(chan time.Time, 1)
	rec := &TimerRec{G: c.S.Cur().ID, Created: c.S.Now(), D: d, Deadline: c.S.Now() + d}
	c.Timers = append(c.Timers, rec)
	t := c.S.AfterFunc(d, 0, func(now time.Duration) {
		rec.Fired, rec.FireT = true, now
		select {
		case ch <- c.Base.Add(now + c.Skew):
		default:
		}
	})
	return simTimer{t}, ch
}

func (c *Clock) NewTicker(d time.Duration) (clock.Ticker, <-chan time.Time) {
	ch := make(chan time.Time, 1)
	t := c.S.AfterFunc(d, d, func(now time.Duration) {
		select {
		case ch <- c.Base.Add(now + c.Skew):
		default:
		}
	})
	return simTicker{t}, ch
}

type timeoutCtx struct {
	context.Context
	deadline time.Time
	expired  *bool
}

func (t *timeoutCtx) Deadline() (time.Time, bool) { return t.deadline, true }
func (t *timeoutCtx) Err() error {
	if *t.expired {
		return context.DeadlineExceeded
	}
	return t.Context.Err()
}

func (c *Clock) NewContextWithTimeout(parent context.Context, timeout time.Duration) (context.Context, context.CancelFunc) {
	ctx, cancel := context.WithCancel(parent)
	expired := false
	t := c.S.AfterFunc(timeout, 0, func(now time.Duration) {
		expired = true
		cancel()
	})
	return &timeoutCtx{Context: ctx, deadline: c.Now().Add(timeout), expired: &expired}, func() {
		t.Stop()
		cancel()
	}
}
