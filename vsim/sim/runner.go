package sim

import (
	"encoding/json"
	"fmt"
	"io"
	"os"
	"path/filepath"
	"runtime"
	"runtime/debug"
	"sort"
	"strings"
	"time"
)

// Profile is one configuration family of a property's harness.
type Profile struct {
	Name   string
	Weight int // share of runs
	Fn     func(c *RunCtx)
	// Prologue profiles are run exactly once per batch by worker 0 (exhaustive
	// enumerations); their Fn may run many cases internally.
	Prologue bool
}

// Check is the registration of one property.
type Check struct {
	Prop       string
	Level      string // exploration | fault_enumeration
	Profiles   []Profile
	Components map[string][]string // real / stub
	Rule       string
	// RequiredProbes must be non-zero in the aggregated stats of a batch,
	// else the batch is inconclusive (exit 2).
	RequiredProbes []string
	Assumptions    []string
}

var Registry = map[string]*Check{}

func Register(c *Check) { Registry[c.Prop] = c }

func hash64(parts ...uint64) uint64 {
	h := uint64(14695981039346656037)
	for _, p := range parts {
		for i := 0; i < 8; i++ {
			h ^= p & 0xff
			h *= 1099511628211
			p >>= 8
		}
	}
	// final avalanche (splitmix)
	h ^= h >> 30
	h *= 0xbf58476d1ce4e5b9
	h ^= h >> 27
	h *= 0x94d049bb133111eb
	h ^= h >> 31
	return h
}

func strHash(s string) uint64 {
	h := uint64(14695981039346656037)
	for i := 0; i < len(s); i++ {
		h ^= uint64(s[i])
		h *= 1099511628211
	}
	return h
}

// RunSeed derives the seed of run idx of a batch.
func RunSeed(batchSeed uint64, prop string, idx int) uint64 {
	return hash64(batchSeed, strHash(prop), uint64(idx))
}

func (ch *Check) profileFor(runSeed uint64) *Profile {
	total := 0
	for i := range ch.Profiles {
		if !ch.Profiles[i].Prologue {
			total += ch.Profiles[i].Weight
		}
	}
	v := int(hash64(runSeed, 77) % uint64(total))
	for i := range ch.Profiles {
		if ch.Profiles[i].Prologue {
			continue
		}
		if v < ch.Profiles[i].Weight {
			return &ch.Profiles[i]
		}
		v -= ch.Profiles[i].Weight
	}
	panic("unreachable")
}

func (ch *Check) profileByName(name string) *Profile {
	for i := range ch.Profiles {
		if ch.Profiles[i].Name == name {
			return &ch.Profiles[i]
		}
	}
	return nil
}

// Outcome of executing one run.
type Outcome struct {
	Ctx        *RunCtx
	HarnessErr string
}

// Execute runs profile p with tapes t. Harness errors are returned, not
// reported as violations.
// ExecWall is the wall-clock watchdog for a single execution (forward runs,
// minimiser candidates and replays alike): exceeding it dumps all goroutines
// and exits 2 - never a VIOLATION.
var ExecWall time.Duration

func Execute(ch *Check, p *Profile, tier string, t *Tapes, keepLog bool) (out Outcome) {
	c := newRunCtx(ch.Prop, p.Name, tier, t, keepLog)
	out.Ctx = c
	if ExecWall > 0 {
		wall := ExecWall
		if p.Prologue {
			// exhaustive enumerations are long by design, and the machine may
			// be shared with other checks
			wall *= 10
		}
		wd := time.AfterFunc(wall, func() {
			buf := make([]byte, 1<<20)
			n := runtime.Stack(buf, true)
			fmt.Fprintf(os.Stderr, "WATCHDOG: property=%s profile=%s: one execution exceeded %v\n%s\n", ch.Prop, p.Name, wall, buf[:n])
			os.Exit(2)
		})
		defer wd.Stop()
	}
	defer func() {
		if r := recover(); r != nil {
			if he, ok := r.(HarnessError); ok {
				out.HarnessErr = he.Msg
			} else {
				out.HarnessErr = fmt.Sprintf("panic in harness: %v\n%s", r, debug.Stack())
			}
		}
	}()
	p.Fn(c)
	return out
}

// ReplayFile is what is written for every reported violation.
type ReplayFile struct {
	Property  string    `json:"property"`
	Profile   string    `json:"profile"`
	Tier      string    `json:"tier"`
	BatchSeed uint64    `json:"batch_seed"`
	RunIndex  int       `json:"run_index"`
	RunSeed   uint64    `json:"run_seed"`
	Class     string    `json:"class"`
	Msg       string    `json:"msg"`
	Hash      string    `json:"event_log_hash"`
	Tapes     TapeData  `json:"tapes"`
	Original  *TapeData `json:"original_tapes,omitempty"`
	Minimised bool      `json:"minimised"`
	MinRuns   int       `json:"minimiser_executions"`
	Trace     []string  `json:"trace"`
}

func firstClass(c *RunCtx) (string, string) {
	if len(c.Violations) == 0 {
		return "", ""
	}
	return c.Violations[0].Class, c.Violations[0].Msg
}

// Minimise shrinks the tapes while the same violation class fires.
func Minimise(ch *Check, p *Profile, tier string, d TapeData, class string, maxExec int, budget time.Duration) (TapeData, int) {
	deadline := time.Now().Add(budget)
	execs := 0
	try := func(cand TapeData) bool {
		if execs >= maxExec || time.Now().After(deadline) {
			return false
		}
		execs++
		o := Execute(ch, p, tier, ReplayTapes(cand.clone()), false)
		if o.HarnessErr != "" {
			return false
		}
		for _, v := range o.Ctx.Violations {
			if v.Class == class {
				return true
			}
		}
		return false
	}
	cur := d.clone()
	improved := true
	for improved && execs < maxExec && time.Now().Before(deadline) {
		improved = false
		for ti := 0; ti < 4; ti++ {
			// 1. truncate tail (binary)
			for {
				v := cur.get(ti)
				if len(*v) == 0 {
					break
				}
				cut := len(*v) / 2
				ok := false
				for cut >= 1 {
					cand := cur.clone()
					cv := cand.get(ti)
					*cv = (*cv)[:len(*cv)-cut]
					if try(cand) {
						cur = cand
						ok = true
						improved = true
						break
					}
					cut /= 2
				}
				if !ok {
					break
				}
			}
			// 2. delete blocks
			for _, bs := range []int{8, 4, 2, 1} {
				i := 0
				for {
					v := cur.get(ti)
					if i+bs > len(*v) {
						break
					}
					cand := cur.clone()
					cv := cand.get(ti)
					*cv = append((*cv)[:i], (*cv)[i+bs:]...)
					if try(cand) {
						cur = cand
						improved = true
					} else {
						i += bs
					}
					if execs >= maxExec || time.Now().After(deadline) {
						break
					}
				}
			}
			// 3. zero, then halve entries
			v := cur.get(ti)
			for i := 0; i < len(*v); i++ {
				if (*v)[i] == 0 {
					continue
				}
				cand := cur.clone()
				(*cand.get(ti))[i] = 0
				if try(cand) {
					cur = cand
					v = cur.get(ti)
					improved = true
					continue
				}
				for (*v)[i] > 1 {
					cand := cur.clone()
					(*cand.get(ti))[i] = (*v)[i] / 2
					if try(cand) {
						cur = cand
						v = cur.get(ti)
						improved = true
					} else {
						break
					}
				}
				if execs >= maxExec || time.Now().After(deadline) {
					break
				}
			}
		}
	}
	return cur, execs
}

// KnownFinding is an entry of /verif/known_findings.json.
type KnownFinding struct {
	Status   string `json:"status"` // "open" or "fixed"
	Property string `json:"property"`
	Class    string `json:"class"`           // exact violation class
	Match    string `json:"match,omitempty"` // optional substring of the message
	What     string `json:"what"`
	Commit   string `json:"commit,omitempty"`
}

func LoadKnownFindings(path string) []KnownFinding {
	data, err := os.ReadFile(path)
	if err != nil {
		return nil
	}
	var f struct {
		Findings []KnownFinding `json:"findings"`
	}
	if err := json.Unmarshal(data, &f); err != nil {
		fmt.Fprintf(os.Stderr, "known findings file unreadable: %v\n", err)
		os.Exit(2)
	}
	return f.Findings
}

func matchKnown(kf []KnownFinding, v Violation) *KnownFinding {
	for i := range kf {
		k := &kf[i]
		if k.Status != "open" || k.Property != v.Property || k.Class != v.Class {
			continue
		}
		if k.Match != "" && !strings.Contains(v.Msg, k.Match) {
			continue
		}
		return k
	}
	return nil
}

// WorkerResult is written by each worker process.
type WorkerResult struct {
	Property     string                 `json:"property"`
	Worker       int                    `json:"worker"`
	Runs         int                    `json:"runs"`
	Nontrivial   int                    `json:"nontrivial"`
	Hashes       []string               `json:"hashes"`
	Steps        int                    `json:"steps"`
	Sims         int                    `json:"sims"`
	Switches     int                    `json:"switches"`
	Goroutines   int                    `json:"goroutines"`
	SimTimeS     float64                `json:"sim_time_s"`
	WallS        float64                `json:"wall_s"`
	Stats        map[string]int         `json:"stats"`
	PerProfile   map[string]int         `json:"per_profile"`
	Replays      []string               `json:"replays"`
	Violations   []Violation            `json:"violations"`
	Known        map[string]int         `json:"known"`
	KnownWhat    map[string]string      `json:"known_what"`
	Samples      []interface{}          `json:"samples"`
	HarnessError string                 `json:"harness_error,omitempty"`
	Extra        map[string]interface{} `json:"extra,omitempty"`
}

// BatchOpts configures a worker.
type BatchOpts struct {
	Prop      string
	Tier      string
	Seed      uint64
	Worker    int
	Workers   int
	Seconds   float64
	MaxRuns   int
	OutDir    string
	ReplayDir string
	KnownPath string
	RunWall   time.Duration
	DumpHashes io.Writer // debugging: one line per run
}

// RunBatch is the worker loop.
func RunBatch(o BatchOpts) int {
	ch := Registry[o.Prop]
	if ch == nil {
		fmt.Fprintf(os.Stderr, "unknown property %s\n", o.Prop)
		return 2
	}
	known := LoadKnownFindings(o.KnownPath)
	res := &WorkerResult{Property: o.Prop, Worker: o.Worker, Stats: map[string]int{}, PerProfile: map[string]int{}, Known: map[string]int{}, KnownWhat: map[string]string{}}
	start := time.Now()
	hashes := map[uint64]bool{}
	reported := map[string]int{}
	exit := 0
	writeOut := func() {
		res.WallS = time.Since(start).Seconds()
		for h := range hashes {
			res.Hashes = append(res.Hashes, fmt.Sprintf("%016x", h))
		}
		sort.Strings(res.Hashes)
		data, _ := json.Marshal(res)
		os.MkdirAll(o.OutDir, 0o755)
		os.WriteFile(filepath.Join(o.OutDir, fmt.Sprintf("worker_%d.json", o.Worker)), data, 0o644)
	}
	runOne := func(p *Profile, idx int, runSeed uint64) bool {
		t := NewTapes(runSeed)
		var wd *time.Timer
		if o.RunWall > 0 {
			wall := o.RunWall
			if p.Prologue {
				wall *= 10
			}
			wd = time.AfterFunc(wall, func() {
				buf := make([]byte, 1<<20)
				n := runtime.Stack(buf, true)
				fmt.Fprintf(os.Stderr, "WATCHDOG: property=%s profile=%s run_index=%d run_seed=%d exceeded %v\n%s\n", o.Prop, p.Name, idx, runSeed, wall, buf[:n])
				os.Exit(2)
			})
		}
		out := Execute(ch, p, o.Tier, t, false)
		if wd != nil {
			wd.Stop()
		}
		c := out.Ctx
		if o.DumpHashes != nil {
			fmt.Fprintf(o.DumpHashes, "%d %d %016x %d %s\n", idx, runSeed, c.Hash, c.Steps, p.Name)
		}
		res.Runs++
		res.PerProfile[p.Name]++
		res.Steps += c.Steps
		res.Sims += c.Sims
		res.Switches += c.Switches
		res.Goroutines += c.Goroutines
		res.SimTimeS += c.SimTime.Seconds()
		for k, v := range c.Stats {
			if strings.HasPrefix(k, "max_") {
				if v > res.Stats[k] {
					res.Stats[k] = v
				}
				continue
			}
			res.Stats[k] += v
		}
		if out.HarnessErr != "" {
			res.HarnessError = fmt.Sprintf("profile=%s run_index=%d run_seed=%d: %s", p.Name, idx, runSeed, out.HarnessErr)
			fmt.Fprintf(os.Stderr, "HARNESS-ERROR property=%s %s\n", o.Prop, res.HarnessError)
			exit = 2
			return false
		}
		if c.Nontrivial {
			res.Nontrivial++
			if len(hashes) < 100000 {
				hashes[c.Hash] = true
			}
		}
		if len(res.Samples) < 3 && len(c.Sample) > 0 && (c.Nontrivial || res.Runs > 20) {
			s := map[string]interface{}{"profile": p.Name, "run_index": idx, "run_seed": runSeed}
			for k, v := range c.Sample {
				s[k] = v
			}
			res.Samples = append(res.Samples, s)
		}
		if len(c.Violations) == 0 {
			return true
		}
		// known findings first
		var fresh []Violation
		for _, v := range c.Violations {
			if k := matchKnown(known, v); k != nil {
				key := v.Property + " " + v.Class
				res.Known[key]++
				res.KnownWhat[key] = k.What
			} else {
				fresh = append(fresh, v)
			}
		}
		if len(fresh) == 0 {
			return true
		}
		v := fresh[0]
		if reported[v.Class] >= 1 {
			res.Stats["violations_suppressed_same_class"]++
			return true
		}
		reported[v.Class]++
		if exit == 0 {
			exit = 1
		}
		res.Violations = append(res.Violations, v)
		// minimise and write the replay file
		orig := t.Data()
		maxExec, budget := 500, 30*time.Second
		if p.Prologue {
			maxExec, budget = 0, 0
		}
		min, execs := Minimise(ch, p, o.Tier, orig, v.Class, maxExec, budget)
		final := Execute(ch, p, o.Tier, ReplayTapes(min.clone()), true)
		cls, msg := "", ""
		for _, fv := range final.Ctx.Violations {
			if fv.Class == v.Class {
				cls, msg = fv.Class, fv.Msg
				break
			}
		}
		rf := ReplayFile{Property: o.Prop, Profile: p.Name, Tier: o.Tier, BatchSeed: o.Seed, RunIndex: idx, RunSeed: runSeed,
			Class: cls, Msg: msg, Hash: fmt.Sprintf("%016x", final.Ctx.Hash), Tapes: min, Original: &orig, Minimised: true, MinRuns: execs, Trace: final.Ctx.Trace}
		if cls == "" {
			// minimised tapes did not reproduce (should not happen): fall back to the original
			final = Execute(ch, p, o.Tier, ReplayTapes(orig.clone()), true)
			cls, msg = firstClass(final.Ctx)
			rf.Class, rf.Msg, rf.Tapes, rf.Original, rf.Minimised = cls, msg, orig, nil, false
			rf.Hash = fmt.Sprintf("%016x", final.Ctx.Hash)
			rf.Trace = final.Ctx.Trace
		}
		if len(rf.Trace) > 400 {
			rf.Trace = append(rf.Trace[:50:50], append([]string{"…"}, rf.Trace[len(rf.Trace)-349:]...)...)
		}
		os.MkdirAll(o.ReplayDir, 0o755)
		name := fmt.Sprintf("%s_%s_%d_%d.json", o.Prop, sanitize(v.Class), o.Seed, idx)
		path := filepath.Join(o.ReplayDir, name)
		data, _ := json.MarshalIndent(rf, "", " ")
		os.WriteFile(path, data, 0o644)
		res.Replays = append(res.Replays, path)
		fmt.Printf("VIOLATION property=%s replay=%s\n", o.Prop, path)
		fmt.Printf("  class=%s profile=%s run_seed=%d\n  %s\n", v.Class, p.Name, runSeed, firstLine(v.Msg))
		return true
	}
	// prologue (worker 0 only)
	if o.Worker == 0 {
		for i := range ch.Profiles {
			p := &ch.Profiles[i]
			if !p.Prologue {
				continue
			}
			if !runOne(p, -1-i, RunSeed(o.Seed, o.Prop+"/"+p.Name, 0)) {
				writeOut()
				return exit
			}
		}
	}
	for idx := o.Worker; ; idx += o.Workers {
		if o.MaxRuns > 0 && idx >= o.MaxRuns {
			break
		}
		if time.Since(start).Seconds() > o.Seconds {
			break
		}
		runSeed := RunSeed(o.Seed, o.Prop, idx)
		p := ch.profileFor(runSeed)
		if !runOne(p, idx, runSeed) {
			break
		}
		if len(res.Violations) >= 2 {
			break
		}
	}
	writeOut()
	return exit
}

func firstLine(s string) string {
	if i := strings.Index(s, "\n"); i >= 0 {
		return s[:i]
	}
	return s
}

func sanitize(s string) string {
	var b strings.Builder
	for _, r := range s {
		if (r >= 'a' && r <= 'z') || (r >= 'A' && r <= 'Z') || (r >= '0' && r <= '9') || r == '-' || r == '_' {
			b.WriteRune(r)
		} else {
			b.WriteByte('_')
		}
		if b.Len() > 60 {
			break
		}
	}
	return b.String()
}

// Replay re-executes a replay file; returns the process exit code.
func Replay(path string) int {
	data, err := os.ReadFile(path)
	if err != nil {
		fmt.Fprintf(os.Stderr, "%v\n", err)
		return 2
	}
	var rf ReplayFile
	if err := json.Unmarshal(data, &rf); err != nil {
		fmt.Fprintf(os.Stderr, "%v\n", err)
		return 2
	}
	ch := Registry[rf.Property]
	if ch == nil {
		fmt.Fprintf(os.Stderr, "unknown property %s\n", rf.Property)
		return 2
	}
	p := ch.profileByName(rf.Profile)
	if p == nil {
		fmt.Fprintf(os.Stderr, "unknown profile %s\n", rf.Profile)
		return 2
	}
	out := Execute(ch, p, rf.Tier, ReplayTapes(rf.Tapes.clone()), true)
	if out.HarnessErr != "" {
		fmt.Fprintf(os.Stderr, "HARNESS-ERROR %s\n", out.HarnessErr)
		return 2
	}
	for _, l := range out.Ctx.Trace {
		fmt.Println(l)
	}
	got := fmt.Sprintf("%016x", out.Ctx.Hash)
	for _, v := range out.Ctx.Violations {
		if v.Class == rf.Class {
			if got != rf.Hash {
				fmt.Printf("REPLAY-DIVERGED property=%s class reproduced but event log hash %s != %s\n", rf.Property, got, rf.Hash)
				return 2
			}
			fmt.Printf("VIOLATION property=%s replay=%s\n  class=%s\n  %s\n", rf.Property, path, v.Class, v.Msg)
			return 1
		}
	}
	if len(out.Ctx.Violations) > 0 {
		fmt.Printf("REPLAY-DIVERGED property=%s expected class %s, got %s\n", rf.Property, rf.Class, out.Ctx.Violations[0].Class)
		return 2
	}
	fmt.Printf("NOT-REPRODUCED property=%s class=%s (the violation does not occur on the current tree)\n", rf.Property, rf.Class)
	return 0
}


// RunOne executes the run with the given run seed once, with the trace kept,
// and prints it (debugging aid).
func RunOne(prop string, runSeed uint64, tier string) int {
	ch := Registry[prop]
	if ch == nil {
		return 2
	}
	p := ch.profileFor(runSeed)
	out := Execute(ch, p, tier, NewTapes(runSeed), true)
	for _, l := range out.Ctx.Trace {
		fmt.Println(l)
	}
	fmt.Printf("profile=%s hash=%016x violations=%d harness_error=%q\n", p.Name, out.Ctx.Hash, len(out.Ctx.Violations), out.HarnessErr)
	for _, v := range out.Ctx.Violations {
		fmt.Printf("VIOLATION %s: %s\n", v.Class, v.Msg)
	}
	return 0
}
