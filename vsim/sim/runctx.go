package sim

import (
	"fmt"
	"sort"
	"strings"
	"time"

	rt "verifsimrt"
)

// Violation is a property violation found by a run.
type Violation struct {
	Property string `json:"property"`
	Class    string `json:"class"` // stable identifier of the kind of failure (used for minimisation and known findings)
	Msg      string `json:"msg"`
}

// HarnessError is panicked by harness code for conditions that are the
// harness's fault (never a VIOLATION; the worker exits 2).
type HarnessError struct{ Msg string }

func (h HarnessError) Error() string { return "harness error: " + h.Msg }

// RunCtx is what a harness profile gets for one run.
type RunCtx struct {
	Prop    string
	Profile string
	Tier    string
	T       *Tapes
	KeepLog bool

	Violations []Violation
	Stats      map[string]int
	Steps      int
	SimTime    time.Duration
	Hash       uint64
	Sims       int
	Trace      []string
	Sample     map[string]interface{}
	Nontrivial bool
	Goroutines int
	Switches   int

	S      *rt.Sched
	Picker *TapePicker

	// AtomicYields (seam S5): the simulations of this run treat the
	// operations of sync/atomic in the rewritten packages as scheduling points.
	AtomicYields bool
}

func newRunCtx(prop, profile, tier string, t *Tapes, keepLog bool) *RunCtx {
	return &RunCtx{Prop: prop, Profile: profile, Tier: tier, T: t, KeepLog: keepLog,
		Stats: map[string]int{}, Sample: map[string]interface{}{}, Hash: 14695981039346656037}
}

// Fail records a violation of the run's property.
func (c *RunCtx) Fail(class, format string, a ...interface{}) {
	msg := fmt.Sprintf(format, a...)
	if c.S != nil {
		c.S.Note("VIOLATION " + class)
	}
	c.Logf("VIOLATION %s: %s", class, msg)
	c.Violations = append(c.Violations, Violation{Property: c.Prop, Class: class, Msg: msg})
}

// Failed reports whether a violation has been recorded.
func (c *RunCtx) Failed() bool { return len(c.Violations) > 0 }

// Count adds to a coverage probe / fault counter.
func (c *RunCtx) Count(name string, n int) { c.Stats[name] += n }

// Max records the maximum of a quantity (name must start with "max_").
func (c *RunCtx) Max(name string, v int) {
	if v > c.Stats[name] {
		c.Stats[name] = v
	}
}

// Logf appends a line to the human-readable trace (only kept when KeepLog).
func (c *RunCtx) Logf(format string, a ...interface{}) {
	if c.KeepLog {
		step := 0
		if c.S != nil {
			step = c.S.Steps
		}
		c.Trace = append(c.Trace, fmt.Sprintf("[%d] ", step)+fmt.Sprintf(format, a...))
	}
}

// Note adds a line to both the hashed event log and the trace.
func (c *RunCtx) Note(format string, a ...interface{}) {
	msg := fmt.Sprintf(format, a...)
	if c.S != nil {
		c.S.Note(msg)
	} else {
		c.mix(msg)
	}
	c.Logf("%s", msg)
}

func (c *RunCtx) mix(s string) {
	h := c.Hash
	for i := 0; i < len(s); i++ {
		h ^= uint64(s[i])
		h *= 1099511628211
	}
	h ^= 0xff
	h *= 1099511628211
	c.Hash = h
}

func (c *RunCtx) mixU(v uint64) {
	h := c.Hash
	for i := 0; i < 8; i++ {
		h ^= v & 0xff
		h *= 1099511628211
		v >>= 8
	}
	c.Hash = h
}

// SimOpts tunes one simulation.
type SimOpts struct {
	MaxSteps int
	// PanicIsViolation: a panic raised in bb-storage code inside a simulated
	// goroutine is recorded as a violation of class "panic". Panics raised
	// in harness code are harness errors.
	PanicClass string
	// OnDeadlock: class to report when the simulation deadlocks; empty means
	// a deadlock is a harness error.
	DeadlockClass string
}

// Sim runs one simulation whose scheduling is drawn from the sched tape.
func (c *RunCtx) Sim(o SimOpts, root func(s *rt.Sched)) rt.Result {
	if o.MaxSteps == 0 {
		o.MaxSteps = 200000
	}
	p := NewTapePicker(c.T.Sched)
	c.Picker = p
	c.Stats["strategy_"+StrategyNames[p.Strategy]]++
	res := rt.Run(p, o.MaxSteps, c.KeepLog, func(s *rt.Sched) {
		c.S = s
		s.AtomicYields = c.AtomicYields
		root(s)
	})
	s := c.S
	c.S = nil
	c.Sims++
	c.Steps += res.Steps
	c.SimTime += res.Now
	c.mixU(res.Hash)
	c.Switches += p.Switches
	if s != nil {
		c.Goroutines += s.SpawnedCount
		c.Stats["timer_fires"] += s.TimerFires
		c.Stats["clock_jumps"] += s.ClockJumps
		c.Stats["early_timer_fires"] += s.EarlyFires
		c.Stats["lock_contended"] += s.Contended
		if s.AtomicPoints > 0 {
			c.Stats["atomic_points"] += s.AtomicPoints
		}
		if s.MaxRunnable > c.Stats["max_runnable"] {
			c.Stats["max_runnable"] = s.MaxRunnable
		}
	}
	if c.KeepLog {
		c.Trace = append(c.Trace, res.Log...)
	}
	if res.RootPanic != nil {
		if he, ok := res.RootPanic.(HarnessError); ok {
			panic(he)
		}
		c.classifyPanic(o, fmt.Sprintf("%v", res.RootPanic), res.RootStack)
	}
	for _, p := range res.Panics {
		first := p
		if i := strings.Index(p, "\n"); i >= 0 {
			first = p[:i]
		}
		c.classifyPanic(o, first, p)
	}
	if res.Deadlock {
		if o.DeadlockClass == "" {
			panic(HarnessError{"unexpected deadlock: " + res.DeadlockMsg})
		}
		c.Fail(o.DeadlockClass, "deadlock: %s", res.DeadlockMsg)
	}
	if res.Overrun {
		panic(HarnessError{fmt.Sprintf("step budget exceeded (%d steps)", res.Steps)})
	}
	return res
}

// panicSite extracts the first bb-storage frame of a stack trace.
func panicSite(stack string) (site string, inRepo bool) {
	lines := strings.Split(stack, "\n")
	// skip until after the "panic(" frame if present
	start := 0
	for i, l := range lines {
		if strings.HasPrefix(l, "panic(") {
			start = i
			break
		}
	}
	for i := start; i < len(lines); i++ {
		l := lines[i]
		if strings.HasPrefix(l, "\t") || l == "" {
			continue
		}
		if strings.HasPrefix(l, "panic(") || strings.HasPrefix(l, "runtime.") || strings.HasPrefix(l, "runtime/debug.") || strings.HasPrefix(l, "verifsimrt.") || strings.HasPrefix(l, "goroutine ") {
			continue
		}
		// l is "pkg/path.Func(args)"
		fn := l
		if j := strings.LastIndex(fn, "("); j >= 0 {
			fn = fn[:j]
		}
		if strings.Contains(fn, "github.com/buildbarn/bb-storage/") {
			fn = strings.TrimPrefix(fn, "github.com/buildbarn/bb-storage/")
			return fn, true
		}
		if strings.HasPrefix(fn, "vsim/") || strings.HasPrefix(fn, "main.") {
			return fn, false
		}
		// frames of libraries (protobuf, …): keep looking for who called them
	}
	return "unknown", false
}

func (c *RunCtx) classifyPanic(o SimOpts, first, stack string) {
	site, inRepo := panicSite(stack)
	if !inRepo {
		panic(HarnessError{"panic in harness code: " + first + "\n" + stack})
	}
	class := o.PanicClass
	if class == "" {
		class = "panic"
	}
	c.Fail(class+"@"+site, "%s\n%s", first, trimStack(stack))
}

func trimStack(st string) string {
	lines := strings.Split(st, "\n")
	if len(lines) > 40 {
		lines = lines[:40]
	}
	return strings.Join(lines, "\n")
}

// SortedStats renders the stats deterministically.
func SortedStats(m map[string]int) []string {
	var keys []string
	for k := range m {
		keys = append(keys, k)
	}
	sort.Strings(keys)
	var out []string
	for _, k := range keys {
		out = append(out, fmt.Sprintf("%s=%d", k, m[k]))
	}
	return out
}
