package sim

import (
	"fmt"
	"io"
	"os"
	"sort"
	"syscall"
	"time"

	"github.com/buildbarn/bb-storage/pkg/filesystem"
	"github.com/buildbarn/bb-storage/pkg/filesystem/path"
	rt "verifsimrt"
)

// DirFile is the content of one file of the simulated state directory.
type DirFile struct {
	Data    []byte // volatile content
	Durable []byte // content as of the last File.Sync (nil: never synced)
	Synced  bool
}

type dirOp struct {
	kind     string // create, remove, rename
	name, to string
	file     *DirFile
}

// DirFaults: probabilities n/1000 per operation.
type DirFaults struct {
	OpErr int
	T     *Tape
}

// Dir implements the part of filesystem.Directory that the persistent state
// store uses. File content becomes durable at File.Sync, directory entries at
// Directory.Sync. Every other method panics: a change in what the state
// store does with the directory must be loud.
type Dir struct {
	Name    string
	entries map[string]*DirFile // volatile namespace
	durable map[string]*DirFile // namespace as of the last Directory.Sync
	journal []dirOp             // entry operations since the last Directory.Sync
	Dead    bool
	Faults  *DirFaults

	Ops, OpErrs, DirSyncs, FileSyncs, Renames int
	FailNext                                  int
	// OnOp observes (kind) of every operation that took effect.
	OnOp func(kind string)
}

func NewDir(name string) *Dir {
	return &Dir{Name: name, entries: map[string]*DirFile{}, durable: map[string]*DirFile{}}
}

// Preload places a file in the directory as if it had been there, durably,
// before the process started (e.g. a temporary file left behind by a crash
// of an earlier incarnation).
func (d *Dir) Preload(name string, data []byte) {
	f := &DirFile{Data: append([]byte{}, data...), Durable: append([]byte{}, data...), Synced: true}
	d.entries[name] = f
	d.durable[name] = f
}

var errDirIO = syscall.EIO

func (d *Dir) enter(what string) error {
	if d.Dead {
		return errDirIO
	}
	rt.Yield("dir." + d.Name + "." + what)
	if d.Dead {
		return errDirIO
	}
	d.Ops++
	if d.FailNext > 0 {
		d.FailNext--
		d.OpErrs++
		return syscall.ENOSPC
	}
	if f := d.Faults; f != nil && f.OpErr > 0 && f.T.Chance(f.OpErr, 1000) {
		d.OpErrs++
		if f.T.Choose(2) == 0 {
			return syscall.EIO
		}
		return syscall.ENOSPC
	}
	return nil
}

func (d *Dir) took(kind string) {
	if d.OnOp != nil {
		d.OnOp(kind)
	}
}

type dirAppender struct {
	d      *Dir
	f      *DirFile
	closed bool
}

func (a *dirAppender) Write(p []byte) (int, error) {
	if err := a.d.enter("Write"); err != nil {
		return 0, err
	}
	a.f.Data = append(a.f.Data, p...)
	a.d.took("write")
	return len(p), nil
}

func (a *dirAppender) Sync() error {
	if err := a.d.enter("FileSync"); err != nil {
		return err
	}
	a.f.Durable = append([]byte{}, a.f.Data...)
	a.f.Synced = true
	a.d.FileSyncs++
	a.d.took("fsync")
	return nil
}

func (a *dirAppender) Close() error {
	if err := a.d.enter("Close"); err != nil {
		return err
	}
	a.closed = true
	return nil
}

type dirReader struct {
	d *Dir
	f *DirFile
}

func (r *dirReader) ReadAt(p []byte, off int64) (int, error) {
	if err := r.d.enter("ReadAt"); err != nil {
		return 0, err
	}
	if off >= int64(len(r.f.Data)) {
		return 0, io.EOF
	}
	n := copy(p, r.f.Data[off:])
	if n < len(p) {
		return n, io.EOF
	}
	return n, nil
}
func (r *dirReader) Close() error { return nil }
func (r *dirReader) GetNextRegionOffset(offset int64, regionType filesystem.RegionType) (int64, error) {
	panic("simdir: GetNextRegionOffset not used by the code under test")
}
func (r *dirReader) Len() (int64, error) { return int64(len(r.f.Data)), nil }

func (d *Dir) OpenAppend(name path.Component, creationMode filesystem.CreationMode) (filesystem.FileAppender, error) {
	if err := d.enter("OpenAppend"); err != nil {
		return nil, err
	}
	n := name.String()
	f, ok := d.entries[n]
	excl := creationMode == filesystem.CreateExcl(0o666)
	dont := creationMode == filesystem.DontCreate
	if ok && excl {
		return nil, os.ErrExist
	}
	if !ok {
		if dont {
			return nil, os.ErrNotExist
		}
		f = &DirFile{}
		d.entries[n] = f
		d.journal = append(d.journal, dirOp{kind: "create", name: n, file: f})
		d.took("create")
	}
	return &dirAppender{d: d, f: f}, nil
}

func (d *Dir) OpenRead(name path.Component) (filesystem.FileReader, error) {
	if err := d.enter("OpenRead"); err != nil {
		return nil, err
	}
	f, ok := d.entries[name.String()]
	if !ok {
		return nil, os.ErrNotExist
	}
	return &dirReader{d: d, f: f}, nil
}

func (d *Dir) Remove(name path.Component) error {
	if err := d.enter("Remove"); err != nil {
		return err
	}
	n := name.String()
	if _, ok := d.entries[n]; !ok {
		return os.ErrNotExist
	}
	delete(d.entries, n)
	d.journal = append(d.journal, dirOp{kind: "remove", name: n})
	d.took("remove")
	return nil
}

func (d *Dir) Rename(oldName path.Component, newDirectory filesystem.Directory, newName path.Component) error {
	if err := d.enter("Rename"); err != nil {
		return err
	}
	if nd, ok := newDirectory.(*Dir); !ok || nd != d {
		panic("simdir: rename across directories not used by the code under test")
	}
	o, n := oldName.String(), newName.String()
	f, ok := d.entries[o]
	if !ok {
		return os.ErrNotExist
	}
	delete(d.entries, o)
	d.entries[n] = f
	d.journal = append(d.journal, dirOp{kind: "rename", name: o, to: n})
	d.Renames++
	d.took("rename")
	return nil
}

func (d *Dir) Sync() error {
	if err := d.enter("DirSync"); err != nil {
		return err
	}
	d.durable = map[string]*DirFile{}
	for k, v := range d.entries {
		d.durable[k] = v
	}
	d.journal = nil
	d.DirSyncs++
	d.took("dirsync")
	return nil
}

func (d *Dir) Close() error { return nil }

// DirSnapshot captures what a crash image can be built from.
type DirSnapshot struct {
	Durable map[string]DirFile
	Journal []dirOp
	files   map[*DirFile]DirFile
	Entries map[string]DirFile
}

func (d *Dir) Snapshot() *DirSnapshot {
	sn := &DirSnapshot{Durable: map[string]DirFile{}, files: map[*DirFile]DirFile{}, Entries: map[string]DirFile{}}
	cp := func(f *DirFile) DirFile {
		return DirFile{Data: append([]byte{}, f.Data...), Durable: append([]byte{}, f.Durable...), Synced: f.Synced}
	}
	for k, v := range d.durable {
		sn.Durable[k] = cp(v)
		sn.files[v] = cp(v)
	}
	for k, v := range d.entries {
		sn.Entries[k] = cp(v)
		sn.files[v] = cp(v)
	}
	for _, op := range d.journal {
		if op.file != nil {
			sn.files[op.file] = cp(op.file)
		}
		sn.Journal = append(sn.Journal, op)
	}
	return sn
}

// JournalLen returns the number of unsynced entry operations.
func (d *Dir) JournalLen() int { return len(d.journal) }

// CrashDir builds the post-crash directory.
//
//	mode CrashLoseAll: durable namespace, file content as last fsynced
//	mode CrashKeepAll: volatile namespace and content (process crash)
//	mode CrashSubset:  durable namespace plus a tape-chosen prefix of the
//	                   journal; content of a file is its fsynced content, or,
//	                   where it was modified after/without fsync, a tape-chosen
//	                   one of: fsynced content, full content, truncated, garbage
func (sn *DirSnapshot) CrashDir(name string, mode int, t *Tape, stats map[string]int) *Dir {
	nd := NewDir(name)
	content := func(f DirFile) []byte {
		switch mode {
		case CrashKeepAll:
			return append([]byte{}, f.Data...)
		case CrashLoseAll:
			if f.Synced {
				return append([]byte{}, f.Durable...)
			}
			if len(f.Data) > 0 {
				stats["fault_crash_unsynced_file_lost"]++
			}
			return []byte{}
		}
		if f.Synced && string(f.Durable) == string(f.Data) {
			return append([]byte{}, f.Data...)
		}
		switch t.Choose(4) {
		case 0:
			return append([]byte{}, f.Durable...)
		case 1:
			return append([]byte{}, f.Data...)
		case 2:
			stats["fault_crash_file_truncated"]++
			if len(f.Data) == 0 {
				return []byte{}
			}
			return append([]byte{}, f.Data[:t.Choose(len(f.Data))]...)
		default:
			stats["fault_crash_file_garbage"]++
			g := append([]byte{}, f.Data...)
			for i := range g {
				g[i] ^= byte(0x55 + i)
			}
			return g
		}
	}
	if mode == CrashKeepAll {
		for k, v := range sn.Entries {
			c := content(v)
			nd.entries[k] = &DirFile{Data: c, Durable: append([]byte{}, c...), Synced: true}
		}
	} else {
		ns := map[string]DirFile{}
		for k, v := range sn.Durable {
			ns[k] = v
		}
		keep := 0
		if mode == CrashSubset {
			keep = t.Choose(len(sn.Journal) + 1)
		}
		if keep < len(sn.Journal) {
			stats["fault_crash_lost_dir_ops"] += len(sn.Journal) - keep
		}
		for _, op := range sn.Journal[:keep] {
			switch op.kind {
			case "create":
				ns[op.name] = sn.files[op.file]
			case "remove":
				delete(ns, op.name)
			case "rename":
				if f, ok := ns[op.name]; ok {
					delete(ns, op.name)
					ns[op.to] = f
				}
			}
		}
		keys := make([]string, 0, len(ns))
		for k := range ns {
			keys = append(keys, k)
		}
		sort.Strings(keys)
		for _, k := range keys {
			c := content(ns[k])
			nd.entries[k] = &DirFile{Data: c, Durable: append([]byte{}, c...), Synced: true}
		}
	}
	for k, v := range nd.entries {
		nd.durable[k] = v
	}
	return nd
}

// File returns the volatile content of a file (for oracles).
func (d *Dir) File(name string) ([]byte, bool) {
	f, ok := d.entries[name]
	if !ok {
		return nil, false
	}
	return f.Data, true
}

// DurableFile returns the content a power loss right now would leave for
// name under the "everything volatile lost" model.
func (d *Dir) DurableFile(name string) ([]byte, bool) {
	f, ok := d.durable[name]
	if !ok {
		return nil, false
	}
	if !f.Synced {
		return []byte{}, true
	}
	return f.Durable, true
}

// ---- unused parts of filesystem.Directory ----

func unused(what string) string {
	return fmt.Sprintf("simdir: %s is not used by the code under test", what)
}

func (d *Dir) EnterDirectory(name path.Component) (filesystem.DirectoryCloser, error) {
	panic(unused("EnterDirectory"))
}
func (d *Dir) OpenReadWrite(name path.Component, creationMode filesystem.CreationMode) (filesystem.FileReadWriter, error) {
	panic(unused("OpenReadWrite"))
}
func (d *Dir) OpenWrite(name path.Component, creationMode filesystem.CreationMode) (filesystem.FileWriter, error) {
	panic(unused("OpenWrite"))
}
func (d *Dir) Link(oldName path.Component, newDirectory filesystem.Directory, newName path.Component) error {
	panic(unused("Link"))
}
func (d *Dir) Clonefile(oldName path.Component, newDirectory filesystem.Directory, newName path.Component) error {
	panic(unused("Clonefile"))
}
func (d *Dir) Lstat(name path.Component) (filesystem.FileInfo, error) { panic(unused("Lstat")) }
func (d *Dir) Mkdir(name path.Component, perm os.FileMode) error       { panic(unused("Mkdir")) }
func (d *Dir) Mknod(name path.Component, perm os.FileMode, deviceNumber filesystem.DeviceNumber) error {
	panic(unused("Mknod"))
}
func (d *Dir) ReadDir() ([]filesystem.FileInfo, error)               { panic(unused("ReadDir")) }
func (d *Dir) Readlink(name path.Component) (path.Parser, error)     { panic(unused("Readlink")) }
func (d *Dir) RemoveAll(name path.Component) error                   { panic(unused("RemoveAll")) }
func (d *Dir) RemoveAllChildren() error                              { panic(unused("RemoveAllChildren")) }
func (d *Dir) Symlink(oldName path.Parser, newName path.Component) error { panic(unused("Symlink")) }
func (d *Dir) Chtimes(name path.Component, atime, mtime time.Time) error {
	panic(unused("Chtimes"))
}
func (d *Dir) IsWritable() (bool, error)                               { panic(unused("IsWritable")) }
func (d *Dir) IsWritableChild(name path.Component) (bool, error)       { panic(unused("IsWritableChild")) }
func (d *Dir) Apply(arg interface{}) error                             { panic(unused("Apply")) }
func (d *Dir) Mount(mountpoint path.Component, source, fstype string) error { panic(unused("Mount")) }
func (d *Dir) Unmount(mountpoint path.Component) error                 { panic(unused("Unmount")) }
