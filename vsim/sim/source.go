package sim

import (
	"fmt"
	"io"

	rt "verifsimrt"
)

// SrcScript describes how a simulated upload/download source behaves.
type SrcScript struct {
	Data   []byte // bytes the source delivers (may differ from what the digest states)
	Cuts   []int  // ascending split points in (0,len(Data))
	Empty  []int  // chunk indices before which an empty chunk is delivered (chunk reader) / zero-length read (reader)
	ErrAt  int    // index of the Read call that fails; -1 = never
	Err    error  // the error returned at ErrAt
	EOFMix bool   // reader: the final data read returns (n, io.EOF) instead of (n, nil) followed by (0, io.EOF)
	// ErrWithData: reader: the failing Read hands out the next bytes together
	// with the error (n > 0, err), which io.Reader permits
	ErrWithData bool
}

// SrcStats observes a source.
type SrcStats struct {
	Reads     int
	Closes    int
	Delivered int // bytes handed out
	ReadAfterClose int
	ErrFired  bool
	Name      string
	// OnClose, if set, is called when the consumer closes the source
	OnClose func()
}

// Chunks returns the sequence of chunks the script delivers.
func (s *SrcScript) Chunks() [][]byte { return s.chunks() }

func (s *SrcScript) chunks() [][]byte {
	var out [][]byte
	prev := 0
	emptyBefore := map[int]bool{}
	for _, e := range s.Empty {
		emptyBefore[e] = true
	}
	idx := 0
	add := func(b []byte) {
		if emptyBefore[idx] {
			out = append(out, []byte{})
		}
		out = append(out, b)
		idx++
	}
	for _, c := range s.Cuts {
		if c <= prev || c >= len(s.Data) {
			continue
		}
		add(s.Data[prev:c])
		prev = c
	}
	if prev < len(s.Data) {
		add(s.Data[prev:])
	}
	if emptyBefore[idx] {
		out = append(out, []byte{})
	}
	return out
}

// ChunkSource implements buffer.ChunkReader.
type ChunkSource struct {
	St     *SrcStats
	chunks [][]byte
	i      int
	script *SrcScript
	closed bool
}

func NewChunkSource(name string, sc *SrcScript) *ChunkSource {
	return &ChunkSource{St: &SrcStats{Name: name}, chunks: sc.chunks(), script: sc}
}

func (c *ChunkSource) Read() ([]byte, error) {
	rt.Yield("src.Read(" + c.St.Name + ")")
	if c.closed {
		c.St.ReadAfterClose++
		return nil, fmt.Errorf("simsource %s: read after close", c.St.Name)
	}
	n := c.St.Reads
	c.St.Reads++
	if c.script.ErrAt >= 0 && n == c.script.ErrAt {
		c.St.ErrFired = true
		return nil, c.script.Err
	}
	if c.i >= len(c.chunks) {
		return nil, io.EOF
	}
	ch := c.chunks[c.i]
	c.i++
	c.St.Delivered += len(ch)
	// hand out a copy: consumers may keep the slice
	return append([]byte{}, ch...), nil
}

func (c *ChunkSource) Close() {
	rt.Yield("src.Close(" + c.St.Name + ")")
	c.closed = true
	c.St.Closes++
	if c.St.OnClose != nil {
		c.St.OnClose()
	}
}

// ReaderSource implements io.ReadCloser with short reads at chunk boundaries.
type ReaderSource struct {
	St     *SrcStats
	chunks [][]byte
	i      int
	off    int
	script *SrcScript
	closed bool
}

func NewReaderSource(name string, sc *SrcScript) *ReaderSource {
	return &ReaderSource{St: &SrcStats{Name: name}, chunks: sc.chunks(), script: sc}
}

func (r *ReaderSource) Read(p []byte) (int, error) {
	rt.Yield("src.Read(" + r.St.Name + ")")
	if r.closed {
		r.St.ReadAfterClose++
		return 0, fmt.Errorf("simsource %s: read after close", r.St.Name)
	}
	n := r.St.Reads
	r.St.Reads++
	failing := r.script.ErrAt >= 0 && n == r.script.ErrAt
	if failing {
		r.St.ErrFired = true
		if !r.script.ErrWithData {
			return 0, r.script.Err
		}
	}
	for r.i < len(r.chunks) && r.off >= len(r.chunks[r.i]) && len(r.chunks[r.i]) > 0 {
		r.i++
		r.off = 0
	}
	if r.i >= len(r.chunks) {
		if failing {
			return 0, r.script.Err
		}
		return 0, io.EOF
	}
	ch := r.chunks[r.i]
	if len(ch) == 0 {
		// zero-length read without error
		r.i++
		r.off = 0
		if failing {
			return 0, r.script.Err
		}
		return 0, nil
	}
	k := copy(p, ch[r.off:])
	r.off += k
	r.St.Delivered += k
	last := r.off >= len(ch) && r.i == len(r.chunks)-1
	if r.off >= len(ch) {
		r.i++
		r.off = 0
	}
	if failing {
		return k, r.script.Err
	}
	if last && r.script.EOFMix && k > 0 {
		return k, io.EOF
	}
	return k, nil
}

func (r *ReaderSource) Close() error {
	rt.Yield("src.Close(" + r.St.Name + ")")
	r.closed = true
	r.St.Closes++
	if r.St.OnClose != nil {
		r.St.OnClose()
	}
	return nil
}

// DrawCuts draws 0..max split points for n bytes from the tape.
func DrawCuts(t *Tape, n, max int) []int {
	if n <= 1 {
		return nil
	}
	k := t.Choose(max + 1)
	seen := map[int]bool{}
	var cuts []int
	for i := 0; i < k; i++ {
		c := 1 + t.Choose(n-1)
		if !seen[c] {
			seen[c] = true
			cuts = append(cuts, c)
		}
	}
	// sort
	for i := 1; i < len(cuts); i++ {
		for j := i; j > 0 && cuts[j-1] > cuts[j]; j-- {
			cuts[j-1], cuts[j] = cuts[j], cuts[j-1]
		}
	}
	return cuts
}
