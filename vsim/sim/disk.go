package sim

import (
	"time"
	"fmt"
	"io"

	rt "verifsimrt"

	"google.golang.org/grpc/codes"
	"google.golang.org/grpc/status"
)

// DiskWrite is one WriteAt recorded in the volatile log.
type DiskWrite struct {
	Seq  int
	Off  int64
	Data []byte
	Step int
}

// DiskFaults are per-run fault parameters (probabilities are n/1000 per call).
type DiskFaults struct {
	WriteErr   int
	ReadErr    int
	SyncErr    int
	ShortWrite int
	T          *Tape // fault tape
}

// Disk is a simulated block device: a visible image, a durable image and
// the log of writes issued since the last completed Sync.
type Disk struct {
	Name       string
	SectorSize int
	visible    []byte
	durable    []byte
	log        []DiskWrite
	seq        int
	Dead       bool // the owning process was killed: every call is inert
	Faults     *DiskFaults
	NoYield    bool

	// Observation
	Writes, Reads, Syncs      int
	WriteErrs, ReadErrs       int
	SyncErrs, ShortWrites     int
	BytesWritten              int64
	SyncsStarted, SyncsDone   int
	Stats                     map[string]int
	Wipes                     int
	OnWrite                   func(off int64, old, new []byte) // monitor hook (called with the baton held)
	OnSyncStart, OnSyncDone   func()
	// SyncDelay, if set, is how long the Sync call that is starting takes on
	// the simulated clock (a slow device)
	SyncDelay func() time.Duration
	FailNextWrites            int // harness-forced persistent write failures
	FailNextSyncs             int
	Closed                    bool
}

// NewDisk creates a zero-filled device.
func NewDisk(name string, sectorSize int, sectors int64) *Disk {
	n := int64(sectorSize) * sectors
	return &Disk{Name: name, SectorSize: sectorSize, visible: make([]byte, n), durable: make([]byte, n)}
}

// NewDiskFromImage creates a device whose visible and durable content is img.
func NewDiskFromImage(name string, sectorSize int, img []byte) *Disk {
	return &Disk{Name: name, SectorSize: sectorSize, visible: append([]byte{}, img...), durable: append([]byte{}, img...)}
}

func (d *Disk) Size() int64 { return int64(len(d.visible)) }

var errDiskIO = status.Error(codes.Internal, "simdisk: injected I/O error")

func (d *Disk) yield(what string) {
	if !d.NoYield {
		rt.Yield(what)
	}
}

func (d *Disk) ReadAt(p []byte, off int64) (int, error) {
	if d.Dead {
		return 0, errDiskIO
	}
	d.yield("disk." + d.Name + ".ReadAt")
	if d.Dead {
		return 0, errDiskIO
	}
	d.Reads++
	if off < 0 || off > int64(len(d.visible)) {
		return 0, fmt.Errorf("simdisk %s: read at %d out of range", d.Name, off)
	}
	if f := d.Faults; f != nil && f.ReadErr > 0 && f.T.Chance(f.ReadErr, 1000) {
		d.ReadErrs++
		return 0, errDiskIO
	}
	n := copy(p, d.visible[off:])
	d.completion("ReadAt")
	if n < len(p) {
		return n, io.EOF
	}
	return n, nil
}

// completion is a second scheduling point of a device call, after the
// transfer, in the fine-grained runs (those that also treat atomic
// operations as scheduling points, seam S5): what a caller does with the
// buffer after the call returned is not atomic with the transfer itself.
func (d *Disk) completion(call string) {
	if d.NoYield {
		return
	}
	if s := rt.Active(); s != nil && s.AtomicYields {
		rt.Yield("disk." + d.Name + "." + call + ".done")
	}
}

func (d *Disk) WriteAt(p []byte, off int64) (int, error) {
	if d.Dead {
		return 0, errDiskIO
	}
	if s := rt.Active(); s != nil && s.AtomicYields && !d.NoYield {
		// fine-grained runs: the device captures the caller's buffer when the
		// request is submitted, the transfer takes effect later (a device may do
		// either; callers must not change a buffer they have handed to a write)
		p = append([]byte{}, p...)
	}
	d.yield("disk." + d.Name + ".WriteAt")
	if d.Dead {
		return 0, errDiskIO
	}
	d.Writes++
	if off < 0 || off+int64(len(p)) > int64(len(d.visible)) {
		return 0, fmt.Errorf("simdisk %s: write [%d,%d) out of range (size %d)", d.Name, off, off+int64(len(p)), len(d.visible))
	}
	if d.FailNextWrites > 0 {
		d.FailNextWrites--
		d.WriteErrs++
		return 0, errDiskIO
	}
	n := len(p)
	var err error
	if f := d.Faults; f != nil {
		if f.WriteErr > 0 && f.T.Chance(f.WriteErr, 1000) {
			d.WriteErrs++
			return 0, errDiskIO
		}
		if f.ShortWrite > 0 && len(p) > d.SectorSize && f.T.Chance(f.ShortWrite, 1000) {
			// a whole number of sectors is written, then an error
			secs := len(p) / d.SectorSize
			n = f.T.Choose(secs) * d.SectorSize
			err = errDiskIO
			d.ShortWrites++
		}
	}
	if n > 0 {
		if d.OnWrite != nil {
			d.OnWrite(off, d.visible[off:off+int64(n)], p[:n])
		}
		copy(d.visible[off:], p[:n])
		d.seq++
		step := 0
		if s := rt.Active(); s != nil {
			step = s.Steps
		}
		d.log = append(d.log, DiskWrite{Seq: d.seq, Off: off, Data: append([]byte{}, p[:n]...), Step: step})
		d.BytesWritten += int64(n)
	}
	return n, err
}

// Sync makes durable every write issued before Sync was called.
func (d *Disk) Sync() error {
	if d.Dead {
		return errDiskIO
	}
	upto := d.seq
	d.SyncsStarted++
	if d.OnSyncStart != nil {
		d.OnSyncStart()
	}
	d.yield("disk." + d.Name + ".Sync")
	if d.SyncDelay != nil && !d.Dead {
		if dl := d.SyncDelay(); dl > 0 {
			rt.Sleep(dl)
		}
	}
	if d.Dead {
		return errDiskIO
	}
	d.Syncs++
	if d.FailNextSyncs > 0 {
		d.FailNextSyncs--
		d.SyncErrs++
		return errDiskIO
	}
	if f := d.Faults; f != nil && f.SyncErr > 0 && f.T.Chance(f.SyncErr, 1000) {
		d.SyncErrs++
		return errDiskIO
	}
	j := 0
	for _, w := range d.log {
		if w.Seq <= upto {
			copy(d.durable[w.Off:], w.Data)
		} else {
			d.log[j] = w
			j++
		}
	}
	d.log = d.log[:j]
	d.SyncsDone++
	if d.OnSyncDone != nil {
		d.OnSyncDone()
	}
	return nil
}

func (d *Disk) Close() error { d.Closed = true; return nil }

// Wipe zero-fills the device (what opening a block device file with
// zeroInitialize does).
func (d *Disk) Wipe() {
	for i := range d.visible {
		d.visible[i] = 0
	}
	for i := range d.durable {
		d.durable[i] = 0
	}
	d.log = nil
	d.Wipes++
}

// Visible returns the visible image (not a copy).
func (d *Disk) Visible() []byte { return d.visible }

// VolatileWrites returns the number of writes not yet durable.
func (d *Disk) VolatileWrites() int { return len(d.log) }

// LogLen / Seq allow snapshotting positions.
func (d *Disk) Seq() int { return d.seq }

// Snapshot captures the state needed to build crash images later.
type DiskSnapshot struct {
	SectorSize int
	Durable    []byte
	Log        []DiskWrite
	Visible    []byte
}

func (d *Disk) Snapshot() *DiskSnapshot {
	return &DiskSnapshot{SectorSize: d.SectorSize, Durable: append([]byte{}, d.durable...), Log: append([]DiskWrite{}, d.log...), Visible: append([]byte{}, d.visible...)}
}

// Crash media modes.
const (
	CrashLoseAll = iota // only durable content survives
	CrashKeepAll        // every issued write survives (process crash)
	CrashSubset         // tape-chosen subset of volatile writes, torn at sector boundaries
	CrashSubsetAtomic   // tape-chosen subset of volatile writes, each write atomic
)

// CrashImage builds a post-crash image. For CrashSubset each volatile write
// is kept, lost, or (multi-sector) torn: an arbitrary subset of its sectors
// survives; choices come from the crash tape. Writes are applied in issue
// order.
func (sn *DiskSnapshot) CrashImage(mode int, t *Tape, stats map[string]int) []byte {
	switch mode {
	case CrashLoseAll:
		if len(sn.Log) > 0 {
			stats["fault_crash_lost_writes"] += len(sn.Log)
		}
		return append([]byte{}, sn.Durable...)
	case CrashKeepAll:
		return append([]byte{}, sn.Visible...)
	}
	img := append([]byte{}, sn.Durable...)
	if mode == CrashSubsetAtomic {
		for _, w := range sn.Log {
			if t.Choose(2) == 0 {
				copy(img[w.Off:], w.Data)
			} else {
				stats["fault_crash_lost_writes"]++
			}
		}
		return img
	}
	for _, w := range sn.Log {
		switch t.Choose(3) {
		case 0: // kept
			copy(img[w.Off:], w.Data)
		case 1: // lost
			stats["fault_crash_lost_writes"]++
		case 2: // torn (sector-atomically) when it spans several sectors
			ss := int64(sn.SectorSize)
			first := w.Off / ss
			last := (w.Off + int64(len(w.Data)) - 1) / ss
			if last == first {
				stats["fault_crash_lost_writes"]++
				break
			}
			stats["fault_crash_torn_writes"]++
			for sec := first; sec <= last; sec++ {
				if t.Choose(2) == 0 {
					continue
				}
				lo := sec * ss
				hi := lo + ss
				if lo < w.Off {
					lo = w.Off
				}
				if hi > w.Off+int64(len(w.Data)) {
					hi = w.Off + int64(len(w.Data))
				}
				copy(img[lo:hi], w.Data[lo-w.Off:hi-w.Off])
			}
		}
	}
	return img
}

// Corrupt flips bytes of both images (medium corruption, C08 only).
func (d *Disk) Corrupt(off int64, xor byte) {
	d.visible[off] ^= xor
	d.durable[off] ^= xor
}
