// vsim is the simulator binary: "vsim run …" is one worker of a batch,
// "vsim replay FILE" re-executes a replay file.
package main

import (
	"encoding/json"
	"io"
	"log"
	"flag"
	"fmt"
	"os"
	"runtime"
	"time"

	_ "vsim/harness"
	"vsim/sim"
)

func main() {
	log.SetOutput(io.Discard) // the code under test logs through the standard logger
	if len(os.Args) < 2 {
		fmt.Fprintln(os.Stderr, "usage: vsim run|replay|list …")
		os.Exit(2)
	}
	switch os.Args[1] {
	case "run":
		fs := flag.NewFlagSet("run", flag.ExitOnError)
		var o sim.BatchOpts
		fs.StringVar(&o.Prop, "prop", "", "property id")
		fs.StringVar(&o.Tier, "tier", "quick", "quick|thorough")
		fs.Uint64Var(&o.Seed, "seed", 1, "batch seed (VERIF_SEED)")
		fs.IntVar(&o.Worker, "worker", 0, "worker index")
		fs.IntVar(&o.Workers, "workers", 1, "number of workers")
		fs.Float64Var(&o.Seconds, "seconds", 30, "wall-clock budget")
		fs.IntVar(&o.MaxRuns, "maxruns", 0, "cap on the run index (0 = none)")
		fs.StringVar(&o.OutDir, "out", "", "directory for worker result files")
		fs.StringVar(&o.ReplayDir, "replays", "/verif/replays", "directory for replay files")
		fs.StringVar(&o.KnownPath, "known", "/verif/known_findings.json", "known findings file")
		procs := fs.Int("procs", 1, "GOMAXPROCS")
		runWall := fs.Duration("runwall", 120*time.Second, "watchdog per run")
		dump := fs.String("dumphashes", "", "write one line per run (index, seed, hash) to this file")
		fs.Parse(os.Args[2:])
		runtime.GOMAXPROCS(*procs)
		o.RunWall = *runWall
		if *dump != "" {
			f, err := os.Create(*dump)
			if err == nil {
				defer f.Close()
				o.DumpHashes = f
			}
		}
		sim.ExecWall = *runWall
		os.Exit(sim.RunBatch(o))
	case "replay":
		if len(os.Args) < 3 {
			fmt.Fprintln(os.Stderr, "usage: vsim replay FILE")
			os.Exit(2)
		}
		sim.ExecWall = 300 * time.Second
		os.Exit(sim.Replay(os.Args[2]))
	case "one":
		fs := flag.NewFlagSet("one", flag.ExitOnError)
		prop := fs.String("prop", "", "property")
		seed := fs.Uint64("runseed", 0, "run seed")
		tier := fs.String("tier", "quick", "tier")
		fs.Parse(os.Args[2:])
		os.Exit(sim.RunOne(*prop, *seed, *tier))
	case "info":
		ch := sim.Registry[os.Args[2]]
		if ch == nil {
			os.Exit(2)
		}
		data, _ := json.Marshal(map[string]interface{}{
			"level": ch.Level, "rule": ch.Rule, "components": ch.Components,
			"required_probes": ch.RequiredProbes, "assumptions": ch.Assumptions,
		})
		fmt.Println(string(data))
	case "list":
		for k := range sim.Registry {
			fmt.Println(k)
		}
	default:
		fmt.Fprintln(os.Stderr, "unknown command")
		os.Exit(2)
	}
}
