package verifsimrt

import (
	"cmp"
	"reflect"
	"slices"
	"unsafe"
)

// hchanHead mirrors the leading fields of runtime.hchan (go1.26). Only
// "closed" is read; the layout is validated by selfTest at init.
type hchanHead struct {
	qcount   uint
	dataqsiz uint
	buf      unsafe.Pointer
	elemsize uint16
	closed   uint32
}

func chanPtr[T any](c <-chan T) unsafe.Pointer {
	return *(*unsafe.Pointer)(unsafe.Pointer(&c))
}

func ptrClosed(p unsafe.Pointer) bool {
	if p == nil {
		return false
	}
	return (*hchanHead)(p).closed != 0
}

func ptrLen(p unsafe.Pointer) int {
	if p == nil {
		return 0
	}
	return int((*hchanHead)(p).qcount)
}

func ptrCap(p unsafe.Pointer) int {
	if p == nil {
		return 0
	}
	return int((*hchanHead)(p).dataqsiz)
}

func init() {
	// Validate the layout assumption; a mismatch must be loud.
	c := make(chan int, 3)
	p := chanPtr((<-chan int)(c))
	if ptrClosed(p) || ptrLen(p) != 0 || ptrCap(p) != 3 {
		panic("verifsimrt: runtime.hchan layout mismatch (open)")
	}
	c <- 1
	c <- 2
	if ptrLen(p) != 2 {
		panic("verifsimrt: runtime.hchan layout mismatch (len)")
	}
	close(c)
	if !ptrClosed(p) {
		panic("verifsimrt: runtime.hchan layout mismatch (closed)")
	}
	u := make(chan struct{})
	pu := chanPtr((<-chan struct{})(u))
	if ptrClosed(pu) || ptrCap(pu) != 0 {
		panic("verifsimrt: runtime.hchan layout mismatch (unbuffered)")
	}
	close(u)
	if !ptrClosed(pu) {
		panic("verifsimrt: runtime.hchan layout mismatch (unbuffered closed)")
	}
}

func recvReadyPtr(p unsafe.Pointer) bool { return ptrLen(p) > 0 || ptrClosed(p) }

// Recv is substituted for "<-c".
func Recv[T any](c <-chan T) T {
	if s := active.Load(); s != nil {
		p := chanPtr(c)
		if inert(s) {
			s.park("", nil)
			if !recvReadyPtr(p) {
				panic(killedSentinel{})
			}
		} else {
			s.park("Recv(ch)", func() bool { return recvReadyPtr(p) })
		}
	}
	return <-c
}

// Recv2 is substituted for "v, ok := <-c".
func Recv2[T any](c <-chan T) (T, bool) {
	if s := active.Load(); s != nil {
		p := chanPtr(c)
		if inert(s) {
			s.park("", nil)
			if !recvReadyPtr(p) {
				panic(killedSentinel{})
			}
		} else {
			s.park("Recv(ch)", func() bool { return recvReadyPtr(p) })
		}
	}
	v, ok := <-c
	return v, ok
}

// Send is substituted for "c <- v". Only buffered channels are supported
// under simulation (the code in scope never sends on unbuffered ones).
func Send[T any](c chan<- T, v T) {
	if s := active.Load(); s != nil && !inert(s) {
		p := *(*unsafe.Pointer)(unsafe.Pointer(&c))
		if ptrCap(p) == 0 {
			panic("verifsimrt: send on unbuffered channel is not supported under simulation")
		}
		if ptrLen(p) >= ptrCap(p) {
			s.park("Send(ch)", func() bool { return ptrLen(p) < ptrCap(p) || ptrClosed(p) })
		}
	}
	c <- v
}

// WaitSelect is inserted in front of a select statement without default
// whose cases are all receives: it parks until one of the channels is ready
// and returns the index (into chans) of the case that is to be taken. When
// several are ready the choice is drawn from the picker, because the Go
// runtime would choose at random. The transformed select masks the other
// cases with Only(). Without simulation it returns -2 (no masking).
func WaitSelect(chans ...interface{}) int {
	s := active.Load()
	if s == nil {
		return -2
	}
	ptrs := make([]unsafe.Pointer, len(chans))
	for i, c := range chans {
		if c == nil {
			continue
		}
		v := reflect.ValueOf(c)
		if v.Kind() != reflect.Chan {
			panic("verifsimrt: WaitSelect on non-channel")
		}
		if v.IsNil() {
			continue
		}
		ptrs[i] = v.UnsafePointer()
	}
	anyReady := func() bool {
		for _, p := range ptrs {
			if p != nil && recvReadyPtr(p) {
				return true
			}
		}
		return false
	}
	if inert(s) {
		s.park("", nil)
		if !anyReady() {
			panic(killedSentinel{})
		}
		return -2
	}
	s.SelectWaits++
	s.park("Select("+itoa(len(ptrs))+")", anyReady)
	return s.chooseReady(ptrs)
}

func (s *Sched) chooseReady(ptrs []unsafe.Pointer) int {
	var ready []int
	for i, p := range ptrs {
		if p != nil && recvReadyPtr(p) {
			ready = append(ready, i)
		}
	}
	if len(ready) == 0 {
		return -1
	}
	if len(ready) == 1 {
		return ready[0]
	}
	s.SelectRaces++
	k := s.picker.ChooseBranch(len(ready))
	s.trace(s.cur, "select-branch "+itoa(ready[k]))
	return ready[k]
}

// PollSelect is inserted in front of a select statement with a default case:
// a scheduling point that returns the index of the ready receive case to take
// (-1: none ready, take the default; -2: no simulation, no masking).
func PollSelect(chans ...interface{}) int {
	s := active.Load()
	if s == nil || inert(s) {
		return -2
	}
	s.park("SelectDefault", nil)
	ptrs := make([]unsafe.Pointer, len(chans))
	for i, c := range chans {
		if c == nil {
			continue
		}
		v := reflect.ValueOf(c)
		if v.Kind() == reflect.Chan && !v.IsNil() {
			ptrs[i] = v.UnsafePointer()
		}
	}
	return s.chooseReady(ptrs)
}

// Only masks the receive cases that were not chosen: a nil channel is never
// ready in a select.
func Only[T any](sel, i int, c <-chan T) <-chan T {
	if sel == -2 || sel == i {
		return c
	}
	return nil
}

// SelectYield is kept for selects whose only non-default cases are sends.
func SelectYield() {
	if s := active.Load(); s != nil && !inert(s) {
		s.park("SelectDefault", nil)
	}
}

// MapKeys is substituted for ranging over a map where the code under test
// does so and the order matters to the simulation (goroutine spawn order,
// listing order): the keys in an order drawn from the picker, so that Go's
// randomised map iteration is decided by the tape. Without simulation the
// order is sorted.
func MapKeys[K cmp.Ordered, V any](m map[K]V) []K {
	keys := make([]K, 0, len(m))
	for k := range m {
		keys = append(keys, k)
	}
	slices.Sort(keys)
	if s := active.Load(); s != nil && !inert(s) && len(keys) > 1 {
		for i := len(keys) - 1; i > 0; i-- {
			j := s.picker.ChooseBranch(i + 1)
			keys[i], keys[j] = keys[j], keys[i]
		}
		s.trace(s.cur, "map-order "+itoa(len(keys)))
	}
	return keys
}
