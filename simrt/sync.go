package verifsimrt

import (
	"sync"
)

// Pass-through aliases for the non-blocking parts of package sync.
type (
	Once   = sync.Once
	Pool   = sync.Pool
	Map    = sync.Map
	Locker = sync.Locker
)

func OnceFunc(f func()) func()                          { return sync.OnceFunc(f) }
func OnceValue[T any](f func() T) func() T              { return sync.OnceValue(f) }
func OnceValues[T1, T2 any](f func() (T1, T2)) func() (T1, T2) { return sync.OnceValues(f) }

func inert(s *Sched) bool { return s.dead || s.cur.killed }

// Mutex is sync.Mutex whose Lock is a scheduling point under simulation.
type Mutex struct {
	real sync.Mutex
	held bool
	id   int
}

func (m *Mutex) name(s *Sched) string {
	if m.id == 0 {
		m.id = s.NewObjID()
	}
	return "m" + itoa(m.id)
}

func (m *Mutex) Lock() {
	s := active.Load()
	if s == nil {
		m.real.Lock()
		return
	}
	if inert(s) {
		s.park("", nil) // unwinds killed goroutines
		m.held = true
		return
	}
	if m.held {
		s.Contended++
	}
	s.park("Lock("+m.name(s)+")", func() bool { return !m.held })
	m.held = true
}

func (m *Mutex) TryLock() bool {
	s := active.Load()
	if s == nil {
		return m.real.TryLock()
	}
	if m.held {
		return false
	}
	m.held = true
	return true
}

func (m *Mutex) Unlock() {
	s := active.Load()
	if s == nil {
		m.real.Unlock()
		return
	}
	if inert(s) {
		m.held = false
		return
	}
	if !m.held {
		panic("sync: unlock of unlocked mutex")
	}
	m.held = false
}

// RWMutex is sync.RWMutex under simulation. Readers may overtake a waiting
// writer (no writer preference): a superset of the runtime's schedules for
// safety purposes.
type RWMutex struct {
	real    sync.RWMutex
	writer  bool
	readers int
	id      int
}

func (m *RWMutex) name(s *Sched) string {
	if m.id == 0 {
		m.id = s.NewObjID()
	}
	return "rw" + itoa(m.id)
}

func (m *RWMutex) Lock() {
	s := active.Load()
	if s == nil {
		m.real.Lock()
		return
	}
	if inert(s) {
		s.park("", nil)
		m.writer = true
		return
	}
	if m.writer || m.readers > 0 {
		s.Contended++
	}
	s.park("WLock("+m.name(s)+")", func() bool { return !m.writer && m.readers == 0 })
	m.writer = true
}

func (m *RWMutex) TryLock() bool {
	s := active.Load()
	if s == nil {
		return m.real.TryLock()
	}
	if m.writer || m.readers > 0 {
		return false
	}
	m.writer = true
	return true
}

func (m *RWMutex) Unlock() {
	s := active.Load()
	if s == nil {
		m.real.Unlock()
		return
	}
	if inert(s) {
		m.writer = false
		return
	}
	if !m.writer {
		panic("sync: Unlock of unlocked RWMutex")
	}
	m.writer = false
}

func (m *RWMutex) RLock() {
	s := active.Load()
	if s == nil {
		m.real.RLock()
		return
	}
	if inert(s) {
		s.park("", nil)
		m.readers++
		return
	}
	if m.writer {
		s.Contended++
	}
	s.park("RLock("+m.name(s)+")", func() bool { return !m.writer })
	m.readers++
}

func (m *RWMutex) TryRLock() bool {
	s := active.Load()
	if s == nil {
		return m.real.TryRLock()
	}
	if m.writer {
		return false
	}
	m.readers++
	return true
}

func (m *RWMutex) RUnlock() {
	s := active.Load()
	if s == nil {
		m.real.RUnlock()
		return
	}
	if inert(s) {
		if m.readers > 0 {
			m.readers--
		}
		return
	}
	if m.readers <= 0 {
		panic("sync: RUnlock of unlocked RWMutex")
	}
	m.readers--
}

type rlocker RWMutex

func (r *rlocker) Lock()   { (*RWMutex)(r).RLock() }
func (r *rlocker) Unlock() { (*RWMutex)(r).RUnlock() }

func (m *RWMutex) RLocker() Locker { return (*rlocker)(m) }

// WaitGroup is sync.WaitGroup under simulation.
type WaitGroup struct {
	real sync.WaitGroup
	n    int
	id   int
}

func (wg *WaitGroup) Add(delta int) {
	s := active.Load()
	if s == nil {
		wg.real.Add(delta)
		return
	}
	wg.n += delta
	if wg.n < 0 && !inert(s) {
		panic("sync: negative WaitGroup counter")
	}
}

func (wg *WaitGroup) Done() { wg.Add(-1) }

func (wg *WaitGroup) Go(f func()) {
	wg.Add(1)
	Go(func() {
		defer wg.Done()
		f()
	})
}

func (wg *WaitGroup) Wait() {
	s := active.Load()
	if s == nil {
		wg.real.Wait()
		return
	}
	if inert(s) {
		s.park("", nil)
		return
	}
	if wg.id == 0 {
		wg.id = s.NewObjID()
	}
	s.park("WaitGroup.Wait(wg"+itoa(wg.id)+")", func() bool { return wg.n <= 0 })
}

// Cond is sync.Cond under simulation.
type Cond struct {
	L       Locker
	real    *sync.Cond
	once    sync.Once
	waiters []*condWaiter
}

type condWaiter struct{ signaled bool }

func NewCond(l Locker) *Cond { return &Cond{L: l} }

func (c *Cond) realCond() *sync.Cond {
	c.once.Do(func() { c.real = sync.NewCond(c.L) })
	return c.real
}

func (c *Cond) Wait() {
	s := active.Load()
	if s == nil {
		c.realCond().Wait()
		return
	}
	w := &condWaiter{}
	c.waiters = append(c.waiters, w)
	c.L.Unlock()
	s.park("Cond.Wait", func() bool { return w.signaled })
	c.L.Lock()
}

func (c *Cond) Signal() {
	s := active.Load()
	if s == nil {
		c.realCond().Signal()
		return
	}
	if len(c.waiters) > 0 {
		c.waiters[0].signaled = true
		c.waiters = c.waiters[1:]
	}
}

func (c *Cond) Broadcast() {
	s := active.Load()
	if s == nil {
		c.realCond().Broadcast()
		return
	}
	for _, w := range c.waiters {
		w.signaled = true
	}
	c.waiters = nil
}
