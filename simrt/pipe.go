package verifsimrt

import (
	"io"
	"time"
)

// Pipe is substituted for io.Pipe in the code under test where a goroutine
// feeds a reader through a pipe (grpcclients' zstd read path): a synchronous
// in-memory pipe with io.Pipe's semantics whose blocking points are
// scheduling points. Without an active simulation it is io.Pipe itself.

type simPipe struct {
	buf      []byte // data of the write in progress that has not been read yet
	writing  bool
	rclosed  bool
	wclosed  bool
	rerr     error // error given to CloseWithError on the read side (seen by writers)
	werr     error // error given to CloseWithError on the write side (seen by readers)
}

type PipeReader struct {
	real *io.PipeReader
	p    *simPipe
}

type PipeWriter struct {
	real *io.PipeWriter
	p    *simPipe
}

func Pipe() (*PipeReader, *PipeWriter) {
	if s := active.Load(); s == nil {
		r, w := io.Pipe()
		return &PipeReader{real: r}, &PipeWriter{real: w}
	}
	p := &simPipe{}
	return &PipeReader{p: p}, &PipeWriter{p: p}
}

func pipeWait(desc string, pred func() bool) {
	s := active.Load()
	if s == nil {
		if !pred() {
			panic("verifsimrt: simulated pipe used after the simulation ended")
		}
		return
	}
	if inert(s) {
		s.park("", nil)
		if !pred() {
			panic(killedSentinel{})
		}
		return
	}
	s.park(desc, pred)
}

func (r *PipeReader) Read(b []byte) (int, error) {
	if r.real != nil {
		return r.real.Read(b)
	}
	p := r.p
	pipeWait("PipeRead", func() bool { return len(p.buf) > 0 || p.wclosed || p.rclosed })
	if p.rclosed {
		return 0, io.ErrClosedPipe
	}
	if len(p.buf) > 0 {
		n := copy(b, p.buf)
		p.buf = p.buf[n:]
		return n, nil
	}
	if p.werr != nil {
		return 0, p.werr
	}
	return 0, io.EOF
}

func (r *PipeReader) Close() error { return r.CloseWithError(nil) }

func (r *PipeReader) CloseWithError(err error) error {
	if r.real != nil {
		return r.real.CloseWithError(err)
	}
	if !r.p.rclosed {
		r.p.rclosed = true
		if err == nil {
			err = io.ErrClosedPipe
		}
		r.p.rerr = err
	}
	return nil
}

func (w *PipeWriter) Write(b []byte) (int, error) {
	if w.real != nil {
		return w.real.Write(b)
	}
	p := w.p
	// one write at a time
	pipeWait("PipeWrite(turn)", func() bool { return !p.writing || p.rclosed || p.wclosed })
	if p.wclosed {
		return 0, io.ErrClosedPipe
	}
	if p.rclosed {
		return 0, p.rerr
	}
	total := len(b)
	if total == 0 {
		return 0, nil
	}
	p.writing = true
	p.buf = b
	pipeWait("PipeWrite", func() bool { return len(p.buf) == 0 || p.rclosed || p.wclosed })
	n := total - len(p.buf)
	p.buf = nil
	p.writing = false
	if n < total {
		if p.rclosed {
			return n, p.rerr
		}
		return n, io.ErrClosedPipe
	}
	return n, nil
}

func (w *PipeWriter) Close() error { return w.CloseWithError(nil) }

func (w *PipeWriter) CloseWithError(err error) error {
	if w.real != nil {
		return w.real.CloseWithError(err)
	}
	if !w.p.wclosed {
		w.p.wclosed = true
		w.p.werr = err
	}
	return nil
}

// Sleep is substituted for time.Sleep (seam S8): it sleeps on the simulated
// clock. Without an active simulation it is time.Sleep itself.
func Sleep(d time.Duration) {
	s := active.Load()
	if s == nil {
		time.Sleep(d)
		return
	}
	if inert(s) {
		s.park("", nil)
		panic(killedSentinel{})
	}
	fired := false
	s.AfterFunc(d, 0, func(time.Duration) { fired = true })
	s.park("Sleep", func() bool { return fired })
}
