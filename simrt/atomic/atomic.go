// Package atomic is seam S5: sync/atomic for the rewritten packages. Every
// operation is preceded by a scheduling point when the running simulation asks
// for it (Sched.AtomicYields), so that the interleavings of lock-free code
// (compare-and-swap loops, use counters) are part of the explored space.
// Without a simulation, or with the flag off, it is sync/atomic itself.
package atomic

import (
	"sync/atomic"
	"unsafe"

	rt "verifsimrt"
)

func point() { rt.AtomicPoint() }

type Int32 struct{ v atomic.Int32 }

func (x *Int32) Load() int32           { point(); return x.v.Load() }
func (x *Int32) Store(val int32)       { point(); x.v.Store(val) }
func (x *Int32) Swap(new int32) int32  { point(); return x.v.Swap(new) }
func (x *Int32) Add(delta int32) int32 { point(); return x.v.Add(delta) }
func (x *Int32) And(mask int32) int32  { point(); return x.v.And(mask) }
func (x *Int32) Or(mask int32) int32   { point(); return x.v.Or(mask) }
func (x *Int32) CompareAndSwap(old, new int32) bool {
	point()
	return x.v.CompareAndSwap(old, new)
}

type Int64 struct{ v atomic.Int64 }

func (x *Int64) Load() int64           { point(); return x.v.Load() }
func (x *Int64) Store(val int64)       { point(); x.v.Store(val) }
func (x *Int64) Swap(new int64) int64  { point(); return x.v.Swap(new) }
func (x *Int64) Add(delta int64) int64 { point(); return x.v.Add(delta) }
func (x *Int64) And(mask int64) int64  { point(); return x.v.And(mask) }
func (x *Int64) Or(mask int64) int64   { point(); return x.v.Or(mask) }
func (x *Int64) CompareAndSwap(old, new int64) bool {
	point()
	return x.v.CompareAndSwap(old, new)
}

type Uint32 struct{ v atomic.Uint32 }

func (x *Uint32) Load() uint32            { point(); return x.v.Load() }
func (x *Uint32) Store(val uint32)        { point(); x.v.Store(val) }
func (x *Uint32) Swap(new uint32) uint32  { point(); return x.v.Swap(new) }
func (x *Uint32) Add(delta uint32) uint32 { point(); return x.v.Add(delta) }
func (x *Uint32) And(mask uint32) uint32  { point(); return x.v.And(mask) }
func (x *Uint32) Or(mask uint32) uint32   { point(); return x.v.Or(mask) }
func (x *Uint32) CompareAndSwap(old, new uint32) bool {
	point()
	return x.v.CompareAndSwap(old, new)
}

type Uint64 struct{ v atomic.Uint64 }

func (x *Uint64) Load() uint64            { point(); return x.v.Load() }
func (x *Uint64) Store(val uint64)        { point(); x.v.Store(val) }
func (x *Uint64) Swap(new uint64) uint64  { point(); return x.v.Swap(new) }
func (x *Uint64) Add(delta uint64) uint64 { point(); return x.v.Add(delta) }
func (x *Uint64) And(mask uint64) uint64  { point(); return x.v.And(mask) }
func (x *Uint64) Or(mask uint64) uint64   { point(); return x.v.Or(mask) }
func (x *Uint64) CompareAndSwap(old, new uint64) bool {
	point()
	return x.v.CompareAndSwap(old, new)
}

type Uintptr struct{ v atomic.Uintptr }

func (x *Uintptr) Load() uintptr             { point(); return x.v.Load() }
func (x *Uintptr) Store(val uintptr)         { point(); x.v.Store(val) }
func (x *Uintptr) Swap(new uintptr) uintptr  { point(); return x.v.Swap(new) }
func (x *Uintptr) Add(delta uintptr) uintptr { point(); return x.v.Add(delta) }
func (x *Uintptr) CompareAndSwap(old, new uintptr) bool {
	point()
	return x.v.CompareAndSwap(old, new)
}

type Bool struct{ v atomic.Bool }

func (x *Bool) Load() bool         { point(); return x.v.Load() }
func (x *Bool) Store(val bool)     { point(); x.v.Store(val) }
func (x *Bool) Swap(new bool) bool { point(); return x.v.Swap(new) }
func (x *Bool) CompareAndSwap(old, new bool) bool {
	point()
	return x.v.CompareAndSwap(old, new)
}

type Pointer[T any] struct{ v atomic.Pointer[T] }

func (x *Pointer[T]) Load() *T       { point(); return x.v.Load() }
func (x *Pointer[T]) Store(val *T)   { point(); x.v.Store(val) }
func (x *Pointer[T]) Swap(new *T) *T { point(); return x.v.Swap(new) }
func (x *Pointer[T]) CompareAndSwap(old, new *T) bool {
	point()
	return x.v.CompareAndSwap(old, new)
}

type Value struct{ v atomic.Value }

func (x *Value) Load() any        { point(); return x.v.Load() }
func (x *Value) Store(val any)    { point(); x.v.Store(val) }
func (x *Value) Swap(new any) any { point(); return x.v.Swap(new) }
func (x *Value) CompareAndSwap(old, new any) bool {
	point()
	return x.v.CompareAndSwap(old, new)
}

// The function forms.
func AddInt32(addr *int32, delta int32) int32               { point(); return atomic.AddInt32(addr, delta) }
func AddInt64(addr *int64, delta int64) int64               { point(); return atomic.AddInt64(addr, delta) }
func AddUint32(addr *uint32, delta uint32) uint32           { point(); return atomic.AddUint32(addr, delta) }
func AddUint64(addr *uint64, delta uint64) uint64           { point(); return atomic.AddUint64(addr, delta) }
func LoadInt32(addr *int32) int32                           { point(); return atomic.LoadInt32(addr) }
func LoadInt64(addr *int64) int64                           { point(); return atomic.LoadInt64(addr) }
func LoadUint32(addr *uint32) uint32                        { point(); return atomic.LoadUint32(addr) }
func LoadUint64(addr *uint64) uint64                        { point(); return atomic.LoadUint64(addr) }
func LoadPointer(addr *unsafe.Pointer) unsafe.Pointer       { point(); return atomic.LoadPointer(addr) }
func StoreInt32(addr *int32, val int32)                     { point(); atomic.StoreInt32(addr, val) }
func StoreInt64(addr *int64, val int64)                     { point(); atomic.StoreInt64(addr, val) }
func StoreUint32(addr *uint32, val uint32)                  { point(); atomic.StoreUint32(addr, val) }
func StoreUint64(addr *uint64, val uint64)                  { point(); atomic.StoreUint64(addr, val) }
func StorePointer(addr *unsafe.Pointer, val unsafe.Pointer) { point(); atomic.StorePointer(addr, val) }
func SwapInt32(addr *int32, new int32) int32                { point(); return atomic.SwapInt32(addr, new) }
func SwapInt64(addr *int64, new int64) int64                { point(); return atomic.SwapInt64(addr, new) }
func SwapUint32(addr *uint32, new uint32) uint32            { point(); return atomic.SwapUint32(addr, new) }
func SwapUint64(addr *uint64, new uint64) uint64            { point(); return atomic.SwapUint64(addr, new) }
func CompareAndSwapInt32(addr *int32, old, new int32) bool {
	point()
	return atomic.CompareAndSwapInt32(addr, old, new)
}
func CompareAndSwapInt64(addr *int64, old, new int64) bool {
	point()
	return atomic.CompareAndSwapInt64(addr, old, new)
}
func CompareAndSwapUint32(addr *uint32, old, new uint32) bool {
	point()
	return atomic.CompareAndSwapUint32(addr, old, new)
}
func CompareAndSwapUint64(addr *uint64, old, new uint64) bool {
	point()
	return atomic.CompareAndSwapUint64(addr, old, new)
}
func CompareAndSwapPointer(addr *unsafe.Pointer, old, new unsafe.Pointer) bool {
	point()
	return atomic.CompareAndSwapPointer(addr, old, new)
}
