module verifsimrt

go 1.23
