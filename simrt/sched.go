// Package verifsimrt is the controlled-concurrency runtime of the
// deterministic simulator. It has two faces:
//
//   - a drop-in replacement of the parts of package "sync" that block
//     (Mutex, RWMutex, WaitGroup, Cond), plus helpers that the source
//     transformer substitutes for "go" statements and channel operations;
//   - the scheduler: simulated goroutines are real goroutines running real
//     code, but exactly one holds the baton at any time. A goroutine gives
//     up the baton only inside this package, and the goroutine that gives it
//     up runs the scheduling decision itself (drawn from a Picker owned by
//     the harness), wakes the chosen goroutine and blocks on its private
//     channel.
//
// When no simulation is active every wrapper degenerates to the plain
// operation, so code built with the overlay behaves like the original.
//
// Standard library only: bb-storage packages import this package.
package verifsimrt

import (
	"fmt"
	"runtime/debug"
	"sort"
	"sync"
	"sync/atomic"
	"time"
)

// G is a simulated goroutine.
type G struct {
	ID     int
	Proc   int // process (crash domain) the goroutine belongs to
	Name   string
	wake   chan struct{}
	desc   string
	ready  func() bool // nil = always enabled
	done   bool
	killed bool
	daemon bool // does not count for "all work finished"
	prio   int  // used by PCT pickers
	steps  int
}

func (g *G) Desc() string { return g.desc }
func (g *G) Prio() int    { return g.prio }
func (g *G) SetPrio(p int) {
	g.prio = p
}

// Picker decides scheduling. Implemented by the harness on top of its tape.
type Picker interface {
	// Pick chooses the next goroutine among enabled (sorted by ID, len>=1).
	// cur is the goroutine that just yielded (may not be enabled; nil when
	// it exited).
	Pick(enabled []*G, cur *G) *G
	// AdvanceEarly is consulted when at least one timer is pending and
	// other goroutines are enabled: true fires the earliest timer now.
	AdvanceEarly() bool
	// Spawned is called when a goroutine is created.
	Spawned(g *G)
	// ChooseBranch picks among n ready cases of a select statement (n>=2).
	ChooseBranch(n int) int
}

type timer struct {
	at      time.Duration
	seq     uint64
	fire    func(now time.Duration)
	stopped bool
	owner   int
	period  time.Duration
}

// Sched is one simulation.
type Sched struct {
	picker Picker
	gs     []*G
	cur    *G
	root   *G
	nextID int

	now      time.Duration
	timers   []*timer
	timerSeq uint64

	Steps    int
	MaxSteps int
	hash     uint64
	keepLog  bool
	log      []string
	switches int

	deadlock    bool
	DeadlockMsg string
	overrun     bool
	dead        bool // simulation over: all operations inert
	killAck     chan struct{}

	panics []string

	nextObjID int
	enBuf     []*G

	// Counters for coverage
	TimerFires   int
	ClockJumps   int
	EarlyFires   int
	MaxRunnable  int
	Contended    int
	SelectWaits  int
	SelectRaces  int
	SpawnedCount int
	AtomicPoints int

	// AtomicYields (seam S5): operations of the substituted sync/atomic are
	// scheduling points. Off unless a harness switches it on for the run.
	AtomicYields bool

	// StepHook, when set, runs at every scheduling point with the baton held
	// (before the pick). It may inspect state but must not block or yield.
	StepHook func()
}

var active atomic.Pointer[Sched]

// Active returns the running simulation or nil.
func Active() *Sched { return active.Load() }

// errors used to unwind
type killedSentinel struct{}

// DeadlockError is the panic value delivered to the root goroutine when no
// goroutine is enabled and no timer is pending.
type DeadlockError struct{ Msg string }

func (d DeadlockError) Error() string { return "deadlock: " + d.Msg }

// OverrunError is delivered to the root goroutine when MaxSteps is exceeded.
type OverrunError struct{ Steps int }

func (o OverrunError) Error() string { return fmt.Sprintf("step budget exceeded (%d)", o.Steps) }

// Result of a simulation.
type Result struct {
	Deadlock    bool
	DeadlockMsg string
	Overrun     bool
	Panics      []string
	RootPanic   interface{}
	RootStack   string
	Steps       int
	Hash        uint64
	Log         []string
	Now         time.Duration
}

var runMu sync.Mutex

// Run executes root as goroutine 0 of a fresh simulation and returns when it
// has finished (normally, by deadlock, by overrun, or by panic). All other
// goroutines still alive are then killed (unwound) before Run returns.
func Run(picker Picker, maxSteps int, keepLog bool, root func(s *Sched)) (res Result) {
	runMu.Lock()
	defer runMu.Unlock()
	s := &Sched{picker: picker, MaxSteps: maxSteps, keepLog: keepLog, hash: 14695981039346656037, killAck: make(chan struct{}, 1)}
	g := &G{ID: 0, Name: "root", wake: make(chan struct{}, 1)}
	s.nextID = 1
	s.gs = append(s.gs, g)
	s.root = g
	s.cur = g
	picker.Spawned(g)
	if !active.CompareAndSwap(nil, s) {
		panic("verifsimrt: nested simulation")
	}
	finished := make(chan struct{})
	go func() {
		defer close(finished)
		defer func() {
			if r := recover(); r != nil {
				switch v := r.(type) {
				case DeadlockError:
					res.Deadlock = true
					res.DeadlockMsg = v.Msg
				case OverrunError:
					res.Overrun = true
				case killedSentinel:
				default:
					res.RootPanic = r
					res.RootStack = string(debug.Stack())
				}
			}
			g.done = true
		}()
		root(s)
	}()
	<-finished
	// The root has finished and holds the baton (conceptually). Kill the rest.
	s.dead = true
	s.KillAll()
	active.Store(nil)
	res.Panics = s.panics
	res.Steps = s.Steps
	res.Hash = s.hash
	res.Log = s.log
	res.Now = s.now
	return res
}

// KillAll unwinds every goroutine that has not finished, in ID order.
func (s *Sched) KillAll() {
	for i := 0; i < len(s.gs); i++ { // s.gs may grow?  no: dead → Go is inert
		g := s.gs[i]
		if g.done || g == s.root {
			continue
		}
		s.killOne(g)
	}
}

// KillProc unwinds every unfinished goroutine of process proc. To be called
// by a goroutine of another process (typically the root) holding the baton.
func (s *Sched) KillProc(proc int) {
	for i := 0; i < len(s.gs); i++ {
		g := s.gs[i]
		if g.done || g.Proc != proc || g == s.cur {
			continue
		}
		s.killOne(g)
	}
	s.compact()
}

func (s *Sched) killOne(g *G) {
	prev := s.cur
	g.killed = true
	s.cur = g
	g.wake <- struct{}{}
	<-s.killAck
	s.cur = prev
}

func (s *Sched) compact() {
	j := 0
	for _, g := range s.gs {
		if !g.done {
			s.gs[j] = g
			j++
		}
	}
	for k := j; k < len(s.gs); k++ {
		s.gs[k] = nil
	}
	s.gs = s.gs[:j]
}

// Cur returns the goroutine holding the baton.
func (s *Sched) Cur() *G { return s.cur }

// Now returns simulated time since the start of the run.
func (s *Sched) Now() time.Duration { return s.now }

// NewObjID hands out deterministic identifiers for mutexes, channels, …
func (s *Sched) NewObjID() int { s.nextObjID++; return s.nextObjID }

func (s *Sched) trace(g *G, what string) {
	// FNV-1a over (step, gid, what)
	h := s.hash
	mix := func(b byte) { h ^= uint64(b); h *= 1099511628211 }
	mix(byte(g.ID))
	mix(byte(g.ID >> 8))
	for i := 0; i < len(what); i++ {
		mix(what[i])
	}
	mix(0xff)
	s.hash = h
	if s.keepLog {
		s.log = append(s.log, fmt.Sprintf("%d g%d %s", s.Steps, g.ID, what))
	}
}

// Note adds a harness-level line to the event log (and hash).
func (s *Sched) Note(what string) {
	if s.dead {
		return
	}
	s.trace(s.cur, what)
}

// Go starts f as a new simulated goroutine in the spawner's process.
func (s *Sched) Go(name string, f func()) *G {
	return s.GoProc(name, s.cur.Proc, false, f)
}

// GoProc starts f as a new simulated goroutine of process proc.
func (s *Sched) GoProc(name string, proc int, daemon bool, f func()) *G {
	if s.dead || s.cur.killed {
		return nil
	}
	g := &G{ID: s.nextID, Proc: proc, Name: name, wake: make(chan struct{}, 1), daemon: daemon}
	s.nextID++
	s.gs = append(s.gs, g)
	s.SpawnedCount++
	s.picker.Spawned(g)
	s.trace(s.cur, "spawn g"+itoa(g.ID)+" "+name)
	go func() {
		<-g.wake
		defer func() {
			r := recover()
			g.done = true
			if g.killed || s.dead {
				s.killAck <- struct{}{}
				return
			}
			if r != nil {
				if _, ok := r.(killedSentinel); !ok {
					s.panics = append(s.panics, fmt.Sprintf("goroutine g%d (%s) panicked: %v\n%s", g.ID, g.Name, r, debug.Stack()))
				}
			}
			s.trace(g, "exit")
			// hand the baton on
			s.switchFrom(g, true)
		}()
		if g.killed {
			return
		}
		f()
	}()
	return g
}

// Yield is an always-enabled scheduling point (used at every seam call).
func (s *Sched) Yield(desc string) {
	s.park(desc, nil)
}

// WaitUntil parks the caller until pred holds. pred is evaluated with the
// baton held and must not block.
func (s *Sched) WaitUntil(desc string, pred func() bool) {
	s.park(desc, pred)
}

// park is the single place where a goroutine gives up the baton.
func (s *Sched) park(desc string, ready func() bool) {
	g := s.cur
	if s.dead || g.killed {
		if g.killed && !s.dead {
			panic(killedSentinel{})
		}
		if s.dead && g != s.root {
			panic(killedSentinel{})
		}
		return
	}
	g.desc = desc
	g.ready = ready
	g.steps++
	s.trace(g, desc)
	s.switchFrom(g, false)
}

func (s *Sched) switchFrom(g *G, exiting bool) {
	s.Steps++
	if s.StepHook != nil {
		s.StepHook()
	}
	if s.MaxSteps > 0 && s.Steps > s.MaxSteps && !s.overrun {
		s.overrun = true
	}
	var next *G
	if s.overrun || s.deadlock {
		next = s.root
		if s.root.done {
			return
		}
	} else {
		next = s.pickNext(g, exiting)
	}
	if next == g && !exiting {
		if g == s.root {
			s.checkRootSignals()
		}
		return
	}
	s.cur = next
	s.switches++
	next.wake <- struct{}{}
	if exiting {
		return
	}
	<-g.wake
	if g.killed {
		panic(killedSentinel{})
	}
	if g == s.root {
		s.checkRootSignals()
	}
}

func (s *Sched) checkRootSignals() {
	if s.deadlock {
		s.dead = true
		panic(DeadlockError{Msg: s.DeadlockMsg})
	}
	if s.overrun {
		s.dead = true
		panic(OverrunError{Steps: s.Steps})
	}
}

func (s *Sched) enabledSet() []*G {
	en := s.enBuf[:0]
	for _, g := range s.gs {
		if g.done || g.killed {
			continue
		}
		if g.ready == nil || g.ready() {
			en = append(en, g)
		}
	}
	s.enBuf = en
	return en
}

func (s *Sched) pickNext(cur *G, exiting bool) *G {
	if len(s.gs) > 64 {
		s.compact()
	}
	for {
		en := s.enabledSet()
		if len(en) > s.MaxRunnable {
			s.MaxRunnable = len(en)
		}
		if len(en) == 0 {
			if s.fireNextTimer(false) {
				continue
			}
			// deadlock
			s.deadlock = true
			s.DeadlockMsg = s.describeBlocked()
			return s.root
		}
		if s.pendingTimers() > 0 && s.picker.AdvanceEarly() {
			if s.fireNextTimer(true) {
				continue
			}
		}
		var c *G
		if !exiting {
			c = cur
		}
		return s.picker.Pick(en, c)
	}
}

func (s *Sched) describeBlocked() string {
	var parts []string
	for _, g := range s.gs {
		if g.done {
			continue
		}
		parts = append(parts, fmt.Sprintf("g%d(%s): %s", g.ID, g.Name, g.desc))
	}
	sort.Strings(parts)
	out := ""
	for i, p := range parts {
		if i > 0 {
			out += "; "
		}
		out += p
	}
	return out
}

// Blocked returns descriptors of all unfinished goroutines other than cur.
func (s *Sched) Blocked() []string {
	var parts []string
	for _, g := range s.gs {
		if g.done || g == s.cur {
			continue
		}
		parts = append(parts, fmt.Sprintf("g%d(%s): %s", g.ID, g.Name, g.desc))
	}
	return parts
}

// LiveGoroutines counts unfinished goroutines of process proc (excluding the
// caller), optionally only non-daemons.
func (s *Sched) LiveGoroutines(proc int, includeDaemons bool) int {
	n := 0
	for _, g := range s.gs {
		if g.done || g == s.cur || g.Proc != proc {
			continue
		}
		if g.daemon && !includeDaemons {
			continue
		}
		n++
	}
	return n
}

// Quiescent reports whether every unfinished goroutine of proc other than
// the caller is parked and not enabled (timers are not considered).
func (s *Sched) Quiescent(proc int) bool {
	for _, g := range s.gs {
		// (the predicate is evaluated by whichever goroutine is yielding, so
		// the caller cannot be identified by s.cur: callers are the root)
		if g.done || g == s.root || g.Proc != proc {
			continue
		}
		if g.ready == nil || g.ready() {
			return false
		}
	}
	return true
}

// ---- timers ----

// Timer is a handle to a simulated timer.
type Timer struct {
	s *Sched
	t *timer
}

// Stop prevents the timer from firing.
func (t Timer) Stop() bool {
	if t.t.stopped {
		return false
	}
	t.t.stopped = true
	return true
}

// AfterFunc arranges for fire to be called (with the baton held, by
// whichever goroutine happens to be scheduling; it must not block) once
// simulated time reaches now+d. period>0 re-arms.
func (s *Sched) AfterFunc(d, period time.Duration, fire func(now time.Duration)) Timer {
	if d < 0 {
		d = 0
	}
	s.timerSeq++
	owner := -1
	if s.cur != nil {
		owner = s.cur.ID
	}
	t := &timer{at: s.now + d, seq: s.timerSeq, fire: fire, owner: owner, period: period}
	s.timers = append(s.timers, t)
	return Timer{s, t}
}

func (s *Sched) pendingTimers() int {
	n := 0
	j := 0
	for _, t := range s.timers {
		if !t.stopped {
			s.timers[j] = t
			j++
			n++
		}
	}
	s.timers = s.timers[:j]
	return n
}

// PendingTimers returns the number of armed timers.
func (s *Sched) PendingTimers() int { return s.pendingTimers() }

// NextTimer returns the deadline of the earliest armed timer.
func (s *Sched) NextTimer() (time.Duration, bool) {
	var best *timer
	for _, t := range s.timers {
		if t.stopped {
			continue
		}
		if best == nil || t.at < best.at || (t.at == best.at && t.seq < best.seq) {
			best = t
		}
	}
	if best == nil {
		return 0, false
	}
	return best.at, true
}

func (s *Sched) fireNextTimer(early bool) bool {
	var best *timer
	for _, t := range s.timers {
		if t.stopped {
			continue
		}
		if best == nil || t.at < best.at || (t.at == best.at && t.seq < best.seq) {
			best = t
		}
	}
	if best == nil {
		return false
	}
	if best.at > s.now {
		s.now = best.at
		s.ClockJumps++
	}
	if early {
		s.EarlyFires++
	}
	s.TimerFires++
	if best.period > 0 {
		best.at += best.period
	} else {
		best.stopped = true
	}
	if s.keepLog {
		s.log = append(s.log, fmt.Sprintf("%d clock t=%v fire timer#%d", s.Steps, s.now, best.seq))
	}
	best.fire(s.now)
	return true
}

// Advance moves simulated time forward by d, firing every timer that
// becomes due, in order. Called with the baton held.
func (s *Sched) Advance(d time.Duration) {
	target := s.now + d
	for {
		at, ok := s.NextTimer()
		if !ok || at > target {
			break
		}
		s.fireNextTimer(false)
	}
	if target > s.now {
		s.now = target
	}
}

func itoa(i int) string { return fmt.Sprintf("%d", i) }

// ---- package-level helpers used by transformed code ----

// Go is substituted for "go f()" statements.
func Go(f func()) {
	if s := active.Load(); s != nil {
		s.Go("go", f)
		return
	}
	go f()
}

// AtomicPoint precedes every operation of the substituted sync/atomic (S5).
func AtomicPoint() {
	if s := active.Load(); s != nil && s.AtomicYields {
		s.AtomicPoints++
		s.park("atomic", nil)
	}
}

// Yield is an always-enabled scheduling point; a no-op without simulation.
func Yield(desc string) {
	if s := active.Load(); s != nil {
		s.Yield(desc)
	}
}
