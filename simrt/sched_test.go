package verifsimrt

import (
	"math/rand"
	"testing"
	"time"
)

type rndPicker struct{ r *rand.Rand }

func (p *rndPicker) Pick(en []*G, cur *G) *G { return en[p.r.Intn(len(en))] }
func (p *rndPicker) AdvanceEarly() bool      { return p.r.Intn(10) == 0 }
func (p *rndPicker) Spawned(g *G)            {}
func (p *rndPicker) ChooseBranch(n int) int  { return p.r.Intn(n) }

func runToy(seed int64) (Result, int) {
	total := 0
	res := Run(&rndPicker{rand.New(rand.NewSource(seed))}, 100000, true, func(s *Sched) {
		var mu Mutex
		var wg WaitGroup
		ch := make(chan int, 1)
		done := make(chan struct{})
		for i := 0; i < 4; i++ {
			wg.Add(1)
			i := i
			Go(func() {
				defer wg.Done()
				for k := 0; k < 5; k++ {
					mu.Lock()
					total += i
					Yield("work")
					mu.Unlock()
				}
				if i == 0 {
					Send(ch, 7)
				}
				if i == 1 {
					total += Recv((<-chan int)(ch))
					close(done)
				}
				if i == 2 {
					sel := WaitSelect(done)
					select {
					case <-Only(sel, 0, (<-chan struct{})(done)):
					}
				}
				if i == 3 {
					tc := make(chan time.Time, 1)
					s.AfterFunc(5*time.Second, 0, func(now time.Duration) { tc <- time.Time{} })
					Recv((<-chan time.Time)(tc))
				}
			})
		}
		wg.Wait()
	})
	return res, total
}

func TestToyDeterministic(t *testing.T) {
	for seed := int64(0); seed < 200; seed++ {
		r1, t1 := runToy(seed)
		r2, t2 := runToy(seed)
		if r1.Hash != r2.Hash || t1 != t2 || r1.Steps != r2.Steps {
			t.Fatalf("seed %d diverged", seed)
		}
		if t1 != 5*(0+1+2+3)+7 {
			t.Fatalf("seed %d total %d", seed, t1)
		}
		if r1.Deadlock || len(r1.Panics) > 0 || r1.RootPanic != nil {
			t.Fatalf("seed %d: %+v", seed, r1)
		}
		if r1.Now != 5*time.Second {
			t.Fatalf("clock %v", r1.Now)
		}
	}
}

func TestDeadlockAndKill(t *testing.T) {
	res := Run(&rndPicker{rand.New(rand.NewSource(1))}, 1000, false, func(s *Sched) {
		var a, b Mutex
		var wg WaitGroup
		wg.Add(2)
		Go(func() { defer wg.Done(); a.Lock(); Yield("x"); b.Lock(); b.Unlock(); a.Unlock() })
		Go(func() { defer wg.Done(); b.Lock(); Yield("y"); Yield("y"); Yield("y"); a.Lock(); a.Unlock(); b.Unlock() })
		wg.Wait()
	})
	_ = res
	found := false
	for seed := int64(0); seed < 50; seed++ {
		res := Run(&rndPicker{rand.New(rand.NewSource(seed))}, 1000, false, func(s *Sched) {
			var a, b Mutex
			var wg WaitGroup
			wg.Add(2)
			Go(func() { defer wg.Done(); a.Lock(); Yield("x"); b.Lock(); b.Unlock(); a.Unlock() })
			Go(func() { defer wg.Done(); b.Lock(); Yield("y"); a.Lock(); a.Unlock(); b.Unlock() })
			wg.Wait()
		})
		if res.Deadlock {
			found = true
			t.Log(res.DeadlockMsg)
		}
	}
	if !found {
		t.Fatal("no deadlock found")
	}
}

func TestKillProc(t *testing.T) {
	res := Run(&rndPicker{rand.New(rand.NewSource(1))}, 10000, false, func(s *Sched) {
		var mu Mutex
		cnt := 0
		for i := 0; i < 3; i++ {
			s.GoProc("w", 1, false, func() {
				for {
					mu.Lock()
					cnt++
					Yield("w")
					mu.Unlock()
				}
			})
		}
		s.WaitUntil("cnt", func() bool { return cnt > 20 })
		s.KillProc(1)
		if s.LiveGoroutines(1, true) != 0 {
			panic("still alive")
		}
		c := cnt
		for i := 0; i < 10; i++ {
			s.Yield("r")
		}
		if cnt != c {
			panic("zombie ran")
		}
	})
	if res.RootPanic != nil || len(res.Panics) > 0 {
		t.Fatalf("%+v", res)
	}
}

// The simulated pipe behaves like io.Pipe under every schedule: the reader
// sees the concatenation of what was written, then the writer's close error.
func TestPipe(t *testing.T) {
	for seed := int64(0); seed < 300; seed++ {
		var got []byte
		var end error
		var wrote [3]int
		res := Run(&rndPicker{rand.New(rand.NewSource(seed))}, 100000, false, func(s *Sched) {
			r, w := Pipe()
			var wg WaitGroup
			wg.Add(2)
			Go(func() {
				defer wg.Done()
				for i, chunk := range [][]byte{[]byte("hello "), {}, []byte("world")} {
					n, err := w.Write(chunk)
					wrote[i] = n
					if err != nil {
						t.Errorf("seed %d: write %d: %v", seed, i, err)
					}
				}
				w.CloseWithError(errTestPipe)
			})
			Go(func() {
				defer wg.Done()
				buf := make([]byte, 1+int(seed%4))
				for {
					n, err := r.Read(buf)
					got = append(got, buf[:n]...)
					if err != nil {
						end = err
						return
					}
				}
			})
			wg.Wait()
		})
		if res.Deadlock || string(got) != "hello world" || end != errTestPipe || wrote != [3]int{6, 0, 5} {
			t.Fatalf("seed %d: deadlock=%v got=%q end=%v wrote=%v", seed, res.Deadlock, got, end, wrote)
		}
	}
	// reader closes early: the writer is released with the reader's error
	res := Run(&rndPicker{rand.New(rand.NewSource(1))}, 100000, false, func(s *Sched) {
		r, w := Pipe()
		var wg WaitGroup
		wg.Add(1)
		Go(func() {
			defer wg.Done()
			if _, err := w.Write([]byte("abc")); err != errTestPipe {
				t.Errorf("write after reader close: %v", err)
			}
		})
		p := make([]byte, 1)
		r.Read(p)
		r.CloseWithError(errTestPipe)
		wg.Wait()
	})
	if res.Deadlock {
		t.Fatal("deadlock")
	}
}

var errTestPipe = &testPipeErr{}

type testPipeErr struct{}

func (*testPipeErr) Error() string { return "test pipe error" }
