#!/bin/bash
# Determinism self-test: for every property run the same worker (fixed
# maxruns) several times at GOMAXPROCS 1, 4 and 16 and compare the sets of
# event-log hashes and the stats. Any difference is a harness bug (exit 2).
B=${VERIF_BUILD:-/verif/.build}
N=${1:-1500}
REPS=${2:-2}
PROPS=${3:-}
/verif/build.sh || exit 2
# private copy of the binary: a rebuild while the self-test runs must not mix two versions
mkdir -p $B/selftest; cp $B/vsim $B/selftest/vsim.$$; BIN=$B/selftest/vsim.$$
[ -z "$PROPS" ] && PROPS=$($BIN list | sort)
rc=0
for p in $PROPS; do
  ref=""
  for procs in 1 4 16; do
    for rep in $(seq 1 $REPS); do
      out=$B/selftest/$p/p${procs}_r${rep}
      rm -rf $out; mkdir -p $out
      $BIN run -prop $p -seed 7 -worker 1 -workers 3 -maxruns $N -seconds 600 -procs $procs -out $out -replays $out/replays -known /verif/known_findings.json >/dev/null 2>$out/err
      h=$(python3 -c "
import json,hashlib,sys
d=json.load(open('$out/worker_1.json'))
s=json.dumps([d['hashes'],sorted(d['stats'].items()),d['runs'],d['steps']],sort_keys=True)
print(hashlib.sha256(s.encode()).hexdigest()[:16], d['runs'], len(d['hashes']))")
      if [ -z "$ref" ]; then ref="$h"; fi
      runs=$(echo $h | cut -d' ' -f2)
      if [ "$runs" -lt $((N/3)) ]; then echo "INCONCLUSIVE $p procs=$procs rep=$rep: wall budget reached after $runs of $((N/3)) runs"; continue; fi
      if [ "$h" != "$ref" ]; then echo "NONDETERMINISTIC $p procs=$procs rep=$rep: $h vs $ref"; rc=2; fi
    done
  done
  # batch against single execution: a sample of the batch's runs is executed
  # again, each in a process of its own (vsim one), and must give the hash it
  # had inside the batch (state leaking from one run of a batch into the next
  # would make a violation a function of its position in the batch, and its
  # replay file useless)
  out=$B/selftest/$p/single
  rm -rf $out; mkdir -p $out
  $BIN run -prop $p -seed 7 -worker 1 -workers 3 -maxruns $((N<600?N:600)) -seconds 300 -out $out -replays $out/replays -known /verif/known_findings.json -dumphashes $out/hashes.txt >/dev/null 2>$out/err
  bad=0; checked=0
  # (the last SINGLES runs of each profile: leaks show in later runs, not in the first)
  for line in $(awk '$1 >= 0 {print $1":"$2":"$3":"$5}' $out/hashes.txt | tac | awk -F: '{n[$4]++; if (n[$4] <= '${SINGLES:-4}') print}'); do
    seed=$(echo $line | cut -d: -f2); want=$(echo $line | cut -d: -f3)
    got=$($BIN one -prop $p -runseed $seed -tier quick 2>/dev/null | grep -o 'hash=[0-9a-f]*' | tail -1 | cut -d= -f2)
    checked=$((checked+1))
    if [ "$got" != "$want" ]; then echo "BATCH-DEPENDENT $p run $(echo $line | cut -d: -f1) ($(echo $line | cut -d: -f4)) seed $seed: hash $want in the batch, $got alone"; bad=1; fi
  done
  [ $bad = 1 ] && rc=2
  echo "$p $ref singles_checked=$checked"
done
rm -rf $B/selftest
exit $rc
