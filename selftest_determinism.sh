#!/bin/bash
# Determinism self-test: for every property run the same worker (fixed
# maxruns) several times at GOMAXPROCS 1, 4 and 16 and compare the sets of
# event-log hashes and the stats. Any difference is a harness bug (exit 2).
B=${VERIF_BUILD:-/verif/.build}
N=${1:-1500}
REPS=${2:-2}
PROPS=${3:-}
/verif/build.sh || exit 2
# private copy of the binary: a rebuild while the self-test runs must not mix two versions
mkdir -p $B/selftest; cp $B/vsim $B/selftest/vsim.$$; BIN=$B/selftest/vsim.$$
[ -z "$PROPS" ] && PROPS=$($BIN list | sort)
rc=0
for p in $PROPS; do
  ref=""
  for procs in 1 4 16; do
    for rep in $(seq 1 $REPS); do
      out=$B/selftest/$p/p${procs}_r${rep}
      rm -rf $out; mkdir -p $out
      $BIN run -prop $p -seed 7 -worker 1 -workers 3 -maxruns $N -seconds 600 -procs $procs -out $out -replays $out/replays -known /verif/known_findings.json >/dev/null 2>$out/err
      h=$(python3 -c "
import json,hashlib,sys
d=json.load(open('$out/worker_1.json'))
s=json.dumps([d['hashes'],sorted(d['stats'].items()),d['runs'],d['steps']],sort_keys=True)
print(hashlib.sha256(s.encode()).hexdigest()[:16], d['runs'], len(d['hashes']))")
      if [ -z "$ref" ]; then ref="$h"; fi
      runs=$(echo $h | cut -d' ' -f2)
      if [ "$runs" -lt $((N/3)) ]; then echo "INCONCLUSIVE $p procs=$procs rep=$rep: wall budget reached after $runs of $((N/3)) runs"; continue; fi
      if [ "$h" != "$ref" ]; then echo "NONDETERMINISTIC $p procs=$procs rep=$rep: $h vs $ref"; rc=2; fi
    done
  done
  echo "$p $ref"
done
rm -rf $B/selftest
exit $rc
