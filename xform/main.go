// xform is the source transformer of the simulator (DESIGN.md 2.1, S1-S4).
// It rewrites the non-test Go files of selected package directories so that
// blocking synchronisation goes through package verifsimrt, and emits a
// `go build -overlay` file. It deletes nothing and changes no control flow.
//
//	xform -repo /repo -out DIR -dirs pkg/blobstore,pkg/digest,... [-xsync SRC:DST]
package main

import (
	"bytes"
	"encoding/json"
	"flag"
	"fmt"
	"go/ast"
	"go/parser"
	"go/printer"
	"go/token"
	"os"
	"path/filepath"
	"sort"
	"strconv"
	"strings"
)

const rtName = "verifsimrt_rt"
const rtPath = "verifsimrt"

type stats struct {
	Files, SyncImports, AtomicImports, GoStmts, Recvs, Selects, Sends, Renames, MapRanges, PipeSelectors, Sleeps int
}

var st stats

// mapRanges: expressions (as printed) whose range statements in
// pkg/blobstore/configuration are rewritten to a tape-drawn key order.
var mapRanges = map[string]bool{
	"backend.Sharding.Shards":                      true,
	"backend.Demultiplexing.InstanceNamePrefixes": true,
}

func exprString(fset *token.FileSet, e ast.Expr) string {
	var b bytes.Buffer
	printer.Fprint(&b, fset, e)
	return b.String()
}

func fatal(format string, a ...interface{}) {
	fmt.Fprintf(os.Stderr, "xform: "+format+"\n", a...)
	os.Exit(2)
}

func rtCall(fn string, args ...ast.Expr) *ast.CallExpr {
	return &ast.CallExpr{Fun: &ast.SelectorExpr{X: ast.NewIdent(rtName), Sel: ast.NewIdent(fn)}, Args: args}
}

type rewriter struct {
	fset    *token.FileSet
	file    string
	changed bool
	needRT  bool
}

func isRecv(e ast.Expr) (*ast.UnaryExpr, bool) {
	u, ok := e.(*ast.UnaryExpr)
	if ok && u.Op == token.ARROW {
		return u, true
	}
	return nil, false
}

func unparen(e ast.Expr) ast.Expr {
	for {
		p, ok := e.(*ast.ParenExpr)
		if !ok {
			return e
		}
		e = p.X
	}
}

// rewriteExpr rewrites receive expressions inside e (not descending into
// function literals' statements here; those are handled by rewriteStmt).
// pipeNames: selectors of package io that are replaced by the simulated pipe
// in pkg/blobstore/grpcclients (S7).
var pipeNames = map[string]bool{"Pipe": true, "PipeReader": true, "PipeWriter": true}

func (r *rewriter) rewritePipeSelectors(f *ast.File) {
	if !strings.Contains(r.file, "pkg/blobstore/grpcclients/") {
		return
	}
	ast.Inspect(f, func(n ast.Node) bool {
		if se, ok := n.(*ast.SelectorExpr); ok {
			if id, ok := se.X.(*ast.Ident); ok && id.Name == "io" && pipeNames[se.Sel.Name] {
				id.Name = rtName
				st.PipeSelectors++
				r.changed, r.needRT = true, true
			}
		}
		return true
	})
}

// rewriteSleep (S8): time.Sleep in the rewritten packages becomes a sleep on
// the simulated clock. (The unchanged tree has none in scope; a change that
// introduces one must not stall the simulator on a real sleep.)
func (r *rewriter) rewriteSleep(f *ast.File) {
	sleeps, otherTime := 0, 0
	ast.Inspect(f, func(n ast.Node) bool {
		if se, ok := n.(*ast.SelectorExpr); ok {
			if id, ok := se.X.(*ast.Ident); ok && id.Name == "time" && id.Obj == nil {
				if se.Sel.Name == "Sleep" {
					id.Name = rtName
					sleeps++
				} else {
					otherTime++
				}
			}
		}
		return true
	})
	if sleeps == 0 {
		return
	}
	st.Sleeps += sleeps
	r.changed, r.needRT = true, true
	if otherTime == 0 {
		// keep the "time" import used
		f.Decls = append(f.Decls, &ast.GenDecl{Tok: token.VAR, Specs: []ast.Spec{&ast.ValueSpec{
			Names: []*ast.Ident{ast.NewIdent("_")}, Values: []ast.Expr{&ast.SelectorExpr{X: ast.NewIdent("time"), Sel: ast.NewIdent("Nanosecond")}}}}})
	}
}

func (r *rewriter) rewriteExpr(e ast.Expr) ast.Expr {
	if e == nil {
		return nil
	}
	switch v := e.(type) {
	case *ast.UnaryExpr:
		v.X = r.rewriteExpr(v.X)
		if v.Op == token.ARROW {
			st.Recvs++
			r.changed, r.needRT = true, true
			return rtCall("Recv", v.X)
		}
		return v
	case *ast.BinaryExpr:
		v.X = r.rewriteExpr(v.X)
		v.Y = r.rewriteExpr(v.Y)
	case *ast.CallExpr:
		v.Fun = r.rewriteExpr(v.Fun)
		for i := range v.Args {
			v.Args[i] = r.rewriteExpr(v.Args[i])
		}
	case *ast.ParenExpr:
		v.X = r.rewriteExpr(v.X)
	case *ast.SelectorExpr:
		v.X = r.rewriteExpr(v.X)
	case *ast.IndexExpr:
		v.X = r.rewriteExpr(v.X)
		v.Index = r.rewriteExpr(v.Index)
	case *ast.IndexListExpr:
		v.X = r.rewriteExpr(v.X)
	case *ast.SliceExpr:
		v.X = r.rewriteExpr(v.X)
		v.Low = r.rewriteExpr(v.Low)
		v.High = r.rewriteExpr(v.High)
		v.Max = r.rewriteExpr(v.Max)
	case *ast.StarExpr:
		v.X = r.rewriteExpr(v.X)
	case *ast.TypeAssertExpr:
		v.X = r.rewriteExpr(v.X)
	case *ast.KeyValueExpr:
		v.Key = r.rewriteExpr(v.Key)
		v.Value = r.rewriteExpr(v.Value)
	case *ast.CompositeLit:
		for i := range v.Elts {
			v.Elts[i] = r.rewriteExpr(v.Elts[i])
		}
	case *ast.FuncLit:
		r.rewriteBlock(v.Body)
	}
	return e
}

func (r *rewriter) rewriteBlock(b *ast.BlockStmt) {
	if b == nil {
		return
	}
	for i := range b.List {
		b.List[i] = r.rewriteStmt(b.List[i])
	}
}

func (r *rewriter) rewriteStmtList(l []ast.Stmt) {
	for i := range l {
		l[i] = r.rewriteStmt(l[i])
	}
}

func (r *rewriter) rewriteStmt(s ast.Stmt) ast.Stmt {
	switch v := s.(type) {
	case nil:
		return nil
	case *ast.BlockStmt:
		r.rewriteBlock(v)
	case *ast.ExprStmt:
		v.X = r.rewriteExpr(v.X)
	case *ast.AssignStmt:
		if len(v.Lhs) == 2 && len(v.Rhs) == 1 {
			if u, ok := isRecv(unparen(v.Rhs[0])); ok {
				u.X = r.rewriteExpr(u.X)
				v.Rhs[0] = rtCall("Recv2", u.X)
				st.Recvs++
				r.changed, r.needRT = true, true
				for i := range v.Lhs {
					v.Lhs[i] = r.rewriteExpr(v.Lhs[i])
				}
				return v
			}
		}
		for i := range v.Lhs {
			v.Lhs[i] = r.rewriteExpr(v.Lhs[i])
		}
		for i := range v.Rhs {
			v.Rhs[i] = r.rewriteExpr(v.Rhs[i])
		}
	case *ast.DeclStmt:
		if gd, ok := v.Decl.(*ast.GenDecl); ok {
			for _, sp := range gd.Specs {
				if vs, ok := sp.(*ast.ValueSpec); ok {
					if len(vs.Names) == 2 && len(vs.Values) == 1 {
						if u, ok := isRecv(unparen(vs.Values[0])); ok {
							u.X = r.rewriteExpr(u.X)
							vs.Values[0] = rtCall("Recv2", u.X)
							st.Recvs++
							r.changed, r.needRT = true, true
							continue
						}
					}
					for i := range vs.Values {
						vs.Values[i] = r.rewriteExpr(vs.Values[i])
					}
				}
			}
		}
	case *ast.GoStmt:
		// Only "go func() {...}()" without arguments is supported.
		fl, ok := v.Call.Fun.(*ast.FuncLit)
		if !ok || len(v.Call.Args) != 0 || (fl.Type.Params != nil && len(fl.Type.Params.List) != 0) {
			fatal("%s: unsupported go statement form at %s", r.file, r.fset.Position(v.Pos()))
		}
		r.rewriteBlock(fl.Body)
		st.GoStmts++
		r.changed, r.needRT = true, true
		return &ast.ExprStmt{X: rtCall("Go", fl)}
	case *ast.DeferStmt:
		v.Call = r.rewriteExpr(v.Call).(*ast.CallExpr)
	case *ast.ReturnStmt:
		for i := range v.Results {
			v.Results[i] = r.rewriteExpr(v.Results[i])
		}
	case *ast.IfStmt:
		v.Init = r.rewriteStmt(v.Init)
		v.Cond = r.rewriteExpr(v.Cond)
		r.rewriteBlock(v.Body)
		v.Else = r.rewriteStmt(v.Else)
	case *ast.ForStmt:
		v.Init = r.rewriteStmt(v.Init)
		v.Cond = r.rewriteExpr(v.Cond)
		v.Post = r.rewriteStmt(v.Post)
		r.rewriteBlock(v.Body)
	case *ast.RangeStmt:
		v.X = r.rewriteExpr(v.X)
		r.rewriteBlock(v.Body)
		// S6: ranging over a configuration map whose order decides the order
		// of backends / goroutines: the order is drawn from the tape
		if mapRanges[exprString(r.fset, v.X)] && strings.Contains(r.file, "pkg/blobstore/configuration/") {
			if v.Tok != token.DEFINE {
				fatal("%s: unsupported map range form at %s", r.file, r.fset.Position(v.Pos()))
			}
			keyIdent, _ := v.Key.(*ast.Ident)
			if keyIdent == nil || keyIdent.Name == "_" {
				keyIdent = ast.NewIdent("verifsimrt_key")
			}
			if val, ok := v.Value.(*ast.Ident); ok && val.Name != "_" {
				assign := &ast.AssignStmt{Lhs: []ast.Expr{ast.NewIdent(val.Name)}, Tok: token.DEFINE, Rhs: []ast.Expr{&ast.IndexExpr{X: v.X, Index: ast.NewIdent(keyIdent.Name)}}}
				v.Body.List = append([]ast.Stmt{assign}, v.Body.List...)
			} else if v.Value != nil {
				if id, ok := v.Value.(*ast.Ident); !ok || id.Name != "_" {
					fatal("%s: unsupported map range value at %s", r.file, r.fset.Position(v.Pos()))
				}
			}
			v.Key = ast.NewIdent("_")
			v.Value = ast.NewIdent(keyIdent.Name)
			v.X = rtCall("MapKeys", v.X)
			st.MapRanges++
			r.changed, r.needRT = true, true
		}
	case *ast.SwitchStmt:
		v.Init = r.rewriteStmt(v.Init)
		v.Tag = r.rewriteExpr(v.Tag)
		r.rewriteBlock(v.Body)
	case *ast.TypeSwitchStmt:
		v.Init = r.rewriteStmt(v.Init)
		v.Assign = r.rewriteStmt(v.Assign)
		r.rewriteBlock(v.Body)
	case *ast.CaseClause:
		for i := range v.List {
			v.List[i] = r.rewriteExpr(v.List[i])
		}
		r.rewriteStmtList(v.Body)
	case *ast.LabeledStmt:
		if _, ok := v.Stmt.(*ast.SelectStmt); ok {
			fatal("%s: labeled select at %s is not supported", r.file, r.fset.Position(v.Pos()))
		}
		v.Stmt = r.rewriteStmt(v.Stmt)
	case *ast.SendStmt:
		v.Chan = r.rewriteExpr(v.Chan)
		v.Value = r.rewriteExpr(v.Value)
		st.Sends++
		r.changed, r.needRT = true, true
		return &ast.ExprStmt{X: rtCall("Send", v.Chan, v.Value)}
	case *ast.SelectStmt:
		return r.rewriteSelect(v)
	case *ast.IncDecStmt:
		v.X = r.rewriteExpr(v.X)
	}
	return s
}

func (r *rewriter) rewriteSelect(sel *ast.SelectStmt) ast.Stmt {
	hasDefault := false
	hasSend := false
	var recvs []*ast.UnaryExpr
	for _, c := range sel.Body.List {
		cc := c.(*ast.CommClause)
		r.rewriteStmtList(cc.Body)
		if cc.Comm == nil {
			hasDefault = true
			continue
		}
		var recv *ast.UnaryExpr
		switch cs := cc.Comm.(type) {
		case *ast.ExprStmt:
			recv, _ = isRecv(unparen(cs.X))
		case *ast.AssignStmt:
			if len(cs.Rhs) == 1 {
				recv, _ = isRecv(unparen(cs.Rhs[0]))
			}
		}
		if recv == nil {
			hasSend = true
			continue
		}
		recvs = append(recvs, recv)
	}
	st.Selects++
	r.changed, r.needRT = true, true
	if hasSend {
		if !hasDefault {
			fatal("%s: select with send case and no default at %s is not supported", r.file, r.fset.Position(sel.Pos()))
		}
		return &ast.BlockStmt{List: []ast.Stmt{&ast.ExprStmt{X: rtCall("SelectYield")}, sel}}
	}
	// chosen := rt.WaitSelect(ch0, ch1, ...) / rt.PollSelect(...); every
	// receive case is masked with rt.Only(chosen, i, ch_i), so that the case
	// the simulator chose is the only one the native select can take.
	var chans []ast.Expr
	for _, rv := range recvs {
		chans = append(chans, rv.X)
	}
	fn := "WaitSelect"
	if hasDefault {
		fn = "PollSelect"
	}
	selVar := ast.NewIdent("verifsimrt_sel")
	assign := &ast.AssignStmt{Lhs: []ast.Expr{selVar}, Tok: token.DEFINE, Rhs: []ast.Expr{rtCall(fn, chans...)}}
	for i, rv := range recvs {
		rv.X = rtCall("Only", ast.NewIdent("verifsimrt_sel"), &ast.BasicLit{Kind: token.INT, Value: strconv.Itoa(i)}, rv.X)
	}
	return &ast.BlockStmt{List: []ast.Stmt{assign, sel}}
}

type renameRule struct {
	fileSuffix string
	from, to   string
}

func processFile(fset *token.FileSet, path string, renames []renameRule) ([]byte, bool) {
	src, err := os.ReadFile(path)
	if err != nil {
		fatal("%v", err)
	}
	f, err := parser.ParseFile(fset, path, src, parser.ParseComments)
	if err != nil {
		fatal("parse %s: %v", path, err)
	}
	r := &rewriter{fset: fset, file: path}
	// S1: sync import
	for _, imp := range f.Imports {
		p, _ := strconv.Unquote(imp.Path.Value)
		if p == "sync" {
			if imp.Name != nil && imp.Name.Name != "sync" {
				fatal("%s: renamed sync import", path)
			}
			imp.Path.Value = strconv.Quote(rtPath)
			imp.Name = ast.NewIdent("sync")
			r.changed = true
			st.SyncImports++
		}
		// S5: sync/atomic
		if p == "sync/atomic" {
			if imp.Name != nil && imp.Name.Name != "atomic" {
				fatal("%s: renamed sync/atomic import", path)
			}
			imp.Path.Value = strconv.Quote(rtPath + "/atomic")
			r.changed = true
			st.AtomicImports++
		}
	}
	r.rewritePipeSelectors(f)
	r.rewriteSleep(f)
	// S2/S3
	for _, d := range f.Decls {
		switch v := d.(type) {
		case *ast.FuncDecl:
			for _, rr := range renames {
				if strings.HasSuffix(path, rr.fileSuffix) && v.Recv == nil && v.Name.Name == rr.from {
					v.Name.Name = rr.to
					r.changed = true
					st.Renames++
				}
			}
			r.rewriteBlock(v.Body)
		case *ast.GenDecl:
			for _, sp := range v.Specs {
				if vs, ok := sp.(*ast.ValueSpec); ok {
					for i := range vs.Values {
						vs.Values[i] = r.rewriteExpr(vs.Values[i])
					}
				}
			}
		}
	}
	if !r.changed {
		return nil, false
	}
	if r.needRT {
		// add import
		spec := &ast.ImportSpec{Name: ast.NewIdent(rtName), Path: &ast.BasicLit{Kind: token.STRING, Value: strconv.Quote(rtPath)}}
		added := false
		for _, d := range f.Decls {
			if gd, ok := d.(*ast.GenDecl); ok && gd.Tok == token.IMPORT {
				gd.Specs = append(gd.Specs, spec)
				if gd.Lparen == token.NoPos {
					gd.Lparen = gd.Pos()
					gd.Rparen = gd.End()
				}
				added = true
				break
			}
		}
		if !added {
			gd := &ast.GenDecl{Tok: token.IMPORT, Specs: []ast.Spec{spec}}
			f.Decls = append([]ast.Decl{gd}, f.Decls...)
		}
	}
	// Comments are dropped from rewritten files (their positions no longer
	// match), except build constraints and //go: directives.
	var kept []*ast.CommentGroup
	for _, cg := range f.Comments {
		keep := cg.End() < f.Package
		for _, c := range cg.List {
			if strings.HasPrefix(c.Text, "//go:") || strings.HasPrefix(c.Text, "// +build") {
				keep = true
			}
		}
		if keep {
			kept = append(kept, cg)
		}
	}
	f.Comments = kept
	var buf bytes.Buffer
	cfg := printer.Config{Mode: printer.UseSpaces | printer.TabIndent, Tabwidth: 8}
	if err := cfg.Fprint(&buf, fset, f); err != nil {
		fatal("print %s: %v", path, err)
	}
	return buf.Bytes(), true
}

func walkDirs(root string, dirs []string) []string {
	var files []string
	for _, d := range dirs {
		base := filepath.Join(root, d)
		filepath.Walk(base, func(p string, info os.FileInfo, err error) error {
			if err != nil {
				return nil
			}
			if info.IsDir() {
				return nil
			}
			if strings.HasSuffix(p, ".go") && !strings.HasSuffix(p, "_test.go") {
				files = append(files, p)
			}
			return nil
		})
	}
	sort.Strings(files)
	return files
}

func main() {
	repo := flag.String("repo", "/repo", "repository root")
	out := flag.String("out", "", "output directory for rewritten files and overlay.json")
	dirs := flag.String("dirs", "", "comma separated package directories (recursive) relative to repo")
	hooks := flag.String("hooks", "", "directory with hook files: <hooks>/<relpath>.go are added to the overlay at <repo>/<relpath>.go")
	xsync := flag.String("xsync", "", "SRC:DST copy and rewrite golang.org/x/sync")
	flag.Parse()
	if *out == "" {
		fatal("-out required")
	}
	os.RemoveAll(filepath.Join(*out, "files"))
	os.MkdirAll(filepath.Join(*out, "files"), 0o755)
	fset := token.NewFileSet()
	overlay := map[string]string{}
	renames := []renameRule{
		{"pkg/blockdevice/new_block_device_from_file_unix.go", "NewBlockDeviceFromFile", "verifOrigNewBlockDeviceFromFile"},
		{"pkg/filesystem/local_directory_unix.go", "NewLocalDirectory", "verifOrigNewLocalDirectory"},
	}
	for _, p := range walkDirs(*repo, strings.Split(*dirs, ",")) {
		data, changed := processFile(fset, p, renames)
		if !changed {
			continue
		}
		rel, _ := filepath.Rel(*repo, p)
		dst := filepath.Join(*out, "files", rel)
		os.MkdirAll(filepath.Dir(dst), 0o755)
		if err := os.WriteFile(dst, data, 0o644); err != nil {
			fatal("%v", err)
		}
		overlay[p] = dst
		st.Files++
	}
	if *hooks != "" {
		filepath.Walk(*hooks, func(p string, info os.FileInfo, err error) error {
			if err != nil || info.IsDir() || !strings.HasSuffix(p, ".go") {
				return nil
			}
			rel, _ := filepath.Rel(*hooks, p)
			overlay[filepath.Join(*repo, rel)] = p
			return nil
		})
	}
	if *xsync != "" {
		parts := strings.SplitN(*xsync, ":", 2)
		src, dst := parts[0], parts[1]
		os.RemoveAll(dst)
		filepath.Walk(src, func(p string, info os.FileInfo, err error) error {
			if err != nil {
				return nil
			}
			rel, _ := filepath.Rel(src, p)
			if info.IsDir() {
				os.MkdirAll(filepath.Join(dst, rel), 0o755)
				return nil
			}
			if strings.HasSuffix(p, "_test.go") {
				return nil
			}
			var data []byte
			if strings.HasSuffix(p, ".go") && (strings.HasPrefix(rel, "errgroup") || strings.HasPrefix(rel, "semaphore")) {
				d, changed := processFile(fset, p, nil)
				if changed {
					data = d
				}
			}
			if data == nil {
				data, _ = os.ReadFile(p)
			}
			os.WriteFile(filepath.Join(dst, rel), data, 0o644)
			return nil
		})
	}
	j, _ := json.MarshalIndent(map[string]interface{}{"Replace": overlay}, "", " ")
	if err := os.WriteFile(filepath.Join(*out, "overlay.json"), j, 0o644); err != nil {
		fatal("%v", err)
	}
	sj, _ := json.Marshal(st)
	fmt.Println(string(sj))
}
