module xform

go 1.23
