//go:build verif

package filesystem

import (
	"github.com/buildbarn/bb-storage/pkg/filesystem/path"
)

// VerifLocalDirectoryHook lets the simulator substitute a simulated
// directory for registered paths (DESIGN.md S4). Only present in overlay builds.
var VerifLocalDirectoryHook func(pathString string) (DirectoryCloser, error, bool)

// NewLocalDirectory wraps the original constructor, which the overlay
// renames to verifOrigNewLocalDirectory.
func NewLocalDirectory(directoryParser path.Parser) (DirectoryCloser, error) {
	if h := VerifLocalDirectoryHook; h != nil {
		directoryPath, scopeWalker := path.EmptyBuilder.Join(path.VoidScopeWalker)
		if err := path.Resolve(directoryParser, scopeWalker); err == nil {
			if pathString, err := path.LocalFormat.GetString(directoryPath); err == nil {
				if d, err, ok := h(pathString); ok {
					return d, err
				}
			}
		}
	}
	return verifOrigNewLocalDirectory(directoryParser)
}
