//go:build verif

package blockdevice

// VerifBlockDeviceFromFileHook lets the simulator substitute a simulated
// device for registered paths (DESIGN.md S4). Only present in overlay builds.
var VerifBlockDeviceFromFileHook func(path string, minimumSizeBytes int, zeroInitialize bool) (BlockDevice, int, int64, error, bool)

// NewBlockDeviceFromFile wraps the original constructor, which the overlay
// renames to verifOrigNewBlockDeviceFromFile.
func NewBlockDeviceFromFile(path string, minimumSizeBytes int, zeroInitialize bool) (BlockDevice, int, int64, error) {
	if h := VerifBlockDeviceFromFileHook; h != nil {
		if bd, sectorSize, sectorCount, err, ok := h(path, minimumSizeBytes, zeroInitialize); ok {
			return bd, sectorSize, sectorCount, err
		}
	}
	return verifOrigNewBlockDeviceFromFile(path, minimumSizeBytes, zeroInitialize)
}
