package f3

import (
	"bytes"
	"errors"
	"testing"

	"github.com/buildbarn/bb-storage/pkg/blobstore/buffer"
)

type reader struct {
	*bytes.Reader
	closes int
}

func (r *reader) Close() error { r.closes++; return nil }

// A buffer backed by a ReadAtCloser runs tasks attached with WithTask()
// synchronously. If the task fails, the buffer is replaced by an error
// buffer; the underlying reader must still be released.
func TestValidatedReaderAtBufferWithFailingTask(t *testing.T) {
	r := &reader{Reader: bytes.NewReader([]byte("hello"))}
	b := buffer.NewValidatedBufferFromReaderAt(r, 5).WithTask(func() error { return errors.New("task failed") })
	if _, err := b.ToByteSlice(10); err == nil {
		t.Fatal("expected the task's error")
	}
	if r.closes != 1 {
		t.Errorf("underlying reader was closed %d times, want 1", r.closes)
	}
}
