package f56

import (
	"bytes"
	"context"
	"io"
	"testing"

	remoteexecution "github.com/bazelbuild/remote-apis/build/bazel/remote/execution/v2"
	"github.com/buildbarn/bb-storage/pkg/blobstore"
	"github.com/buildbarn/bb-storage/pkg/blobstore/buffer"
	"github.com/buildbarn/bb-storage/pkg/blobstore/grpcservers"
	"github.com/buildbarn/bb-storage/pkg/blobstore/slicing"
	"github.com/buildbarn/bb-storage/pkg/digest"
	bb_zstd "github.com/buildbarn/bb-storage/pkg/zstd"
	"github.com/google/uuid"
	"github.com/klauspost/compress/zstd"

	"google.golang.org/genproto/googleapis/bytestream"
	"google.golang.org/grpc/codes"
	"google.golang.org/grpc/metadata"
	"google.golang.org/grpc/status"
)

type mapBackend struct {
	blobstore.BlobAccess
	objs map[string][]byte
}

func (m *mapBackend) Get(ctx context.Context, d digest.Digest) buffer.Buffer {
	if data, ok := m.objs[d.String()]; ok {
		return buffer.NewValidatedBufferFromByteSlice(data)
	}
	return buffer.NewBufferFromError(status.Error(codes.NotFound, "not found"))
}

func (m *mapBackend) Put(ctx context.Context, d digest.Digest, b buffer.Buffer) error {
	data, err := b.ToByteSlice(1 << 20)
	if err != nil {
		return err
	}
	m.objs[d.String()] = data
	return nil
}

func (m *mapBackend) GetFromComposite(ctx context.Context, p, c digest.Digest, s slicing.BlobSlicer) buffer.Buffer {
	panic("unused")
}

type stream struct{ ctx context.Context }

func (s stream) SetHeader(metadata.MD) error  { return nil }
func (s stream) SendHeader(metadata.MD) error { return nil }
func (s stream) SetTrailer(metadata.MD)       {}
func (s stream) Context() context.Context     { return s.ctx }
func (s stream) SendMsg(m any) error          { return nil }
func (s stream) RecvMsg(m any) error          { return nil }

type readStream struct {
	stream
	data []byte
}

func (s *readStream) Send(r *bytestream.ReadResponse) error {
	s.data = append(s.data, r.Data...)
	return nil
}

type writeStream struct {
	stream
	msgs []*bytestream.WriteRequest
}

func (s *writeStream) Recv() (*bytestream.WriteRequest, error) {
	if len(s.msgs) == 0 {
		return nil, io.EOF
	}
	m := s.msgs[0]
	s.msgs = s.msgs[1:]
	return m, nil
}
func (s *writeStream) SendAndClose(*bytestream.WriteResponse) error { return nil }

var (
	content = []byte("hello, compressed world")
	d       = digest.MustNewDigest("", remoteexecution.DigestFunction_SHA256, "f9f8ad4f2f4f8a0f4ea2a1c5ae1c5a2b0e4b4a4d5d6f7e8c9d0a1b2c3d4e5f60", int64(len(content)))
)

func pool() bb_zstd.Pool {
	return bb_zstd.NewUnboundedPool([]zstd.EOption{zstd.WithEncoderConcurrency(1)}, []zstd.DOption{zstd.WithDecoderConcurrency(1)})
}

// A compressed ByteStream Read must honour read_offset (an offset into the
// uncompressed data), like the uncompressed variant does.
func TestZstdReadHonoursOffset(t *testing.T) {
	backend := &mapBackend{objs: map[string][]byte{d.String(): content}}
	server := grpcservers.NewByteStreamServer(backend, 8, pool())
	for _, off := range []int64{0, 7, int64(len(content))} {
		out := &readStream{stream: stream{context.Background()}}
		if err := server.Read(&bytestream.ReadRequest{ResourceName: d.GetByteStreamReadPath(remoteexecution.Compressor_ZSTD), ReadOffset: off}, out); err != nil {
			t.Fatalf("offset %d: %v", off, err)
		}
		dec, _ := zstd.NewReader(nil)
		got, err := dec.DecodeAll(out.data, nil)
		if err != nil && len(out.data) > 0 {
			t.Fatalf("offset %d: %v", off, err)
		}
		if !bytes.Equal(got, content[off:]) {
			t.Errorf("offset %d: got %q, want %q", off, got, content[off:])
		}
	}
	out := &readStream{stream: stream{context.Background()}}
	if err := server.Read(&bytestream.ReadRequest{ResourceName: d.GetByteStreamReadPath(remoteexecution.Compressor_ZSTD), ReadOffset: -1}, out); err == nil {
		t.Errorf("negative offset accepted")
	}
}

// A compressed ByteStream Write whose first request does not start at offset
// zero must be rejected, like the uncompressed variant does.
func TestZstdWriteRejectsNonZeroFirstOffset(t *testing.T) {
	data := []byte("hello")
	dd := digest.MustNewDigest("", remoteexecution.DigestFunction_SHA256, "2cf24dba5fb0a30e26e83b2ac5b9e29e1b161e5c1fa7425e73043362938b9824", 5)
	enc, _ := zstd.NewWriter(nil)
	wire := enc.EncodeAll(data, nil)
	backend := &mapBackend{objs: map[string][]byte{}}
	server := grpcservers.NewByteStreamServer(backend, 8, pool())
	name := dd.GetByteStreamWritePath(uuid.MustParse("11111111-2222-3333-4444-555555555555"), remoteexecution.Compressor_ZSTD)
	err := server.Write(&writeStream{stream: stream{context.Background()}, msgs: []*bytestream.WriteRequest{{ResourceName: name, WriteOffset: 3, Data: wire, FinishWrite: true}}})
	if status.Code(err) != codes.InvalidArgument {
		t.Errorf("write starting at offset 3: got %v, want INVALID_ARGUMENT", err)
	}
	if len(backend.objs) != 0 {
		t.Errorf("object was stored")
	}
}
