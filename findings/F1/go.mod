module f1

go 1.26.5

require (
	github.com/bazelbuild/remote-apis v0.0.0-20260331222004-becdd8f9ff81
	github.com/buildbarn/bb-storage v0.0.0
)

require (
	cloud.google.com/go/longrunning v1.0.0 // indirect
	github.com/beorn7/perks v1.0.1 // indirect
	github.com/buildbarn/go-sha256tree v0.0.0-20250310211320-0f70f20e855b // indirect
	github.com/cespare/xxhash/v2 v2.3.0 // indirect
	github.com/google/go-jsonnet v0.22.0 // indirect
	github.com/google/uuid v1.6.0 // indirect
	github.com/klauspost/cpuid/v2 v2.3.0 // indirect
	github.com/munnerz/goautoneg v0.0.0-20191010083416-a7dc8b61c822 // indirect
	github.com/prometheus/client_golang v1.23.2 // indirect
	github.com/prometheus/client_model v0.6.2 // indirect
	github.com/prometheus/common v0.67.5 // indirect
	github.com/prometheus/procfs v0.20.1 // indirect
	github.com/zeebo/blake3 v0.2.4 // indirect
	go.yaml.in/yaml/v2 v2.4.4 // indirect
	golang.org/x/crypto v0.52.0 // indirect
	golang.org/x/net v0.55.0 // indirect
	golang.org/x/sync v0.20.0 // indirect
	golang.org/x/sys v0.45.0 // indirect
	golang.org/x/text v0.37.0 // indirect
	google.golang.org/genproto/googleapis/api v0.0.0-20260526163538-3dc84a4a5aaa // indirect
	google.golang.org/genproto/googleapis/rpc v0.0.0-20260526163538-3dc84a4a5aaa // indirect
	google.golang.org/grpc v1.81.1 // indirect
	google.golang.org/protobuf v1.36.12-0.20260120151049-f2248ac996af // indirect
	sigs.k8s.io/yaml v1.6.0 // indirect
)

replace github.com/buildbarn/bb-storage => /repo

replace go.uber.org/mock => go.uber.org/mock v0.4.0

replace cel.dev/expr => cel.dev/expr v0.25.1
