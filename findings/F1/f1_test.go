package f1

import (
	"bytes"
	"io"
	"testing"

	remoteexecution "github.com/bazelbuild/remote-apis/build/bazel/remote/execution/v2"
	"github.com/buildbarn/bb-storage/pkg/blobstore/buffer"
	"github.com/buildbarn/bb-storage/pkg/digest"
)

// Clones of a buffer that has a background task attached must still know
// their size (and be usable with WithTask()/WithErrorHandler()).
func TestCloneOfBufferWithBackgroundTask(t *testing.T) {
	data := []byte("hello")
	d := digest.MustNewDigest("", remoteexecution.DigestFunction_SHA256, "2cf24dba5fb0a30e26e83b2ac5b9e29e1b161e5c1fa7425e73043362938b9824", 5)
	b := buffer.NewCASBufferFromReader(d, io.NopCloser(bytes.NewReader(data)), buffer.UserProvided).WithTask(func() error { return nil })
	b1, b2 := b.CloneStream()
	done := make(chan struct{})
	go func() {
		b2.Discard()
		close(done)
	}()
	size, err := b1.GetSizeBytes()
	if err != nil || size != 5 {
		t.Errorf("GetSizeBytes() = %d, %v", size, err)
	}
	got, err := b1.ToByteSlice(10)
	if err != nil || !bytes.Equal(got, data) {
		t.Errorf("ToByteSlice() = %q, %v", got, err)
	}
	<-done
}
