package f4

import (
	"bytes"
	"context"
	"testing"

	remoteexecution "github.com/bazelbuild/remote-apis/build/bazel/remote/execution/v2"
	"github.com/buildbarn/bb-storage/pkg/auth"
	"github.com/buildbarn/bb-storage/pkg/blobstore"
	"github.com/buildbarn/bb-storage/pkg/blobstore/buffer"
	"github.com/buildbarn/bb-storage/pkg/digest"

	"google.golang.org/grpc/codes"
	"google.golang.org/grpc/status"
)

type source struct {
	*bytes.Reader
	closes int
}

func (s *source) Close() error { s.closes++; return nil }

// An upload that is rejected by the authorizer must still release its buffer.
func TestAuthorizingBlobAccessRejectedPutReleasesBuffer(t *testing.T) {
	deny := auth.NewStaticAuthorizer(func(digest.InstanceName) bool { return false })
	ba := blobstore.NewAuthorizingBlobAccess(blobstore.NewErrorBlobAccess(status.Error(codes.Internal, "backend must not be contacted")), deny, deny, deny)
	d := digest.MustNewDigest("x", remoteexecution.DigestFunction_SHA256, "2cf24dba5fb0a30e26e83b2ac5b9e29e1b161e5c1fa7425e73043362938b9824", 5)
	src := &source{Reader: bytes.NewReader([]byte("hello"))}
	err := ba.Put(context.Background(), d, buffer.NewCASBufferFromReader(d, src, buffer.UserProvided))
	if status.Code(err) != codes.PermissionDenied {
		t.Fatalf("expected PERMISSION_DENIED, got %v", err)
	}
	if src.closes != 1 {
		t.Errorf("upload source was closed %d times, want 1", src.closes)
	}
}
