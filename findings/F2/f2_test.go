package f2

import (
	"bytes"
	"context"
	"crypto/sha256"
	"encoding/hex"
	"io"
	"sync"
	"testing"

	remoteexecution "github.com/bazelbuild/remote-apis/build/bazel/remote/execution/v2"
	"github.com/buildbarn/bb-storage/pkg/blobstore"
	"github.com/buildbarn/bb-storage/pkg/blobstore/buffer"
	"github.com/buildbarn/bb-storage/pkg/blobstore/local"
	"github.com/buildbarn/bb-storage/pkg/digest"
	"github.com/buildbarn/bb-storage/pkg/util"

	"google.golang.org/grpc/codes"
	"google.golang.org/grpc/status"
)

type memDevice struct{ data []byte }

func (d *memDevice) ReadAt(p []byte, off int64) (int, error) {
	n := copy(p, d.data[off:])
	if n < len(p) {
		return n, io.EOF
	}
	return n, nil
}
func (d *memDevice) WriteAt(p []byte, off int64) (int, error) { return copy(d.data[off:], p), nil }
func (d *memDevice) Sync() error                                { return nil }
func (d *memDevice) Close() error                               { return nil }

// countingFactory counts how many block readers were opened and closed.
type countingFactory struct {
	blobstore.ReadBufferFactory
	opened, closed int
}

type countingReader struct {
	buffer.ReadAtCloser
	f *countingFactory
}

func (r *countingReader) Close() error { r.f.closed++; return r.ReadAtCloser.Close() }

func (f *countingFactory) NewBufferFromReaderAt(d digest.Digest, r buffer.ReadAtCloser, sizeBytes int64, cb buffer.DataIntegrityCallback) buffer.Buffer {
	f.opened++
	return f.ReadBufferFactory.NewBufferFromReaderAt(d, &countingReader{r, f}, sizeBytes, cb)
}

func dg(data []byte) digest.Digest {
	h := sha256.Sum256(data)
	return digest.MustNewDigest("a", remoteexecution.DigestFunction_SHA256, hex.EncodeToString(h[:]), int64(len(data)))
}

// When refreshing an object in an "old" block fails because no block can be
// allocated, the reader that was already opened on the old block must be
// released. Otherwise the block stays pinned for ever.
func TestHierarchicalGetRefreshAllocationFailure(t *testing.T) {
	const sector, blockSectors, blocks = 16, 2, 2
	f := &countingFactory{ReadBufferFactory: blobstore.CASReadBufferFactory}
	allocator := local.NewBlockDeviceBackedBlockAllocator(&memDevice{data: make([]byte, sector*blockSectors*blocks)}, f, sector, blockSectors, blocks, "f2")
	var lock sync.RWMutex
	lbm := local.NewOldCurrentNewLocationBlobMap(local.NewVolatileBlockList(allocator), local.NewImmutableBlockListGrowthPolicy(0, 1), util.DefaultErrorLogger, "f2", sector*blockSectors, 1, 1, 0)
	klm := local.NewHashingKeyLocationMap(local.NewInMemoryLocationRecordArray(61, lbm), 61, 1, 8, 32, "f2")
	ba := local.NewHierarchicalCASBlobAccess(klm, lbm, &lock, nil)
	ctx := context.Background()
	a := bytes.Repeat([]byte("a"), sector*blockSectors)
	b := bytes.Repeat([]byte("b"), sector*blockSectors)
	for _, data := range [][]byte{a, b} {
		if err := ba.Put(ctx, dg(data), buffer.NewValidatedBufferFromByteSlice(data)); err != nil {
			t.Fatal(err)
		}
	}
	// "a" now lies in the old block and both blocks are in use: the refresh
	// performed by Get() cannot allocate space.
	_, err := ba.Get(ctx, dg(a)).ToByteSlice(1000)
	if status.Code(err) != codes.Unavailable {
		t.Fatalf("expected the refresh to fail with UNAVAILABLE, got %v", err)
	}
	if f.opened != f.closed {
		t.Errorf("%d block readers were opened, but only %d were closed", f.opened, f.closed)
	}
}
