package f11

import (
	"bytes"
	"context"
	"crypto/sha256"
	"encoding/hex"
	"net"
	"sync"
	"testing"

	remoteexecution "github.com/bazelbuild/remote-apis/build/bazel/remote/execution/v2"
	"github.com/bazelbuild/remote-apis/build/bazel/semver"
	"github.com/buildbarn/bb-storage/pkg/blobstore"
	"github.com/buildbarn/bb-storage/pkg/blobstore/buffer"
	"github.com/buildbarn/bb-storage/pkg/blobstore/grpcclients"
	"github.com/buildbarn/bb-storage/pkg/blobstore/grpcservers"
	"github.com/buildbarn/bb-storage/pkg/blobstore/slicing"
	"github.com/buildbarn/bb-storage/pkg/digest"
	bb_zstd "github.com/buildbarn/bb-storage/pkg/zstd"
	"github.com/google/uuid"

	"google.golang.org/genproto/googleapis/bytestream"
	"google.golang.org/grpc"
	"google.golang.org/grpc/codes"
	"google.golang.org/grpc/credentials/insecure"
	"google.golang.org/grpc/status"
	"google.golang.org/grpc/test/bufconn"
)

// memoryBlobAccess is a trivial in-memory backend.
type memoryBlobAccess struct {
	lock  sync.Mutex
	blobs map[string][]byte
}

func (ba *memoryBlobAccess) Get(ctx context.Context, d digest.Digest) buffer.Buffer {
	ba.lock.Lock()
	defer ba.lock.Unlock()
	data, ok := ba.blobs[d.GetKey(digest.KeyWithInstance)]
	if !ok {
		return buffer.NewBufferFromError(status.Error(codes.NotFound, "Blob not found"))
	}
	return buffer.NewValidatedBufferFromByteSlice(data)
}

func (ba *memoryBlobAccess) GetFromComposite(ctx context.Context, parentDigest, childDigest digest.Digest, slicer slicing.BlobSlicer) buffer.Buffer {
	b, _ := slicer.Slice(ba.Get(ctx, parentDigest), childDigest)
	return b
}

func (ba *memoryBlobAccess) Put(ctx context.Context, d digest.Digest, b buffer.Buffer) error {
	data, err := b.ToByteSlice(1 << 30)
	if err != nil {
		return err
	}
	ba.lock.Lock()
	defer ba.lock.Unlock()
	ba.blobs[d.GetKey(digest.KeyWithInstance)] = data
	return nil
}

func (ba *memoryBlobAccess) FindMissing(ctx context.Context, digests digest.Set) (digest.Set, error) {
	ba.lock.Lock()
	defer ba.lock.Unlock()
	missing := digest.NewSetBuilder(0)
	for _, d := range digests.Items() {
		if _, ok := ba.blobs[d.GetKey(digest.KeyWithInstance)]; !ok {
			missing.Add(d)
		}
	}
	return missing.Build(), nil
}

func (ba *memoryBlobAccess) GetCapabilities(ctx context.Context, instanceName digest.InstanceName) (*remoteexecution.ServerCapabilities, error) {
	return nil, status.Error(codes.Unimplemented, "unused")
}

type capabilitiesServer struct{}

func (capabilitiesServer) GetCapabilities(ctx context.Context, in *remoteexecution.GetCapabilitiesRequest) (*remoteexecution.ServerCapabilities, error) {
	return &remoteexecution.ServerCapabilities{
		CacheCapabilities: &remoteexecution.CacheCapabilities{
			DigestFunctions:      digest.SupportedDigestFunctions,
			SupportedCompressors: []remoteexecution.Compressor_Value{remoteexecution.Compressor_ZSTD},
		},
		LowApiVersion:  &semver.SemVer{Major: 2},
		HighApiVersion: &semver.SemVer{Major: 2, Minor: 3},
	}, nil
}

func startServer(t *testing.T, backend blobstore.BlobAccess, pool bb_zstd.Pool) grpc.ClientConnInterface {
	listener := bufconn.Listen(1 << 20)
	server := grpc.NewServer()
	bytestream.RegisterByteStreamServer(server, grpcservers.NewByteStreamServer(backend, 100, pool))
	remoteexecution.RegisterContentAddressableStorageServer(server, grpcservers.NewContentAddressableStorageServer(backend, 1<<20))
	remoteexecution.RegisterCapabilitiesServer(server, capabilitiesServer{})
	go server.Serve(listener)
	t.Cleanup(server.Stop)
	conn, err := grpc.NewClient("passthrough:///bufnet",
		grpc.WithContextDialer(func(ctx context.Context, _ string) (net.Conn, error) { return listener.DialContext(ctx) }),
		grpc.WithTransportCredentials(insecure.NewCredentials()))
	if err != nil {
		t.Fatal(err)
	}
	t.Cleanup(func() { conn.Close() })
	return conn
}

func sha256Digest(instance string, data []byte) digest.Digest {
	h := sha256.Sum256(data)
	return digest.MustNewDigest(instance, remoteexecution.DigestFunction_SHA256, hex.EncodeToString(h[:]), int64(len(data)))
}

// NOT a mutant demonstration: this test FAILS ON THE UNCHANGED TREE. It
// reproduces a defect that is already present in
// zstdByteStreamChunkReader.Read() (pkg/blobstore/grpcclients/cas_blob_access.go):
// the final data is returned together with io.EOF, which
// casValidatingChunkReader treats as "no data", so the tail of the blob
// is dropped and the read fails with a bogus size mismatch.
func TestBaseline(t *testing.T) {
	pool := bb_zstd.NewUnboundedPool(nil, nil)
	backend := &memoryBlobAccess{blobs: map[string][]byte{}}
	conn := startServer(t, backend, pool)
	client := grpcclients.NewCASBlobAccess(conn, uuid.NewRandom, 64, pool)
	ctx := context.Background()

	for _, size := range []int{0, 1, 63, 64, 65, 1000, 5000, 65536, 100000} {
		data := make([]byte, size)
		for i := range data {
			data[i] = byte(i * 7 % 251)
		}
		d := sha256Digest("hello", data)
		if err := client.Put(ctx, d, buffer.NewValidatedBufferFromByteSlice(data)); err != nil {
			t.Fatal(size, err)
		}
		got, err := client.Get(ctx, d).ToByteSlice(1 << 30)
		if err != nil {
			t.Errorf("reading a %d byte blob through a ZSTD enabled client: %v", size, err)
			continue
		}
		if !bytes.Equal(got, data) {
			t.Fatal(size, "mismatch")
		}
	}
}
