package f7

import (
	"bytes"
	"io"
	"testing"

	remoteexecution "github.com/bazelbuild/remote-apis/build/bazel/remote/execution/v2"
	"github.com/buildbarn/bb-storage/pkg/blobstore/buffer"
	"github.com/buildbarn/bb-storage/pkg/blobstore/local"
	"github.com/buildbarn/bb-storage/pkg/digest"
)

// A reader-backed upload into an in-memory block whose remaining capacity is
// below bytes.MinRead (512) is acknowledged but its bytes never reach the block.
func TestInMemoryBlockReaderBackedPut(t *testing.T) {
	for _, blockSize := range []int{32, 1024} {
		a := local.NewInMemoryBlockAllocator(blockSize)
		b, _, _ := a.NewBlock()
		// fill up to 600 bytes below... place the object near the end of the block
		filler := blockSize - 16
		fin := b.Put(int64(filler))(buffer.NewValidatedBufferFromByteSlice(make([]byte, filler)))
		if _, err := fin(); err != nil {
			t.Fatal(err)
		}
		data := []byte("hello, world")
		d := digest.MustNewDigest("", remoteexecution.DigestFunction_SHA256, "09ca7e4eaa6e8ae9c7d261167129184883644d07dfba7cbfbc4c8a2e08360d5b", int64(len(data)))
		fin = b.Put(int64(len(data)))(buffer.NewCASBufferFromReader(d, io.NopCloser(bytes.NewReader(data)), buffer.UserProvided))
		off, err := fin()
		if err != nil {
			t.Fatal(err)
		}
		got, err := b.Get(d, off, int64(len(data)), func(bool) {}).ToByteSlice(100)
		if err != nil {
			t.Fatal(err)
		}
		if !bytes.Equal(got, data) {
			t.Errorf("block size %d: read back %q, uploaded %q", blockSize, got, data)
		}
	}
}
