package f8

import (
	"bytes"
	"context"
	"crypto/sha256"
	"encoding/hex"
	"sync"
	"testing"

	remoteexecution "github.com/bazelbuild/remote-apis/build/bazel/remote/execution/v2"
	"github.com/buildbarn/bb-storage/pkg/blobstore"
	"github.com/buildbarn/bb-storage/pkg/blobstore/buffer"
	"github.com/buildbarn/bb-storage/pkg/blobstore/local"
	"github.com/buildbarn/bb-storage/pkg/blobstore/slicing"
	"github.com/buildbarn/bb-storage/pkg/digest"
	"github.com/buildbarn/bb-storage/pkg/util"

	"google.golang.org/grpc/codes"
	"google.golang.org/grpc/status"
)

func dg(data []byte) digest.Digest {
	h := sha256.Sum256(data)
	return digest.MustNewDigest("", remoteexecution.DigestFunction_SHA256, hex.EncodeToString(h[:]), int64(len(data)))
}

type slicer struct {
	ba       blobstore.BlobAccess
	children [][]byte
	fillers  [][]byte
}

func (s *slicer) Slice(b buffer.Buffer, childDigest digest.Digest) (buffer.Buffer, []slicing.BlobSlice) {
	data, err := b.ToByteSlice(1000)
	if err != nil {
		return buffer.NewBufferFromError(err), nil
	}
	// Other clients upload while the parent is being sliced (no lock is held here).
	for _, f := range s.fillers {
		s.ba.Put(context.Background(), dg(f), buffer.NewValidatedBufferFromByteSlice(f))
	}
	var slices []slicing.BlobSlice
	var child buffer.Buffer
	off := 0
	for _, c := range s.children {
		slices = append(slices, slicing.BlobSlice{Digest: dg(c), OffsetBytes: int64(off), SizeBytes: int64(len(c))})
		if dg(c) == childDigest {
			child = buffer.NewValidatedBufferFromByteSlice(data[off : off+len(c)])
		}
		off += len(c)
	}
	return child, slices
}

// A block rotation between the two lock holds of a slicing-only
// GetFromComposite() makes it record the slices in the wrong block.
func TestGetFromCompositeStaleLocation(t *testing.T) {
	const blockSize = 32
	var lock sync.RWMutex
	blockList := local.NewVolatileBlockList(local.NewInMemoryBlockAllocator(blockSize))
	lbm := local.NewOldCurrentNewLocationBlobMap(blockList, local.NewImmutableBlockListGrowthPolicy(2, 1), util.DefaultErrorLogger, "test", blockSize, 1, 1, 0)
	klm := local.NewHashingKeyLocationMap(local.NewInMemoryLocationRecordArray(251, lbm), 251, 1, 16, 64, "test")
	ba := local.NewFlatBlobAccess(klm, lbm, digest.KeyWithoutInstance, &lock, "test", nil)
	ctx := context.Background()

	a, b := []byte("aaaaaaaaaa"), []byte("bbbbbbbbbbbbbbbbbbbb")
	parent := append(append([]byte{}, a...), b...)
	// Fill the store until the parent lies in a "current" block.
	filler := func(i int) []byte { return bytes.Repeat([]byte{byte('0' + i)}, blockSize) }
	if err := ba.Put(ctx, dg(filler(0)), buffer.NewValidatedBufferFromByteSlice(filler(0))); err != nil {
		t.Fatal(err)
	}
	if err := ba.Put(ctx, dg(parent), buffer.NewValidatedBufferFromByteSlice(parent)); err != nil {
		t.Fatal(err)
	}
	s := &slicer{ba: ba, children: [][]byte{a, b}, fillers: [][]byte{filler(1), filler(2), filler(3), filler(4)}}
	got, err := ba.GetFromComposite(ctx, dg(parent), dg(a), s).ToByteSlice(1000)
	if err != nil || !bytes.Equal(got, a) {
		t.Fatalf("GetFromComposite: %q, %v", got, err)
	}
	// The second child was recorded as a slice of the parent. It must now be
	// absent or have the right bytes.
	got, err = ba.Get(ctx, dg(b)).ToByteSlice(1000)
	if err != nil {
		if status.Code(err) != codes.NotFound {
			t.Fatal(err)
		}
		return
	}
	if !bytes.Equal(got, b) {
		t.Errorf("Get(child) returned %q, want %q", got, b)
	}
}
