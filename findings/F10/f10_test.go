package f10

import (
	"context"
	"testing"

	remoteexecution "github.com/bazelbuild/remote-apis/build/bazel/remote/execution/v2"
	"github.com/buildbarn/bb-storage/pkg/blobstore"
	"github.com/buildbarn/bb-storage/pkg/blobstore/buffer"
	"github.com/buildbarn/bb-storage/pkg/blobstore/completenesschecking"
	"github.com/buildbarn/bb-storage/pkg/blobstore/slicing"
	"github.com/buildbarn/bb-storage/pkg/digest"

	"crypto/sha256"
	"encoding/hex"

	"google.golang.org/grpc/codes"
	"google.golang.org/grpc/status"
	"google.golang.org/protobuf/proto"
)

// A Tree object whose bytes are NOT a valid Tree message (proto.Unmarshal
// rejects them: the only field carries a field number beyond 2^29-1) is
// accepted by the completeness checker: it returns the ActionResult although
// a referenced Tree is unreadable for every protobuf implementation.
//
// 82 e3 d2 d1 36 = tag varint, wire type 2, field number 1 817 831 024
// 06             = length
// b2 82 d2 5d 41 f5 = payload

type mapStore struct {
	blobstore.BlobAccess
	objs map[string][]byte
}

func (m *mapStore) Get(ctx context.Context, d digest.Digest) buffer.Buffer {
	if data, ok := m.objs[d.GetKey(digest.KeyWithoutInstance)]; ok {
		return buffer.NewCASBufferFromByteSlice(d, data, buffer.BackendProvided(func(bool) {}))
	}
	return buffer.NewBufferFromError(status.Error(codes.NotFound, "not found"))
}

func (m *mapStore) GetFromComposite(ctx context.Context, p, c digest.Digest, s slicing.BlobSlicer) buffer.Buffer {
	return buffer.NewBufferFromError(status.Error(codes.Unimplemented, "n/a"))
}

func (m *mapStore) FindMissing(ctx context.Context, ds digest.Set) (digest.Set, error) {
	sb := digest.NewSetBuilder(0)
	for _, d := range ds.Items() {
		if _, ok := m.objs[d.GetKey(digest.KeyWithoutInstance)]; !ok {
			sb.Add(d)
		}
	}
	return sb.Build(), nil
}

type acStore struct {
	blobstore.BlobAccess
	ar *remoteexecution.ActionResult
}

func (a *acStore) Get(ctx context.Context, d digest.Digest) buffer.Buffer {
	return buffer.NewProtoBufferFromProto(a.ar, buffer.BackendProvided(func(bool) {}))
}

func TestTreeWithOutOfRangeFieldNumberIsAccepted(t *testing.T) {
	tree := []byte{0x82, 0xe3, 0xd2, 0xd1, 0x36, 0x06, 0xb2, 0x82, 0xd2, 0x5d, 0x41, 0xf5}
	if err := proto.Unmarshal(tree, &remoteexecution.Tree{}); err == nil {
		t.Fatal("the bytes were expected not to be a valid Tree message")
	}
	sum := sha256.Sum256(tree)
	treeDigest := &remoteexecution.Digest{Hash: hex.EncodeToString(sum[:]), SizeBytes: int64(len(tree))}
	td := digest.MustNewDigest("", remoteexecution.DigestFunction_SHA256, treeDigest.Hash, treeDigest.SizeBytes)
	cas := &mapStore{objs: map[string][]byte{td.GetKey(digest.KeyWithoutInstance): tree}}
	ac := &acStore{ar: &remoteexecution.ActionResult{OutputDirectories: []*remoteexecution.OutputDirectory{{Path: "out", TreeDigest: treeDigest}}}}
	ba := completenesschecking.NewCompletenessCheckingBlobAccess(ac, cas, 100, 1<<20, 1<<20)
	actionDigest := digest.MustNewDigest("", remoteexecution.DigestFunction_SHA256, "e3b0c44298fc1c149afbf4c8996fb92427ae41e4649b934ca495991b7852b855", 0)
	_, err := ba.Get(context.Background(), actionDigest).ToProto(&remoteexecution.ActionResult{}, 1<<20)
	if err == nil {
		t.Fatal("the ActionResult was returned although its Tree is not a valid Tree message")
	}
	t.Logf("rejected as it should be: %v", err)
}
