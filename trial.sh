#!/bin/bash
# trial.sh <worktree> <patch> <prop> [seconds]: run a check against a patched
# scratch worktree of the repository (mutant trials; never used for evidence).
# The machinery is snapshotted first, so edits in /verif during the trial do
# not mix versions. Build directory and snapshot live at fixed paths (the Go
# build cache keys on file paths); trials are serialised by a lock per lane
# (TRIAL_LANE=<suffix> selects another build directory, for parallel trials).
WT=$1; PATCH=$2; PROP=$3; SECS=${4:-20}
TAG=$(basename $WT)_$(basename $PATCH .patch)_$PROP
SRC=${VERIF_HOME:-/verif}
B=/tmp/vb_trial${TRIAL_LANE:-}
exec 8>$B.lock; flock 8
mkdir -p $B/verif
rsync -a --delete --exclude .build --exclude replays --exclude .git --exclude evidence --exclude seeded --exclude findings $SRC/ $B/verif/
rm -rf $B/replays $B/evidence $B/out
export VERIF_HOME=$B/verif
export VERIF_REPO=$WT VERIF_BUILD=$B VERIF_REPLAYS=$B/replays VERIF_EVIDENCE=$B/evidence VERIF_SECONDS=$SECS
git -C $WT checkout -q -- pkg cmd
git -C $WT apply $PATCH || exit 9
$VERIF_HOME/check $PROP quick > /tmp/vb_$TAG.out 2>/tmp/vb_$TAG.err; rc=$?
git -C $WT checkout -q -- pkg cmd
echo "$TAG exit=$rc $(grep -m1 -A1 '^VIOLATION' /tmp/vb_$TAG.out | tr '\n' ' ' | cut -c1-300)"
