#!/bin/bash
# trial.sh <worktree> <patch> <prop> [seconds]: run a check against a patched
# scratch worktree of the repository (mutant trials; never used for evidence).
# The machinery is snapshotted first, so edits in /verif during the trial do
# not mix versions.
WT=$1; PATCH=$2; PROP=$3; SECS=${4:-20}
TAG=$(basename $WT)_$(basename $PATCH .patch)_$PROP
SRC=${VERIF_HOME:-/verif}
mkdir -p /tmp/vb_$TAG/verif
rsync -a --delete --exclude .build --exclude replays --exclude .git --exclude evidence --exclude seeded --exclude findings $SRC/ /tmp/vb_$TAG/verif/
export VERIF_HOME=/tmp/vb_$TAG/verif
export VERIF_REPO=$WT VERIF_BUILD=/tmp/vb_$TAG VERIF_REPLAYS=/tmp/vb_$TAG/replays VERIF_EVIDENCE=/tmp/vb_$TAG/evidence VERIF_SECONDS=$SECS
git -C $WT checkout -q -- pkg cmd
git -C $WT apply $PATCH || exit 9
$VERIF_HOME/check $PROP quick > /tmp/vb_$TAG.out 2>/tmp/vb_$TAG.err; rc=$?
git -C $WT checkout -q -- pkg cmd
echo "$TAG exit=$rc $(grep -m1 -A1 '^VIOLATION' /tmp/vb_$TAG.out | tr '\n' ' ' | cut -c1-300)"
rm -rf /tmp/vb_$TAG/vsim /tmp/vb_$TAG/overlay /tmp/vb_$TAG/xsync /tmp/vb_$TAG/out /tmp/vb_$TAG/verif
