#!/bin/bash
# Regenerates the overlay from /repo's current working tree and builds the
# simulator binary. Exit 2 on any build trouble (never a VIOLATION).
set -u
REPO=${VERIF_REPO:-/repo}
V=${VERIF_HOME:-/verif}
B=${VERIF_BUILD:-$V/.build}
export GOFLAGS=-mod=mod GOPROXY=off GOTOOLCHAIN=local GONOSUMDB=* GONOSUMCHECK=1 GOFLAGS="-mod=mod"
GOROOT_DIR=$(ls -d /root/go/pkg/mod/golang.org/toolchain@v0.0.1-go1.26.5.linux-amd64 2>/dev/null)
if [ -z "$GOROOT_DIR" ]; then GO=/opt/veriftools/go1.26.8/bin/go; else GO=$GOROOT_DIR/bin/go; fi
mkdir -p $B
(
  flock 9
  set -e
  if [ ! -x $B/xform ] || [ $V/xform/main.go -nt $B/xform ]; then
    (cd $V/xform && $GO build -o $B/xform .)
  fi
  XS=$(ls -d /root/go/pkg/mod/golang.org/x/sync@v0.20.0)
  $B/xform -repo $REPO -out $B/overlay -hooks $V/hooks \
     -dirs pkg/blobstore,pkg/digest,pkg/auth,pkg/eviction,pkg/util,pkg/zstd,pkg/blockdevice,pkg/filesystem \
     -xsync $XS:$B/xsync > $B/xform.stats
  sed "s#@REPO@#$REPO#; s#@BUILD@#$B#; s#@HOME@#$V#" $V/vsim/go.mod.tmpl > $B/vsim.mod
  cp $REPO/go.sum $B/vsim.sum
  cd $V/vsim
  $GO build -modfile=$B/vsim.mod -tags verif -overlay $B/overlay/overlay.json -o $B/vsim ./cmd/vsim
) 9>$B/.lock
rc=$?
if [ $rc -ne 0 ]; then echo "BUILD-FAILED (exit $rc)" >&2; exit 2; fi
exit 0
