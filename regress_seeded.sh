#!/bin/bash
# regress_seeded.sh [seconds] [ids...]: re-run every seeded change under
# /verif/seeded against the current machinery, in one scratch worktree of
# /repo (outside /repo and /verif; removed afterwards). Prints one line per
# change: DETECTED / MISSED / ERROR. Never used for evidence.
SECS=${1:-25}; shift
IDS="$@"; [ -z "$IDS" ] && IDS=$(ls /verif/seeded)
# (a fixed path: the Go build cache keys on file paths, so only the patched packages recompile)
WT=/tmp/wt_regress
git -C /repo worktree remove --force $WT 2>/dev/null
git -C /repo worktree add -q --detach $WT HEAD || exit 2
missed=0
for id in $IDS; do
  d=/verif/seeded/$id
  prop=$(python3 -c "import json;m=json.load(open('$d/meta.json'));db=m.get('detected_by');print('SKIP' if db is None else (db.get('check') or m['property']))")
  if [ "$prop" = SKIP ]; then echo "SKIPPED $id (recorded as not detectable: stubbed component)"; continue; fi
  cp $d/patch.diff /tmp/regress_$id.patch
  out=$(/verif/trial.sh $WT /tmp/regress_$id.patch $prop $SECS 2>&1 | tail -1)
  rm -f /tmp/regress_$id.patch
  case "$out" in
    *"exit=1 VIOLATION"*) echo "DETECTED $id $(echo $out | sed 's/.*class=/class=/' | cut -c1-120)";;
    *"exit=0"*) echo "MISSED $id"; missed=$((missed+1));;
    *) echo "ERROR $id $out";;
  esac
  rm -f /tmp/vb_$(basename $WT)_regress_${id}_$prop.out /tmp/vb_$(basename $WT)_regress_${id}_$prop.err
done
git -C /repo worktree remove --force $WT
echo "missed=$missed"
